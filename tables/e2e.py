# End-to-end monitors: real VmPolicy on the real ClientState + linear storage (package mon-e2e).

reg(
    "C29",
    native("mon-e2e", "pol_facts"),
    "model-based differential oracle: generated fact schemas + generated policy text run end to end "
    "(compiler -> VmPolicy -> ClientState -> linear storage) against a typed ordered model fact store",
    "Per history 1-2 fact schemas (1-3 key fields, 1-2 value fields over int/bool/string/id/enum) and a generated policy "
    "with create / update (all-literal, no value block, all-`?`, partly-`?` expected values) / delete commands, two-command "
    "actions, and probes for query, exists, count_up_to N, at_least, at_most, exactly (evaluated in command policy blocks and "
    "in action bodies) and map (action publishing one command per visited fact, so visit order is the effect order). "
    "Facts are spread over hundreds of commands/segments (fact-index chains and compaction), on the in-memory linear "
    "storage and on the libc file storage in a tmpfs scratch dir. The oracle is a BTreeMap keyed by typed tuples ordered as "
    "the documented key encoding promises (ints numerically incl. negatives and i64 extremes, false<true, strings and ids "
    "bytewise, enums by value) with prefix match on leading keys, value filters and count caps; after every mutation all "
    "facts are read back through Storage::fact_cache + Query::query_prefix and compared with the model (content, order and "
    "the raw key bytes against an independent encoder), plus direct prefix/exact lookups on the fact cache. "
    "Quick: ~480 histories x 600 operations (~1.3x10^5 probes); sampling, not enumeration.",
    "One client and linear histories only: fact indices produced by braids/merges are not exercised here. Create of an "
    "existing fact, delete/update of an absent fact are outside the statement: observed and tolerated (create overwrites, "
    "delete is a no-op, update fails), only other keys must stay untouched. Count limits are compile-time literals 1..6. "
    "Two genuine deviations are recorded as known findings (map ignores literal value fields; update with partly-`?` "
    "expected values always fails).",
    design_ref="DESIGN.md 5 (C29)",
)

reg(
    "C35",
    native("mon-e2e", "rt_auth"),
    "fault injection on wire commands between two real replicas (DefaultEngine, keystores, signing policy with "
    "crypto/device/envelope/idam/perspective FFIs) with a state-unchanged / accepted oracle",
    "Two devices (plus a third registered identity) run a policy whose seal blocks sign with the device signing key and "
    "whose open blocks verify against the author's registered public key held in facts. Honest actions of 8 command kinds "
    "run on both devices, sometimes concurrently so that merge commands appear; the commands the peer lacks are captured "
    "from a real SyncRequester/SyncResponder exchange and delivered one by one through transaction + add_commands + commit. "
    "Before the intact delivery every non-merge command is delivered in up to 10 single-field mutations re-encoded with "
    "postcard from VmProtocolData: payload bit flip, payload of another honest command of the same kind, command name "
    "swapped to a kind with identical field layout and priority, unknown command name, parent := another existing command "
    "(with its real max cut), author := another registered device / flipped bit, id bit flip, id of an existing command, "
    "signature bit flip, valid signature of another command by the same author. Oracle: mutated => add_commands returns "
    "Err (id of an existing command may also be ignored as a duplicate), no effects are committed, and the committed "
    "command set (walk from the heads), the fact dump and the heads are unchanged whether or not the transaction is then "
    "committed; intact => accepted, stored, effects equal the author's for that command id, and replicas with equal "
    "command sets have equal facts. Quick: ~190 worlds, ~7x10^3 commands x 10 mutations.",
    "Mutations that re-encode to the same wire command are discarded. Priority and policy wire fields are not in the "
    "statement and are not mutated; merge commands are delivered intact. Storage is the in-memory linear storage. One "
    "debug-profile-only panic on an unknown command name (debug_assert in get_command_priority) is a known finding.",
    design_ref="DESIGN.md 6 (C35)",
)
