# Crypto group: command signatures, wrapped keys, sealing, AFC channel keys, key stores.
# All monitors live in harness/mon-crypto and drive the real aranya-crypto / aranya-crypto-ffi /
# aranya-afc-util code (path dependencies) with a seeded deterministic Csprng.

reg(
    "C34",
    native("mon-crypto", "sig"),
    "mutation-based negative testing of sign_cmd/verify_cmd and the crypto FFI verify: every accepted mutant is a violation",
    "Random signing keys (default suite Ed25519; every 4th case a second suite with ECDSA-P256/DER signatures), command data "
    "0..2048 bytes, names (empty, identifiers, ASCII, multi-byte UTF-8) and parent ids. Positive: verify_cmd accepts sign_cmd's "
    "signature and returns the same command id (also after to_bytes/from_bytes). Negative, each must be rejected by verify_cmd: "
    "single bytes of data, every name character, every parent byte, every signature byte, truncation/extension, boundary shifts "
    "that keep name||parent||data byte-identical while moving the field boundaries, whole fields moved into their neighbour "
    "(empty vs missing), 2..5-point changes across fields and signature, another key, another key's signature. Through "
    "aranya-crypto-ffi (FfiModule::call of crypto::verify / crypto::sign): a valid command is accepted, an altered claimed "
    "command id (byte flips, zero, parent id, reversed) and altered data/parent/signature/key/command name are rejected, and "
    "crypto::sign's id equals what verify_cmd derives. Quick: ~8x10^3 base cases x ~150 mutants.",
    "Sampling over inputs, not exhaustive. The oracle demands rejection (the statement's 'verification fails'); a mutated "
    "signature encoding that imports to the same logical signature is discarded, one that does not import counts as rejected. "
    "Crafted ECDSA (r, n-s) twins are not generated. FFI errors are only visible as MachineError, so the rejection reason "
    "(InvalidCmdId) is inferred from the paired positive call that differs only in the claimed id.",
    design_ref="DESIGN.md 6 (C34)",
)

reg(
    "C36",
    native("mon-crypto", "wrap"),
    "round-trip + exhaustive byte-position mutation of the serialized wrapped key, cross-engine and cross-kind unwrap",
    "For all 9 UnwrappedKey types of aranya-crypto (IdentityKey, SigningKey, apq SenderSigningKey, EncryptionKey, apq "
    "SenderSecretKey/ReceiverSecretKey, afc UniAuthorSecret, GroupKey, PskSeed) and two monitor-local types declared with the "
    "crate's unwrapped! macro for the AEAD and MAC kinds: unwrap(wrap(k)) has k's id and interoperates with k (sign/verify, "
    "HPKE seal/open, AFC probe, group key seal/open, PSK derivation, AEAD, MAC tag), also after a postcard round trip. Every "
    "byte of the postcard form is flipped twice (one random bit, 0xff) and attributed to id / nonce / kind tag / ciphertext / "
    "tag; plus truncation, extension, each field spliced from another wrapped key of the same type and the complement; another "
    "engine's key; unwrap as every type of each other algorithm kind (all 30 ordered kind pairs required). Default suite plus a "
    "second suite with different signing-key and PRK types.",
    "Exhaustive over byte positions per case, sampled over keys/engines. Mutants that still deserialize and re-serialize to the "
    "original bytes are discarded (same logical value); mutants that do not deserialize count as failing. Unwrapping as another "
    "key type of the SAME kind (e.g. IdentityKey as SigningKey) succeeds on the current tree; that is outside the statement and "
    "only counted (same_kind_other_type_unwrap_succeeded). Only DefaultEngine is exercised.",
    design_ref="DESIGN.md 6 (C36)",
)

reg(
    "C37",
    native("mon-crypto", "seal"),
    "round-trip + single-component mutation of ciphertext and context for five sealing primitives",
    "GroupKey::seal/open and TopicKey::seal_message/open_message with plaintext lengths 0/1/15/16/17/31/32/33/255/4096 and "
    "random 0..4096; EncryptionPublicKey::seal_group_key/open_group_key; EncryptionKey::seal_psk_seed/open_psk_seed; "
    "ReceiverPublicKey::seal_topic_key/open_topic_key. Positive: open(seal(p)) == p (sealed keys: same key material/id and the "
    "opened key interoperates). Negative, each must fail: ciphertext byte flips (all bytes up to 160, else 28 at each edge + "
    "24 random; sealed keys: every byte of the postcard/byte form and 14 bytes of the encapsulation), truncation, extension, "
    "swapped ciphertext/encapsulation between two sealings, and each context component changed alone: label, parent command, "
    "author signing key, group id, sender key, recipient key, version, topic, other key.",
    "Sampling. Mutated encodings that do not decode count as failing, ones that decode to the same value are discarded. "
    "Version and topic (APQ) are treated as context components although the statement's parenthesis does not list them. "
    "Plaintext recovery is checked by equality; output buffers on failure are not inspected.",
    design_ref="DESIGN.md 6 (C37)",
)

reg(
    "C38",
    native("mon-crypto", "afc_keys"),
    "probe-message agreement oracle under single-parameter changes + attack attempts through the AFC effect handler",
    "Agreement cases: UniSecrets::new -> UniSealKey::from_author_secret and UniOpenKey::from_peer_encap must open a probe "
    "message when parent, label, seal id, open id and key pairs match; each of them changed alone on the peer side (plus ids "
    "swapped, encapsulation of another channel, encapsulation bytes) and on the author side (plus another author secret) must "
    "make the derivation fail or the keys disagree; seal_id == open_id must be refused by all three constructors. Handler "
    "cases: two devices with real engines and shared in-memory key stores; afc FFI create_uni_channel (FfiModule::call), "
    "Handler::uni_channel_created must give the author SealOnly, uni_channel_received the peer OpenOnly, and they work "
    "together; a reverse channel with the same parent/label; role checks (author named as opener, receiver named as sealer); "
    "9 attempts of the author to run received on its own channel, 9 of the peer to run created, repeated calls; finally no "
    "device may hold an open key that opens a probe sealed by one of its own seal keys.",
    "Sampling over parameter tuples; single changes are one flipped byte per id or a fresh key. The handler is used with "
    "SK = SealKey, OK = OpenKey as aranya-fast-channels does; a caller instantiating it with swapped key types is outside the "
    "property. Only unidirectional channels exist in this tree.",
    design_ref="DESIGN.md 6 (C38)",
)

reg(
    "C45",
    native("mon-crypto", "keystore"),
    "model-based lockstep testing (BTreeMap model) of MemStore and the fs Store with directory-listing invariant",
    "Random histories of 40..240 operations over 6 ids (all-zero, all-ff, leading zeros, random): entry->insert, entry->drop "
    "unused, get, remove, try_insert, occupied get (once/twice), occupied remove, occupied get-then-remove, vacant insert of a key whose encoding fails part-way (fs store: the id must stay vacant, no file left), reopen (drop + "
    "Store::open on the same directory) and try_clone, applied to MemStore, the file-system Store (vcore::Scratch dir on tmpfs) "
    "and a BTreeMap; every result (vacant/occupied, key returned by value, AlreadyExists) is compared. After every dropped "
    "vacant entry, every reopen, every 8th step and at the end the directory listing must be exactly the model's ids (the "
    "store's own __canary file ignored); after a reopen all ids are read back.",
    "Single-threaded histories only (no concurrent access, no crash injection). Wrapped keys are an opaque serde struct, not "
    "engine-wrapped keys. After a reported mismatch the history continues only if both stores still equal the model. "
    "Known on the current tree: fs OccupiedEntry::get does not rewind the file, so a second get, or remove after get, on the "
    "same entry fails (remove after having unlinked the file).",
    design_ref="DESIGN.md 6 (C45)",
)
