# aranya-fast-channels: C39 (client), C40-C42/C44 (channel states), C43 (futex mutex).
# Hooks H2/H3 live in /repo behind cargo feature `verif-hooks` (enabled only by mon-afc).

HOOKS["source_commits"] += [
    "9625eab",  # H2 export fast-channels mutex and add pause points
    "063ebd5",  # H3 read-only snapshots of the shm channel lists
]

_MIRI = dict(miriflags="-Zmiri-disable-isolation -Zmiri-preemption-rate=0.1",
             miri_seeds_quick="0..16", miri_seeds_thorough="0..256",
             timeout_quick=1500, timeout_thorough=14400)

reg(
    "C39",
    native("mon-afc", "afc_client")
    + one("miri", "mon-afc", "afc_client", scale=1, miriflags="-Zmiri-disable-isolation", timeout=1500)
    + one("asan", "mon-afc", "afc_client", tiers=("thorough",), set={"backend": "shm"}),
    "exhaustive-per-message negative testing (every byte flip, every truncation from 0 bytes, extensions, foreign channel/label, "
    "re-sequenced trailer, random strings) + round trips through all seal/open variants, panics captured in both profiles",
    "For plaintext lengths 0..4096 (boundary set incl. 0/1/15/16/17 plus ~400 random lengths per back-end) every message is sealed with "
    "seal and seal_in_place on the in-memory and the shared-memory state, with AES-256-GCM and with the repo's NoopAead suite, and opened "
    "through open (exact, oversized, undersized dst) and open_in_place (Vec, spare-capacity Vec, FixedBuf): plaintext, label and sequence "
    "number are compared with what was sealed. Each message is then mutated (all single-byte flips for messages up to 160 bytes, sampled "
    "plus the whole tag+header for longer ones; every truncation length from 0; front/back extensions; another channel's message; same key "
    "other label; other sequence numbers) and random strings of every length 0..overhead+40 are presented; each must return Err without a "
    "panic in the debug (overflow-checks) and release profiles and leave no 8-byte window of the plaintext in the output buffer.",
    "Sampling over plaintexts, exhaustive over truncation lengths and (for short messages) flip positions. 'No plaintext' is checked as "
    "'no same-offset 8-byte window of the sealed plaintext'; for open_in_place only with the real AEAD (with NoopAead the input is the "
    "plaintext). Miri runs a 4-length slice on the in-memory state with NoopAead; ASan (thorough) runs the shm state.",
    design_ref="DESIGN.md 6 (C39)",
)

reg(
    "C40",
    native("mon-afc", "afc_conc")
    + one("miri", "mon-afc", "afc_conc", scale=1, **_MIRI)
    + one("tsan", "mon-afc", "afc_conc", tiers=("thorough",), set={"backend": "mem"}, scale=20)
    + one("asan", "mon-afc", "afc_conc", tiers=("thorough",), set={"backend": "shm"}, scale=20),
    "per-context sequence monitor under concurrent table churn with injected seal failures; Miri scheduler / TSan on the in-memory state",
    "6 reader threads each own one seal context (plus the matching open context) and seal 6x10^5 messages each while a writer thread adds and "
    "removes other channels, so the table generation changes under the readers and cached keys are re-validated / re-derived; 12% of the "
    "seals are injected failures of four kinds (dst too small, in-place buffer that cannot grow, closure error after the key was handed "
    "out, AEAD-level error). Every successful seal's trailer sequence number must equal the per-context count of earlier successes "
    "(0,1,2,... no gap, no repeat), every 7th message is opened and must report the same number, and a second setup_seal_ctx on the live "
    "channel must be refused by the in-memory state. Runs on the shm state (native, ASan) and the in-memory state (native, Miri 16 "
    "schedules, TSan).",
    "Schedules are sampled, not enumerated; evidence reports how many seals followed a table change. The shm state hands out a second "
    "context by design (counted, not judged).",
    design_ref="DESIGN.md 6 (C40)",
)

reg(
    "C41",
    native("mon-afc", "afc_conc")
    + one("miri", "mon-afc", "afc_conc", scale=1, **_MIRI)
    + one("tsan", "mon-afc", "afc_conc", tiers=("thorough",), set={"backend": "mem"}, scale=20)
    + one("asan", "mon-afc", "afc_conc", tiers=("thorough",), set={"backend": "shm"}, scale=20),
    "linear-time history checker with unique channel ids and one SeqCst logical clock stamped at call and return of every operation",
    "One writer performs 9x10^4 seeded operations (add, remove, remove_if with pure predicates over id sets / labels / direction, "
    "remove_all, removal of absent ids) with injected yields/sleeps, while 6 readers set up contexts, seal, open valid ciphertexts produced "
    "by the remote end, call exists and keep their cached contexts across removals. Oracle on stamps only: an operation called after a "
    "covering removal returned must report not-found (ids are never reused, so this also covers 'never reappears'); an operation on a "
    "channel whose add returned before the call and that no removal started before the operation returned must succeed (opens are also "
    "compared with the expected plaintext/label/seq); operations overlapping the removal may go either way and are counted. Both the "
    "shared-memory state (own mapping per reader; native, ASan) and the in-memory state (native, Miri, TSan).",
    "Schedules are sampled. The logical clock itself orders non-overlapping operations, so missing-fence bugs between non-overlapping "
    "operations are only visible through their functional effect, not through the race detectors.",
    design_ref="DESIGN.md 6 (C41)",
)

reg(
    "C42",
    native("mon-afc", "afc_conc")
    + one("asan", "mon-afc", "afc_conc", tiers=("thorough",), set={"backend": "shm"}, scale=20),
    "snapshot-vs-model history checker through hook H3 plus quiescent-point comparison of both internal lists and exists() sweeps",
    "Same workload as C41 on the shared-memory state with a 12-channel table. Readers take verif_snapshot()s (the list at read_off, under "
    "that list's own lock) stamped with the logical clock; the writer logs the id set after every operation. Every snapshot must equal "
    "one of the writer's states between the last operation completed before the snapshot was called and the last one started before it "
    "returned, with the labels/directions that were added. After every 16th operation (writer idle) verif_sides() must show identical "
    "(index, id, direction, label, key fingerprint) lists on both sides equal to the model, and WriteState::exists / ReadState::exists must "
    "agree with the model for all live ids and sampled removed ids. Ids returned by add must strictly increase; add must fail with "
    "OutOfSpace exactly when the model holds max_chans channels (the writer keeps attempting adds on a full table).",
    "Native only (Miri cannot mmap; TSan cannot relate two mappings of one object); readers and writer are threads of one process with "
    "separate mappings, not separate processes. ASan (thorough) covers the pointer arithmetic; intra-object overflows are invisible to it, "
    "the history checker is the primary oracle.",
    design_ref="DESIGN.md 6 (C42)",
)

reg(
    "C43",
    native("mon-afc", "afc_mutex")
    + one("miri", "mon-afc", "afc_mutex", scale=1, **_MIRI)
    + one("tsan", "mon-afc", "afc_mutex", tiers=("thorough",), scale=20),
    "real futex mutex through hook H2: plain-counter race detection (Miri/TSan) + occupancy/count oracle + seeded pause points around "
    "the futex calls + stuck-state detector (native) / deadlock detection (Miri)",
    "Cases of 2..16 threads doing N lock/unlock pairs on the crate's shared-memory mutex; inside the critical section a plain volatile "
    "counter and occupancy flag stored in the mutex data are read-modified-written (final count = threads x N, occupancy never 2; any "
    "overlap is a data race for Miri/TSan). A registered pause hook fires after a failed fast-path CAS, between swap(SLEEPING) and "
    "futex_wait, and between the unlock swap and futex_wake, yielding/sleeping with seeded probability to force the sleeping path; the "
    "evidence counts futex_wait entries and futex_wake calls. No lost wake-up is checked as bounded progress: natively a detector "
    "reports a violation only when every unfinished worker is asleep (/proc task state S) inside lock(), nobody is in, entering or leaving "
    "the critical section or parked in a pause point, and no pair completed between two samples; a watchdog expiry without that signature "
    "is inconclusive. Under Miri (2 and 3 threads, 16 scheduler seeds quick / 256 thorough) a lost wake-up is Miri's deadlock report.",
    "Schedules are sampled (hundreds of native cases, 16-256 Miri schedules with 12-30 pairs per thread); spurious futex wake-ups are "
    "only those the kernel / Miri produce.",
    design_ref="DESIGN.md 6 (C43)",
)

reg(
    "C44",
    native("mon-afc", "afc_conc")
    + one("miri", "mon-afc", "afc_conc", scale=1, **_MIRI)
    + one("tsan", "mon-afc", "afc_conc", tiers=("thorough",), scale=20),
    "race of lend / access / loan drop / lender drop / re-add through the public in-memory State under Miri (aliasing, UAF, double free, "
    "leak check, many schedules), TSan and a counting allocator",
    "6 threads (3 under Miri) run 5x10^5 random operations each on 4 channel slots of one memory::State: setup_seal_ctx (lend), seal "
    "(get_mut), dropping the context (loan drop), remove / remove_if / remove_all (lender drop) and re-adding a channel. Oracle: a "
    "successful setup_seal_ctx must find the per-channel live-context counter at 0 (and must be refused while the same thread already "
    "holds one); sequence numbers of successful seals on one channel must be consecutive across successive loans (a duplicate means two "
    "loans had access); a seal that succeeds after a covering removal returned (stamp comparison) is a violation; after all handles are "
    "dropped the counting allocator must be back at its post-warm-up baseline. Under Miri the same code runs on 16 (quick) / 256 "
    "(thorough) schedules with Stacked Borrows, data-race detection and the exit leak check as oracle.",
    "Schedules are sampled. The allocator baseline allows for the monitor's own counters (<= ~100 blocks); a leak of one block per channel "
    "would be tens of thousands of blocks.",
    design_ref="DESIGN.md 6 (C44)",
)
