# Policy toolchain semantics: C22, C23 (pol_sem), C24 (pol_wrong), C30 (pol_finish).
# Harness: harness/polkit (IR, printer, reference evaluator, generators, MonitorIO), harness/mon-polsem.

reg(
    "C22",
    native("mon-polsem", "pol_sem"),
    "differential execution: real parser+compiler+VM vs an independent reference evaluator on generated well-typed modules",
    "Random modules (1-3 enums, a struct family with superset / permuted / nested / field-less members, literal globals, 3-8 pure "
    "functions where later ones call earlier ones; depth <= 6, <= 40 nodes) are printed fully parenthesised into a policy document "
    "and compiled by the real toolchain with debug mode on. Every function is run on 8 argument vectors (i64 boundary sweep MIN, "
    "MIN+1, -1, 0, 1, MAX-1, MAX; empty / 300-char / multi-byte strings; every enum variant; nested optionals and results; ids) via "
    "set_pc_by_label + pushed arguments above a sentinel. Oracle: reference Value v <=> ExitReason::Normal with exactly [sentinel, v] "
    "on the stack; reference Panic <=> ExitReason::Panic; injected probe::fail <=> that FFI error; anything else is a violation. "
    "Covers let, block and if expressions, if/else-if statements, match expressions/statements with literal, alternation, "
    "Some/Ok/Err binding and default arms, == != < <= > >=, && || !, `or`, is Some/None, add/sub (checked, option[int]) and "
    "saturating_add/sub, field access, struct literals with ...source composition, substruct, as, calls, check..else return/todo, "
    "debug_assert, todo(), return in expression position, functions that run off their end. Quick: ~24 000 functions x 8 inputs; "
    "thorough ~4x10^5 functions. Acceptance rate is measured (a collapse below 50 % is INCONCLUSIVE).",
    "Sampling, not enumeration. Trusts the ~400-line reference evaluator (cross-checked by the by-construction expectations of the "
    "C23 bomb programs). Blind spots: no bytes/unit values, no id literals (ids only via parameters), no recursion, no facts in pure "
    "functions, strings never contain NUL or backticks, programs are fully parenthesised (operator precedence is not exercised), "
    "the 100-slot value stack is not modelled (StackOverflow runs are skipped and counted). The language has no unwrap/check_unwrap "
    "and `check` always needs a never-typed else, so CheckFail cannot arise in pure functions.",
    design_ref="DESIGN.md 3.2, 5 (C22)",
)

reg(
    "C23",
    native("mon-polsem", "pol_sem"),
    "bomb programs with by-construction control flow + foreign-call trace comparison against the reference evaluator",
    "Bomb programs: every boolean/int/option sub-expression has a value known by construction; each untaken position (rhs of &&, "
    "||, `or`; untaken then/else blocks of if expressions incl. their statements; bodies and CONDITIONS of else-if branches after "
    "the taken one; match arms before/after the taken arm, untaken default, untaken None/Some-literal/Some-binding arms; `check` "
    "else) holds todo(), a failing check, a failing debug_assert around probe::hit, probe::fail, `return probe::hit(n)` or a "
    "numbered probe call; taken positions carry numbered probes. Oracle: no bomb id in MonitorIO's foreign-call log, result equals "
    "the constructed value, and the log equals the taken ids exactly (order, arguments, each once). The construction is cross-"
    "checked against the reference evaluator (disagreement = harness defect = INCONCLUSIVE). In addition the foreign-call trace of "
    "every C22 random case must equal the reference trace. Quick 40 000 bombs + 4 000 random functions.",
    "Bomb programs use bool/int/option[int] only; positions inside struct literals or call arguments are covered only by the "
    "random workload. Effects of untaken code other than panics, check failures, returns and foreign calls (none exist in pure "
    "functions) are not observable.",
    design_ref="DESIGN.md 5 (C23)",
)

reg(
    "C24",
    native("mon-polsem", "pol_wrong"),
    "end-state classification of every VM run of compiler-accepted generated code (explicit table over all MachineErrorType variants)",
    "Workloads: (cmd) modules with facts, effects, finish functions, 1-2 commands (policy blocks with lets/checks/ifs/matches, "
    "recall statements and expressions, nested branching ending in finish blocks, recall blocks with their own finish), actions "
    "(publish, action calls, map), pure functions using exists/at_least/at_most/exactly/count_up_to/query on a model-backed "
    "MonitorIO, with injected I/O write/query failures; (pure-reuse) random pure modules that deliberately reuse names of closed "
    "sibling/nested scopes, with injected FFI failures; (recursion) recursion to depth 400; (quirk-*) programs built around "
    "accepted-but-dubious constructs. Acceptable ends: Normal, Check, Panic, IO, injected FFI error, InvalidFact (update target "
    "absent - fact-state dependent), value-stack exhaustion; every other MachineErrorType (InvalidType, UnresolvedTarget, "
    "InvalidAddress, StackUnderflow, NotDefined, AlreadyDefined, InvalidStructMember, InvalidSchema, BadState, IntegerOverflow, "
    "InvalidInstruction, CallStack, Ffi*NotDefined, Bug, Unknown) is a violation with the program as witness; the match in "
    "polkit::run::classify has no wildcard. Evidence: acceptance rate, instruction kinds executed, operator x type pairs, boundary "
    "operands. Quick ~4 000 command modules + 4 000 pure functions + 600 quirk modules. "
    "(illtyped) closes the blind spot of typed generators - a checker that accepts TOO MUCH: 1 600 pure + 1 200 command base "
    "modules (accepted by the compiler) each get 8 single type-breaking mutations at the IR level (polkit::mutate; the intended "
    "type of every expression position is re-derived top-down from declarations and bottom-up with `never` holes): wrong-expr x3 "
    "(a sub-expression of type T replaced by a fresh expression of another type, plain or beside a well-typed sibling inside an "
    "if / match / `or` / block so that the checker must find the type by unification; positions weighted towards Ok/Err/Some "
    "payloads, if branches, match arms, `or` right sides, block results, struct fields, call arguments, returns, comparison "
    "operands), ctor-swap (Ok<->Err, Some(e)<->e, e->Some(e), Ok(x)<->Err(x) binding patterns), decl (return / parameter / "
    "struct-field / finish-function, recall, action parameter / command-field / fact-value type changed, bodies and callers "
    "untouched; harness inputs follow the mutated declarations), arity (argument dropped or inserted in function, FFI, "
    "finish-function, action and `recall` calls), var-swap (variable of another type), global-let (global struct literal with an "
    "ill-typed / missing / unknown field plus reader functions). Every function and global of a mutant also gets a well-typed "
    "consumer zchk_* that takes the value apart by its DECLARED type (saturating_add on ints, branch on bools, match on "
    "options/results, field access, checked `as` cast for strings/ids/enums) so that an ill-typed value cannot leave silently. "
    "Rejected mutants are only counted (rejected_illtyped, illtyped_rejection_reasons); accepted ones (type-preserving by accident, "
    "or a hole) run like the other workloads; went wrong => c24:illtyped-<class>:<error>. Every 4th base also runs unmutated "
    "with consumers (control). Counters illtyped_generated_<class> / illtyped_accepted_<class> (generated required > 0 per class). "
    "Fixed hand-written probes on every run: quirk-map-return (early return inside a callee's map), quirk-recall-arity, "
    "quirk-bind-count. Replay-only workload `doc` runs one entry point of a hand-written document (minimal reproducers).",
    "Seal/open blocks are `return todo()` and never run. Commands are driven through setup_command/step, not through the runtime "
    "(VmPolicy). Known findings (known_findings.jsonl): partial struct literals, binding alternations, substruct onto a field-less "
    "struct; modules containing the last construct get the signature c24:substruct-to-empty-struct for any failure, which could "
    "mask an unrelated failure in the same module. illtyped: one mutation per mutant, mutations are syntactic classes, not an "
    "enumeration of the type rules; an accepted ill-typed value is only noticed if it reaches a run-time type check (consumers "
    "cover function results and globals, not locals that are never used); signatures are per mutation class, so a known hole "
    "reachable through a class (global-let, arity-recall) can mask another hole found through the same class with the same error.",
    design_ref="DESIGN.md 5 (C24)",
)

reg(
    "C30",
    native("mon-polsem", "pol_finish"),
    "online monitoring of the executed instruction stream (single-stepped RunState) + MonitorIO side-effect log",
    "Generated command modules (as for C24) are compiled by the real compiler; each command runs on 6 inputs (small key space so "
    "creates collide and deletes hit; one with an injected write failure) by stepping RunState. The checker sets in_finish at "
    "Meta::Finish(true), clears it and sets recalled at Recall. Oracle: Create/Update/Delete/Emit execute only while in_finish; "
    "exit Panic, or Check without an executed Recall => MonitorIO saw no fact operation and no effect; the recalled flag of every "
    "delivered effect equals 'a Recall was executed before its Emit'. Near-miss programs (emit/create/delete/update/finish-function "
    "call directly in a policy block, in an if, in a match arm, in a recall block outside finish, in a pure function, in an "
    "action) must be rejected by the compiler - reported as counters near_miss_*; an accepted one is executed under the same "
    "checker. Quick 6 000 modules.",
    "The runtime-level restatement (rejected command leaves the fact database and sink unchanged) belongs to the graph-runtime "
    "monitors, not to this binary. In this language version `check` needs a never-typed else, so ExitReason::Check arises only "
    "through recall; 'Check without recall' is checked but cannot be reached by accepted programs.",
    design_ref="DESIGN.md 5 (C30)",
)
