# Graph runtime monitors (binary rt_graph and friends in mon-rt, reference model in graphkit).

_G = "audit policy + recording sink + counting spill plugged into the real ClientState/linear storage; oracle = storage-independent reference model (ancestry bitsets, frontier, braid order, fact states)"
_NOTE = ("Trusts the ~300-line reference model in harness/graphkit/src/model.rs and the script semantics shared by audit policy and model; "
         "in-memory linear storage (testing::Manager) in the quick tier; schedules/histories are sampled, not enumerated.")


def rtg(pid, technique, text, extra_steps=None):
    reg(pid, native("mon-rt", "rt_graph") + (extra_steps or []), technique, text, _NOTE, design_ref=f"DESIGN.md 3.1, 4 ({pid})")


rtg("C01", "differential replay of delivery histories against each other and a reference model",
    "Each generated command DAG is delivered to fresh replicas through >=4 different histories (order, batching, flushes, commit points, duplicates); "
    "heads, full fact dump and hello head must agree pairwise and with the reference; replicas that act and replicas that receive the result must agree too. "
    + _G)
rtg("C02", "online check of the policy event log per sink transaction + seq-list fact, incl. spill-forcing graphs",
    "Every braid the runtime runs is observed through the audit policy: no duplicate, ancestors first, never a merge, applied set equals the reference region; "
    "the order-sensitive seq fact lists each non-quiet command once. Large cases overflow the braid buffer and convergence blocks into a counting spill (counters must be > 0).")
rtg("C03", "reference-model comparison of every committed fact state and every observed braid order",
    "After every commit the fact dump equals the reference braid (priority,id ties; lone-strand start; finalize first) for the frontier, independent of the segment layout each history produced.")
rtg("C04", "state snapshot before/inside/after an action on multi-head graphs",
    "On committed multi-head states the action's view must equal the fact cache, the collapse must emit no effect, and the advertised hello head must be the merge command the collapse wrote (located afterwards).")
rtg("C05", "reference predicate (two incomparable finalize commands) vs observed ParallelFinalize, with unchanged-state check",
    "DAGs with freely placed finalize commands: commit or merge fails with ParallelFinalize iff the reference finds an incomparable pair in the braided set; afterwards heads, graph and facts equal the pre-call state.")
rtg("C06", "fault-position sweep of rejecting commands with continue-and-commit",
    "Write-then-fail and failing-require commands are injected after their parent, after perspective switches, after flushes and at batch ends; the transaction is continued and committed; "
    "the rejected id must be unlocatable, its writes absent, its sink transaction rolled back, children refused with NoSuchParent, earlier accepted commands committed.")
rtg("C07", "before/after snapshots around succeeding and failing actions",
    "Actions publishing 0-5 commands on single/multi-head graphs, failing after j publishes or through a rejected publish: failure leaves heads, graph, facts, hello head unchanged and commits no effect; success gives one head above all previous heads with reference facts.")
rtg("C08", "interleaving generator over several open transactions, actions and commits vs a (committed set, stamp) model",
    "Random interleavings on one client: the committed command set never shrinks; commit succeeds iff no other commit/action happened since the transaction first read the heads, else ConcurrentTransaction with unchanged state.")
rtg("C09", "frontier invariant checked after every commit/action against the reference DAG",
    "Heads strictly ascending by id, duplicate-free, equal to the frontier of the committed set; a walk from the heads reaches exactly the delivered commands; add_commands counts match.")
rtg("C10", "enumerated first-command shapes and init-like intruders",
    "Correct init, parented, policy-less, foreign-id, empty and policy-rejected first commands on an empty provider; own init and foreign parentless commands inside later batches; list_graph_ids/get_storage observed.")
rtg("C11", "all-pairs ancestry oracle (reference bitsets) over many segment layouts incl. long chains",
    "get_location / get_location_from / is_ancestor for every pair (<=300 commands) or sampled pairs on graphs with rich skip lists (counted), long segments and chains to max_cut ~3000; wrong-max_cut and unknown addresses must miss.")
rtg("C19", "replica-pair sweep over random down-sets with the hello decision checked against committed-set inclusion",
    "should_sync_on_hello(false) is accepted only when every non-merge command of the advertiser is committed locally (a merge is derivable from its parents and carries nothing); equal head sets give equal hello heads; a replica without the graph always syncs.")
rtg("C20", "model-based checking of PeerCache::add_command on random address streams",
    "<=10 entries, each committed locally with that max_cut, pairwise non-ancestors, and the documented update rule (evict ancestors, ignore ancestors-of-entries, uncommitted/flushed/unknown/wrong-max_cut addresses).")
