# Graph runtime monitors (binary rt_graph and friends in mon-rt, reference model in graphkit).

_G = "audit policy + recording sink + counting spill plugged into the real ClientState/linear storage; oracle = storage-independent reference model (ancestry bitsets, frontier, braid order, fact states)"
_NOTE = ("Trusts the ~300-line reference model in harness/graphkit/src/model.rs and the script semantics shared by audit policy and model; "
         "in-memory linear storage (testing::Manager) in the quick tier; schedules/histories are sampled, not enumerated.")


def _file_storage(scale=30):
    # the same histories on the libc FileManager (tmpfs directories), debug profile
    return one("native-dbg", "mon-rt", "rt_graph", label="native-dbg-file-storage", set={"storage": "file"}, scale=scale)


def _vm_policy():
    # real VmPolicy devices (crypto engine, envelope FFI, policy VM) against a semantic model of the policy
    return one("native-dbg", "mon-e2e", "conv_vm", label="native-dbg-vm-policy")


_VM_TEXT = (" A vm-policy step runs worlds of 3-5 real VmPolicy devices (DefaultEngine, keystores, signing policy with counter commands of priority 50/70/finalize "
            "and note commands) that act in bursts and exchange random ancestor-closed subsets: after the actions and the deliveries of every round each replica's decoded "
            "fact dump must equal a reference that braids the stored DAG by (declared priority, id) and applies the operations recorded at the action calls; every 5 rounds "
            "all replicas and a late joiner sync to a fixed point and must agree on heads, commands, byte-equal fact dumps and hello heads.")


def rtg(pid, technique, text, extra_steps=None):
    reg(pid, native("mon-rt", "rt_graph") + (extra_steps or []), technique, text, _NOTE, design_ref=f"DESIGN.md 3.1, 4 ({pid})")


rtg("C01", "differential replay of delivery histories (and sync topologies) against each other and a reference model",
    "Each generated command DAG is delivered to fresh replicas through >=4 different histories (order, batching, flushes, commit points, duplicates); "
    "heads, full fact dump and hello head must agree pairwise and with the reference; replicas that act and replicas that receive the result must agree too; "
    "a second step syncs 2-5 replicas holding different down-sets pairwise in random order to quiescence and compares them the same way. "
    + _G + _VM_TEXT,
    extra_steps=one("native-dbg", "mon-rt", "rt_sync", label="native-dbg-sync-topologies", scale=50) + _file_storage() + _vm_policy())
rtg("C02", "online check of the policy event log per sink transaction + seq-list fact, incl. spill-forcing graphs",
    "Every braid the runtime runs is observed through the audit policy: no duplicate, ancestors first, never a merge, applied set equals the reference region; "
    "the order-sensitive seq fact lists each non-quiet command once. Large cases overflow the braid buffer and convergence blocks into a counting spill (counters must be > 0); "
    "each large case is also re-run with the k-th read of a spilled braid block failing: the call must fail or the committed facts must equal the reference.",
    extra_steps=_file_storage(100))
rtg("C03", "reference-model comparison of every committed fact state and every observed braid order",
    "After every commit the fact dump equals the reference braid (priority,id ties; lone-strand start; finalize first) for the frontier, independent of the segment layout each history produced; "
    "the histories are replayed on the in-memory and on the file-backed linear storage." + _VM_TEXT,
    extra_steps=_file_storage() + _vm_policy())
rtg("C04", "state snapshot before/inside/after an action on multi-head graphs",
    "On committed multi-head states the action's view must equal the fact cache, the collapse must emit no effect, and the advertised hello head must be the merge command the collapse wrote (located afterwards).")
rtg("C05", "reference predicate (two incomparable finalize commands) vs observed ParallelFinalize, with unchanged-state check",
    "DAGs with freely placed finalize commands: commit or merge fails with ParallelFinalize iff the reference finds an incomparable pair in the braided set; afterwards heads, graph and facts equal the pre-call state. "
    "A release-profile step adds merge commands one of whose parents is an ancestor of the other (sendable by a peer) with finalize commands behind and beside them; only the parallel-finalize oracle is "
    "evaluated there (signatures prefixed `comparable-merge-parents:`; the spurious error the unchanged runtime raises on such merges is a known finding).",
    extra_steps=one("native-rel", "mon-rt", "rt_graph", label="native-rel-comparable-merge-parents", set={"degenerate": "1"}))
rtg("C06", "fault-position sweep of rejecting commands with continue-and-commit",
    "Write-then-fail and failing-require commands are injected after their parent, after perspective switches, after flushes and at batch ends; the transaction is continued and committed; "
    "the rejected id must be unlocatable, its writes absent, its sink transaction rolled back, children refused with NoSuchParent, earlier accepted commands committed.")
rtg("C07", "before/after snapshots around succeeding and failing actions",
    "Actions publishing 0-5 commands on single/multi-head graphs, failing after j publishes or through a rejected publish: failure leaves heads, graph, facts, hello head unchanged and commits no effect; success gives one head above all previous heads with reference facts.")
rtg("C08", "interleaving generator over several open transactions, actions and commits vs a (committed set, stamp) model",
    "Random interleavings on one client: the committed command set never shrinks; commit succeeds iff no other commit/action happened since the transaction first read the heads, else ConcurrentTransaction with unchanged state. "
    "One case in four runs on the file-backed storage reopened after the bootstrap commit (the race starts on a storage instance that has not committed anything itself).")
rtg("C09", "frontier invariant checked after every commit/action against the reference DAG",
    "Heads strictly ascending by id, duplicate-free, equal to the frontier of the committed set; a walk from the heads reaches exactly the delivered commands; add_commands counts match. "
    "The same invariant is checked inside the transaction-interleaving workload of C08 (600 cases here).",
    extra_steps=_file_storage())
rtg("C10", "enumerated first-command shapes and init-like intruders",
    "Correct init, parented, policy-less, foreign-id, empty and policy-rejected first commands on an empty provider; own init and foreign parentless commands inside later batches; list_graph_ids/get_storage observed.")
rtg("C11", "all-pairs ancestry oracle (reference bitsets) over many segment layouts incl. long chains",
    "get_location / get_location_from / is_ancestor for every pair (<=300 commands) or sampled pairs on graphs with rich skip lists (counted), long segments and chains to max_cut ~3000; wrong-max_cut and unknown addresses must miss.")
rtg("C19", "replica-pair sweep over random down-sets with the hello decision checked against committed-set inclusion; a second step with real VmPolicy replicas and a merge-id injectivity table",
    "should_sync_on_hello(false) is accepted only when every non-merge command of the advertiser is committed locally (a merge is derivable from its parents and carries nothing); equal head sets give equal hello heads; a replica without the graph always syncs. "
    "The first steps use the audit policy on generated DAGs; the vm-policy step runs 3-5 real VmPolicy devices that act and exchange random ancestor-closed subsets, checks every ordered pair the same way and requires the observed (parent pair -> merge id) relation of VmPolicy::merge to be a function and injective.",
    extra_steps=one("native-dbg", "mon-e2e", "hello_vm", label="native-dbg-vm-policy"))
rtg("C20", "model-based checking of PeerCache::add_command on random address streams",
    "<=10 entries, each committed locally with that max_cut, pairwise non-ancestors, and the documented update rule (evict ancestors, ignore ancestors-of-entries, uncommitted/flushed/unknown/wrong-max_cut addresses).")

reg("C12", native("mon-rt", "rt_facts"),
    "model-based checking of Query/QueryMut on perspectives, written fact indexes and rebuilt perspectives against a BTreeMap",
    "Random insert/delete streams over compound keys (empty, NUL, prefix-of-each-other components) across up to 40 chained segments (beyond the 16-deep compaction limit): "
    "after every command boundary, every written index, the committed fact cache and perspectives rebuilt at earlier commands, all exact queries on every key ever used and "
    "all prefix queries on every prefix of them equal the map; prefix results ascending.",
    "Public Storage/Perspective API on in-memory linear storage; merge perspectives are covered by the C03 workload.", design_ref="DESIGN.md 4 (C12)")
reg("C13", native("mon-rt", "rt_facts"),
    "snapshot-stack model for checkpoint/revert on linear perspectives; session reverts via failing session operations",
    "Random writes, deletes, add_command, checkpoints at command boundaries and reverts to any earlier checkpoint, including reverts that must discard writes made after the last command "
    "(a rule that wrote and then failed); every revert is followed by the full query comparison and a head_address check; the segment finally written is compared too. "
    "Session half: 300 cases of the C14 session workload; a session that disagrees with its overlay model after a failing operation is reported here as `C14:...`.",
    "Linear-perspective checkpoints have command granularity by construction (index = command count), so they are taken only where the runtime takes them.", design_ref="DESIGN.md 4 (C13)")
reg("C14", native("mon-rt", "rt_facts") + one("miri", "mon-rt", "rt_facts", scale=1, timeout=2400, set={"miri_cases": "3"}),
    "overlay model (committed facts + session writes) vs queries observed inside policy calls; Miri on the yoked iterator",
    "Session actions and receives run audit-policy scripts that insert, delete (also committed facts), exact-query and fail at chosen points; after every operation a second action records prefix "
    "queries and they must equal the model in key order; failed operations leave the next observation unchanged; heads and committed facts never change. A small slice runs under Miri.",
    "Sessions on in-memory storage; policy scripts are harness-defined.", design_ref="DESIGN.md 4 (C14)")

reg("C21", native("mon-rt", "rt_queue", set={}),
    "model-based checking of TraversalQueue against the documented rules over random operation sequences",
    "4x10^5 (quick) random sequences of up to 60 operations over 4 segments x 6 max-cuts, in dedup mode and duplicate mode compared with a 40-line list model after every operation "
    "(pop/peek = highest Location, one entry per segment with the highest max cut, covered/uncovered merge rules, cover_up_to, drain_above yields exactly the uncovered entries above the threshold, "
    "final content equality), and a mixed mode checked for no panic and pop == peek.",
    "The model encodes the rules in the doc comments of TraversalQueue; mixed dedup/duplicate use has no documented content rule and is only checked for pop-is-max.", design_ref="DESIGN.md 4 (C21)")

reg("C16", native("mon-rt", "rt_sync"),
    "session-by-session progress oracle over real SyncRequester/SyncResponder exchanges between generated replica pairs and groups, plus convergence at quiescence",
    "A requests from B in repeated sessions (full sessions; one-request/one-response exchanges; receive buffers from 200 bytes up; persistent or fresh peer caches) over graph pairs with overlaps from only-init to "
    "all-but-one-branch, including >100 heads, >100 segments and long segments: every full session must shrink the missing set, everything must arrive within a logical bound, and syncing in both directions "
    "to quiescence must leave equal heads, facts and hello heads. The 'eventually' of the statement is restated as this bounded progress. One case in six is a directed overlap (requester with few long segments "
    "holding the trunk up to the fork plus a side branch; responder random or laid out by hand around the fork); the requester's sample is decoded from the poll message; in one-response mode two exchanges with the same "
    "sample and no new command are reported as the livelock they prove; unsound or non-terminating sessions (C17 findings) are reported here as `C17:...` when C17 is not part of the run.",
    "Known findings (known_findings.jsonl): requesters holding more than 100 heads livelock; sessions that only resend held commands while the missing ones lie above the responder's max_cut window. Any other lack of "
    "progress fails the check. In-memory storage; message transport is a buffer copy.",
    design_ref="DESIGN.md 4 (C16/C17)")
reg("C17", native("mon-rt", "rt_sync"),
    "per-message soundness and ordering checks on every response of every session",
    "Every synced command must be committed at the responder with identical priority/parent/payload/policy, arrive after its parents (add_commands must accept the batch), response indexes must count 0,1,2,.., "
    "a full session must end with SyncEnd{max_index = #responses} within a logical poll bound, and BufferTooSmall retries must not lose commands.",
    "Response indexes are read with a 20-line postcard varint parser in the harness.", design_ref="DESIGN.md 4 (C16/C17)")
reg("C18", native("mon-rt", "rt_sync"),
    "mutation fuzzing of recorded real sync messages with panic capture, pointer-range and session/sequence acceptance oracles (debug and release profiles)",
    "2x10^5 (quick) mutated or random inputs are fed to SyncIncoming::decode, SyncResponder::receive+poll+push on a real graph, SyncRequester::receive in three states and receive_push: no panic in either profile, "
    "returned command slices must lie inside the input buffer, and commands are accepted only under the requester's own session id at the expected response index.",
    "Inputs are mutations of messages recorded from generated sessions plus random bytes; no coverage guidance in the quick tier.", design_ref="DESIGN.md 4 (C18)")

reg("C15", native("mon-crash", "rt_crash"),
    "fault enumeration: recorded pwrite/fdatasync/fsync/fallocate log (hook H1) -> every crash point x persistence subsets of volatile writes (+ torn writes) -> reopen with the real storage and compare with recorded commit states",
    "A real multi-commit workload on the libc FileManager is recorded through hook H1. For every crash point (after each I/O event) every persistence choice of the writes issued since the last barrier is materialised "
    "(none/all/power set when small/each single dropped or kept/prefixes/suffixes/seeded random subsets, plus torn variants) and reopened with the real LinearStorageProvider: an Ok open must equal the last completed or the "
    "in-progress commit with every head, command and fact readable, continuing (append+commit+reopen) must give recovered+new, and an error is allowed only before the first commit completed. "
    "For a sample of the recovered images the continuation commit's own I/O is recorded and a second crash inside it is enumerated the same way: reopening must give the recovered or the continued state.",
    "Disk model: writes become durable at the next fdatasync/fsync at the latest, any subset (possibly torn) may persist before; directory-entry durability, media corruption of durable data and multi-file atomicity are not modelled. "
    "Crash points are enumerated exhaustively per recorded workload; persistence subsets exhaustively up to 7 (quick) / 11 (thorough) volatile writes and sampled beyond.",
    level="fault_enumeration", design_ref="DESIGN.md 4 (C15)")
HOOKS["source_commits"].extend(["0f6c217"])
