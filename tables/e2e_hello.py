# mon-e2e/hello_vm: C19 with real VmPolicy replicas (real VmPolicy::merge and hello heads).
# C19 itself is registered in tables/rt.py; this binary is meant to be added there as an extra step:
#   one("native-dbg", "mon-e2e", "hello_vm", label="native-dbg-vm-policy")
