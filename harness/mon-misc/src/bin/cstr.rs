//! C47: C string output never overflows its buffer.
use std::{ffi::c_char, fmt, mem::MaybeUninit};

use aranya_capi_core::{WriteCStrError, write_c_str};
use vcore::*;

struct Frags(Vec<String>);

impl fmt::Display for Frags {
    fn fmt(&self, f: &mut fmt::Formatter<'_>) -> fmt::Result {
        for s in &self.0 {
            f.write_str(s)?;
        }
        Ok(())
    }
}

const GUARD: usize = 24;
const POISON: u8 = 0xA5;

fn run_case(m: &mut Monitor, frags: &[String], cap: usize, exact_alloc: bool) {
    let text: String = frags.concat();
    let len = text.len();
    let case = || json!({"frags": frags, "cap": cap, "exact_alloc": exact_alloc});
    // `exact_alloc`: buffer is its own allocation (Miri/ASan see any out-of-bounds write);
    // otherwise carved from a poisoned allocation with guards on both sides.
    // the guards are wider than the whole text: one misplaced fragment copy cannot reach past them
    let guard = if exact_alloc { 0 } else { GUARD + len };
    let mut backing = vec![POISON; cap + 2 * guard];
    let mut nw = 0xdead_beef_usize;
    let res = {
        let slice = &mut backing[guard..guard + cap];
        // SAFETY: u8 and MaybeUninit<c_char> have the same layout.
        let dst = unsafe { &mut *(std::ptr::from_mut::<[u8]>(slice) as *mut [MaybeUninit<c_char>]) };
        catch(|| write_c_str(dst, &Frags(frags.to_vec()), &mut nw))
    };
    m.eval();
    let res = match res {
        Ok(r) => r,
        Err(p) => {
            m.violation(&format!("cstr-panic:{}", p.site()), json!({"case": case(), "panic": p.what}));
            return;
        }
    };
    if backing[..guard].iter().any(|&b| b != POISON) || backing[guard + cap..].iter().any(|&b| b != POISON) {
        m.violation("cstr-guard-bytes-overwritten", case());
    }
    let buf = &backing[guard..guard + cap];
    if cap >= len + 1 {
        m.count("fits", 1);
        if res != Ok(()) {
            m.violation("cstr-error-though-buffer-fits", json!({"case": case(), "got": format!("{res:?}")}));
            return;
        }
        if nw != len + 1 {
            m.violation("cstr-reported-length-on-success", json!({"case": case(), "nw": nw, "want": len + 1}));
        }
        if &buf[..len] != text.as_bytes() || buf[len] != 0 {
            m.violation("cstr-contents", json!({"case": case(), "buf": hex(buf)}));
        }
        if buf[len + 1..].iter().any(|&b| b != POISON) {
            m.violation("cstr-wrote-past-terminator", json!({"case": case(), "buf": hex(buf)}));
        }
    } else {
        m.count("too_small", 1);
        if res != Err(WriteCStrError::BufferTooSmall) {
            m.violation("cstr-success-though-too-small", json!({"case": case(), "got": format!("{res:?}")}));
        }
        if nw != len + 1 {
            m.violation("cstr-needed-size", json!({"case": case(), "nw": nw, "want": len + 1}));
        }
    }
}

fn gen_frags(rng: &mut Rng, long: bool) -> Vec<String> {
    let n = rng.urange(0, 6);
    // one text in 32 (native and ASan engines) carries a fragment that crosses 255/256/512 bytes
    let long_at = if long && n > 0 && rng.below(32) == 0 { rng.usize(n) } else { usize::MAX };
    (0..n)
        .map(|k| {
            let l = match rng.below(5) {
                _ if k == long_at => rng.urange(200, 600),
                0 => 0,
                1 => 1,
                2 => rng.urange(2, 9),
                _ => rng.urange(0, 40),
            };
            (0..l)
                .map(|_| match rng.below(12) {
                    0 => 'é',
                    1 => '€',
                    _ => (b'a' + rng.below(26) as u8) as char,
                })
                .collect()
        })
        .collect()
}

fn main() {
    let args = Args::parse();
    let mut m = Monitor::new(
        "C47",
        "texts = 0..6 Display fragments (empty, 1-byte, multi-byte UTF-8; outside Miri one text in 32 has a 200..600-byte fragment) x every capacity 0..=len+8, buffer carved from a poisoned allocation with guard zones wider than the text on each side and also as an exact-size allocation (for Miri/ASan); non-trivial = distinct (fragment lengths, capacity) with >=2 fragments",
    )
    .min(50)
    .require("fits", "success branch")
    .require("too_small", "failure branch");
    let mut rng = Rng::new(args.seed).fork(47);
    if let Some(r) = args.replay_case() {
        let c = if r["case"]["case"].is_object() { &r["case"]["case"] } else { &r["case"] };
        let frags: Vec<String> = c["frags"].as_array().unwrap().iter().map(|s| s.as_str().unwrap().to_string()).collect();
        run_case(&mut m, &frags, c["cap"].as_u64().unwrap() as usize, c["exact_alloc"].as_bool().unwrap_or(false));
        finish_all(&args, vec![m]);
    }
    let texts = args.n(3_000, 60_000);
    for t in 0..texts {
        let frags = gen_frags(&mut rng, !args.engine.starts_with("miri"));
        m.max("max_text_len", frags.iter().map(String::len).sum::<usize>() as u64);
        let len: usize = frags.iter().map(String::len).sum();
        for cap in 0..=len + 8 {
            // exact-size allocations only where the engine turns an out-of-bounds write into a
            // report (Miri, ASan); natively it would corrupt the monitor's own heap, so the
            // guard-byte variant is the native oracle
            let sanitized = args.engine.starts_with("miri") || args.engine.starts_with("asan");
            for exact in [false, true] {
                if exact && !sanitized {
                    continue;
                }
                run_case(&mut m, &frags, cap, exact);
            }
            if frags.len() >= 2 {
                m.nontrivial(hash_of(&(frags.iter().map(String::len).collect::<Vec<_>>(), cap)));
            }
        }
        if t < 2 {
            m.sample(|| json!({"frags": frags, "caps": format!("0..={}", len + 8)}));
        }
    }
    finish_all(&args, vec![m]);
}
