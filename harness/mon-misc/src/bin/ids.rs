//! C46: IDs round-trip through text and serde.
use aranya_id::{BaseId, custom_id};
use vcore::*;

custom_id! {
    /// A second tag, to exercise a non-base id type.
    pub struct ProbeId;
}

const ALPHABET: &[u8] = b"123456789ABCDEFGHJKLMNPQRSTUVWXYZabcdefghijkmnopqrstuvwxyz";

/// Independent base58 reference decoder: the text is a base-58 integer (alphabet digit
/// values, '1' = 0, any number of leading zero digits); the id it encodes is that integer
/// as 32 big-endian bytes; texts whose value needs more than 256 bits encode nothing.
fn ref_decode(s: &[u8]) -> Option<[u8; 32]> {
    let mut num = [0u8; 32]; // big-endian
    for &c in s {
        let d = ALPHABET.iter().position(|&a| a == c)? as u32;
        let mut carry = d;
        for b in num.iter_mut().rev() {
            let v = (*b as u32) * 58 + carry;
            *b = (v & 0xff) as u8;
            carry = v >> 8;
        }
        if carry > 0 {
            return None;
        }
    }
    Some(num)
}

fn gen_id(rng: &mut Rng, case: u64) -> [u8; 32] {
    let mut b = [0u8; 32];
    match case % 8 {
        0 => {}
        1 => b = [0xff; 32],
        2 => {
            // leading zeros then random
            let z = rng.usize(33);
            rng.fill(&mut b);
            for x in b.iter_mut().take(z) {
                *x = 0;
            }
        }
        3 => {
            // trailing zeros
            let z = rng.usize(33);
            rng.fill(&mut b);
            for x in b.iter_mut().rev().take(z) {
                *x = 0;
            }
        }
        4 => {
            // single bit set
            b[rng.usize(32)] = 1 << rng.usize(8);
        }
        5 => {
            // small number
            b[31] = rng.u64() as u8;
            b[30] = (rng.u64() & 3) as u8;
        }
        _ => rng.fill(&mut b),
    }
    b
}

macro_rules! def_check { ($fname:ident, $T:ty) => {
fn $fname(m: &mut Monitor, bytes: [u8; 32], tag: &str) {
    type T = $T;
    let id = T::from_bytes(bytes);
    let fail = |m: &mut Monitor, what: &str, extra: Value| {
        m.violation(
            &format!("id-roundtrip:{what}"),
            json!({"bytes": hex(&bytes), "tag": tag, "what": what, "extra": extra}),
        );
    };
    // text
    let s = id.to_string();
    match s.parse::<T>() {
        Ok(back) if back == id => {}
        other => fail(m, "display-parse", json!({"text": s, "got": format!("{other:?}")})),
    }
    match ref_decode(s.as_bytes()) {
        Some(r) if r == bytes => {}
        other => fail(
            m,
            "display-vs-reference-base58",
            json!({"text": s, "ref": other.map(|r| hex(&r))}),
        ),
    }
    match T::decode(s.as_bytes()) {
        Ok(back) if back == id => {}
        other => fail(m, "decode", json!({"got": format!("{other:?}")})),
    }
    // human readable serde
    match serde_json::to_string(&id) {
        Ok(js) => {
            if js != format!("\"{s}\"") {
                fail(m, "json-form", json!({"json": js, "text": s}));
            }
            match serde_json::from_str::<T>(&js) {
                Ok(back) if back == id => {}
                other => fail(m, "json-roundtrip", json!({"json": js, "got": format!("{other:?}")})),
            }
        }
        Err(e) => fail(m, "json-serialize", json!(e.to_string())),
    }
    // binary serde
    match postcard::to_allocvec(&id) {
        Ok(pc) => {
            if pc.len() != 33 || pc[0] != 32 || pc[1..] != bytes {
                fail(m, "postcard-form", json!(hex(&pc)));
            }
            match postcard::from_bytes::<T>(&pc) {
                Ok(back) if back == id => {}
                other => fail(m, "postcard-roundtrip", json!(format!("{other:?}"))),
            }
            // wrong length must be rejected
            for bad_len in [0usize, 1, 31, 33] {
                let mut v = vec![bad_len as u8];
                v.extend(std::iter::repeat_n(7u8, bad_len));
                if let Ok(x) = postcard::from_bytes::<T>(&v) {
                    fail(m, "postcard-wrong-length-accepted", json!({"len": bad_len, "got": x.to_string()}));
                }
            }
        }
        Err(e) => fail(m, "postcard-serialize", json!(e.to_string())),
    }
    // conversions
    let arr: [u8; 32] = id.into();
    if arr != bytes || id.as_bytes() != bytes || T::from(arr) != id {
        fail(m, "array-conversion", json!(null));
    }
    // rkyv round trip
    match rkyv::to_bytes::<rkyv::rancor::Error>(&id) {
        Ok(ar) => match rkyv::from_bytes::<T, rkyv::rancor::Error>(&ar) {
            Ok(back) if back == id => {}
            other => fail(m, "rkyv-roundtrip", json!(format!("{other:?}"))),
        },
        Err(e) => fail(m, "rkyv-serialize", json!(e.to_string())),
    }
}
}}
def_check!(check_base, BaseId);
def_check!(check_probe, ProbeId);

fn gen_text(rng: &mut Rng, case: u64) -> String {
    let len = match case % 5 {
        0 => rng.usize(6),
        1 => rng.urange(40, 46),
        2 => rng.urange(30, 60),
        _ => rng.usize(50),
    };
    let mut s = String::new();
    for _ in 0..len {
        let c = match rng.below(20) {
            0 => *rng.pick(b"0OIl+/=_- ") as char,
            1 => char::from_u32(rng.range(0x80, 0x2fff) as u32).unwrap_or('é'),
            2 => '1',
            _ => *rng.pick(ALPHABET) as char,
        };
        s.push(c);
    }
    s
}

fn main() {
    let args = Args::parse();
    let mut m = Monitor::new(
        "C46",
        "ids: structured (zero/ff/leading-zero/trailing-zero/single-bit/small) + random 32-byte values, each through Display/FromStr, an independent reference base58 decoder, serde_json, postcard (incl. wrong lengths), rkyv, on two tag types; texts: random short/near-valid strings, parse result compared with the reference decoder. non-trivial = distinct byte values / distinct texts that parsed",
    )
    .min(1000)
    .require("texts_parsed_ok", "some random texts must parse so the Ok branch is checked");
    let mut rng = Rng::new(args.seed).fork(46);

    if let Some(r) = args.replay_case() {
        let c = &r["case"];
        if let Some(h) = c["bytes"].as_str() {
            let b: [u8; 32] = unhex(h).unwrap().try_into().unwrap();
            check_base(&mut m, b, "base");
            check_probe(&mut m, b, "probe");
        }
        if let Some(t) = c["text"].as_str() {
            check_text(&mut m, t);
        }
        finish_all(&args, vec![m]);
    }

    let n_ids = args.n(200_000, 3_000_000);
    for i in 0..n_ids {
        let b = gen_id(&mut rng, i);
        m.eval();
        m.nontrivial(hash_of(&b));
        if i % 2 == 0 {
            check_base(&mut m, b, "base");
        } else {
            check_probe(&mut m, b, "probe");
        }
        if i < 3 {
            m.sample(|| json!({"id_bytes": hex(&b), "text": BaseId::from_bytes(b).to_string()}));
        }
    }
    let n_txt = args.n(300_000, 3_000_000);
    for i in 0..n_txt {
        let t = if i % 7 == 0 {
            // mutate a valid encoding
            let mut s = BaseId::from_bytes(gen_id(&mut rng, i)).to_string().into_bytes();
            match rng.below(4) {
                0 if !s.is_empty() => {
                    let k = rng.usize(s.len());
                    s[k] = *rng.pick(ALPHABET);
                }
                1 if !s.is_empty() => {
                    s.remove(rng.usize(s.len()));
                }
                2 => s.insert(rng.usize(s.len() + 1), *rng.pick(ALPHABET)),
                _ => s.insert(0, b'1'),
            }
            String::from_utf8(s).unwrap()
        } else {
            gen_text(&mut rng, i)
        };
        m.eval();
        check_text(&mut m, &t);
        if i == 0 {
            m.sample(|| json!({"text": t, "parsed": t.parse::<BaseId>().is_ok()}));
        }
    }
    finish_all(&args, vec![m]);
}

fn check_text(m: &mut Monitor, t: &str) {
    let r = catch(|| t.parse::<BaseId>());
    let reference = ref_decode(t.as_bytes());
    match r {
        Err(p) => m.violation(&format!("id-parse-panic:{}", p.site()), json!({"text": t, "panic": p.what})),
        Ok(Ok(id)) => {
            m.count("texts_parsed_ok", 1);
            m.nontrivial(hash_of(&t));
            if reference != Some(*id.as_array()) {
                m.violation(
                    "id-parse-yields-other-id",
                    json!({"text": t, "got": hex(id.as_bytes()), "reference": reference.map(|r| hex(&r))}),
                );
            }
            // And what it yields re-encodes/parses to itself.
            if id.to_string().parse::<BaseId>().ok() != Some(id) {
                m.violation("id-parse-reencode", json!({"text": t}));
            }
        }
        Ok(Err(_)) => {
            m.count("texts_rejected", 1);
            if reference.is_some() {
                // Allowed by the statement ("fails cleanly"); tracked as coverage only.
                m.count("texts_rejected_but_reference_valid", 1);
            }
        }
    }
    // serde_json string form must agree with FromStr
    let js = serde_json::to_string(t).unwrap();
    let viajson = catch(|| serde_json::from_str::<BaseId>(&js));
    match viajson {
        Err(p) => m.violation(&format!("id-json-panic:{}", p.site()), json!({"text": t, "panic": p.what})),
        Ok(r) => {
            if r.ok() != t.parse::<BaseId>().ok() {
                m.violation("id-json-disagrees-with-fromstr", json!({"text": t}));
            }
        }
    }
}
