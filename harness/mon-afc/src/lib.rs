//! Shared plumbing for the aranya-fast-channels monitors (C39-C44): deterministic key
//! material, the two state back-ends behind one trait, a logical clock, seeded delay
//! injection and a counting allocator.

use std::{
    alloc::{GlobalAlloc, Layout, System},
    sync::atomic::{AtomicI64, AtomicU64, Ordering},
};

pub use aranya_crypto::{
    CipherSuite, DeviceId, Engine,
    afc::{AuthData, OpenKey, RawOpenKey, RawSealKey, SealKey, Seq},
    dangerous::spideroak_crypto::{
        csprng::{Csprng, Random},
        typenum::{U12, U16, U32},
    },
    default::DefaultCipherSuite,
    id::IdExt as _,
    policy::LabelId,
};
pub use aranya_fast_channels::{
    AfcState, AranyaState, ChannelDirection, Client, Directed, Error as AfcError, LocalChannelId,
    RemoveIfParams, memory,
    shm::{self, Flag, Mode, Path, ReadState, WriteState},
    testing::util::{NoopAead, TestEngine},
};
use vcore::{Rng, splitmix};

/// Real AEAD (AES-256-GCM) cipher suite.
pub type RealCs = DefaultCipherSuite;
/// Cipher suite whose AEAD does not encrypt but authenticates with a truncated SHA-256 tag
/// (the repo's own `NoopAead`); cheap enough for Miri.
pub type NoopCs = <TestEngine<NoopAead<U32, U12, U16, { u64::MAX }>> as Engine>::CS;

pub fn is_miri(args: &vcore::Args) -> bool {
    cfg!(miri) || args.engine.starts_with("miri")
}

/// Under Miri one process explores one schedule with a tiny workload and the interpreter's own
/// reports (UB, data race, deadlock, leak) are the oracle; coverage thresholds that a single
/// tiny schedule cannot reliably meet must not turn such a run INCONCLUSIVE.
pub fn relax_for_miri(mut m: vcore::Monitor, args: &vcore::Args) -> vcore::Monitor {
    if is_miri(args) {
        m.required.clear();
        m.min_nontrivial = 1;
    }
    m
}

// ---------------------------------------------------------------------------
// Deterministic CSPRNG
// ---------------------------------------------------------------------------

/// splitmix64 behind an atomic: deterministic when used from one thread.
pub struct DetRng(AtomicU64);

impl DetRng {
    pub fn new(seed: u64) -> Self {
        Self(AtomicU64::new(seed ^ 0xD1B5_4A32_D192_ED03))
    }
    fn next(&self) -> u64 {
        let mut s = self.0.fetch_add(0x9E37_79B9_7F4A_7C15, Ordering::Relaxed);
        splitmix(&mut s)
    }
}

impl Csprng for DetRng {
    fn fill_bytes(&self, dst: &mut [u8]) {
        for c in dst.chunks_mut(8) {
            let x = self.next().to_le_bytes();
            c.copy_from_slice(&x[..c.len()]);
        }
    }
}

/// Key material for one unidirectional channel: the seal half and the open half share the
/// same raw key, exactly what the two ends of a real channel hold.
pub struct Pair<CS: CipherSuite> {
    pub seal: RawSealKey<CS>,
    pub open: RawOpenKey<CS>,
    pub label: LabelId,
    pub peer: DeviceId,
}

impl<CS: CipherSuite> Pair<CS> {
    pub fn new(rng: &DetRng) -> Self {
        let seal = RawSealKey::<CS>::random(rng);
        let open = RawOpenKey::<CS> {
            key: seal.key.clone(),
            base_nonce: seal.base_nonce.clone(),
        };
        Self {
            seal,
            open,
            label: LabelId::random(rng),
            peer: DeviceId::random(rng),
        }
    }

    /// Same key, different label.
    pub fn relabel(&self, rng: &DetRng) -> Self {
        Self {
            seal: self.seal.clone(),
            open: self.open.clone(),
            label: LabelId::random(rng),
            peer: self.peer,
        }
    }
}

// ---------------------------------------------------------------------------
// Back-ends
// ---------------------------------------------------------------------------

/// One environment = one writer view plus any number of reader views of the same state.
pub trait Backend: Sized + 'static {
    type CS: CipherSuite;
    type Afc: AfcState<CipherSuite = Self::CS> + Send + Sync + 'static;
    type Ar: AranyaState<CipherSuite = Self::CS> + Send + 'static;
    const NAME: &'static str;
    /// The state refuses a second live seal context for a channel.
    const SECOND_CTX_REFUSED: bool;

    fn create(tag: &str, max_chans: usize, seed: u64) -> Self;
    /// Takes the (single) writer view.
    fn writer(&mut self) -> Self::Ar;
    /// A new reader view (own mapping for shm, clone for memory).
    fn reader(&self) -> Self::Afc;
    fn seal_key(raw: &RawSealKey<Self::CS>) -> <Self::Ar as AranyaState>::SealKey;
    fn open_key(raw: &RawOpenKey<Self::CS>) -> <Self::Ar as AranyaState>::OpenKey;
    fn is_out_of_space(e: &<Self::Ar as AranyaState>::Error) -> bool;
    /// `Some(n)` if the state has a fixed capacity.
    fn capacity(&self) -> Option<usize>;
    /// Hook H3: atomic snapshot of the list readers consult -> (side address, generation).
    fn snapshot(_afc: &Self::Afc, _f: impl FnMut(usize, LocalChannelId, ChannelDirection, LabelId)) -> Option<Result<(usize, u32), String>> {
        None
    }
    /// Hook H3: both lists (side 0 = write side, 1 = read side) -> generations.
    #[allow(clippy::type_complexity)]
    fn sides(_w: &Self::Ar, _f: impl FnMut(usize, u32, usize, LocalChannelId, ChannelDirection, LabelId, u64)) -> Option<Result<(u32, u32), String>> {
        None
    }
}

pub fn add_seal<B: Backend>(
    w: &B::Ar,
    p: &Pair<B::CS>,
) -> Result<LocalChannelId, <B::Ar as AranyaState>::Error> {
    w.add(Directed::SealOnly { seal: B::seal_key(&p.seal) }, p.label, p.peer)
}

pub fn add_open<B: Backend>(
    w: &B::Ar,
    p: &Pair<B::CS>,
) -> Result<LocalChannelId, <B::Ar as AranyaState>::Error> {
    w.add(Directed::OpenOnly { open: B::open_key(&p.open) }, p.label, p.peer)
}

/// `memory::State`.
pub struct Mem<CS: CipherSuite> {
    state: memory::State<CS>,
}

impl<CS: CipherSuite + 'static> Backend for Mem<CS>
where
    memory::State<CS>: Send + Sync,
{
    type CS = CS;
    type Afc = memory::State<CS>;
    type Ar = memory::State<CS>;
    const NAME: &'static str = "mem";
    const SECOND_CTX_REFUSED: bool = true;

    fn create(_tag: &str, _max_chans: usize, _seed: u64) -> Self {
        Self { state: memory::State::new() }
    }
    fn writer(&mut self) -> Self::Ar {
        self.state.clone()
    }
    fn reader(&self) -> Self::Afc {
        self.state.clone()
    }
    fn seal_key(raw: &RawSealKey<CS>) -> SealKey<CS> {
        SealKey::from_raw(raw, Seq::ZERO).expect("SealKey::from_raw")
    }
    fn open_key(raw: &RawOpenKey<CS>) -> OpenKey<CS> {
        OpenKey::from_raw(raw).expect("OpenKey::from_raw")
    }
    fn is_out_of_space(_e: &AfcError) -> bool {
        false
    }
    fn capacity(&self) -> Option<usize> {
        None
    }
}

static SHM_SERIAL: AtomicU64 = AtomicU64::new(0);

/// POSIX shared memory: one `WriteState` mapping, one `ReadState` mapping per reader view.
pub struct Shm<CS: CipherSuite> {
    path: Box<Path>,
    max_chans: usize,
    writer: Option<WriteState<CS, DetRng>>,
}

impl<CS: CipherSuite + 'static> Backend for Shm<CS>
where
    WriteState<CS, DetRng>: Send,
    ReadState<CS>: Send + Sync,
{
    type CS = CS;
    type Afc = ReadState<CS>;
    type Ar = WriteState<CS, DetRng>;
    const NAME: &'static str = "shm";
    const SECOND_CTX_REFUSED: bool = false;

    fn create(tag: &str, max_chans: usize, seed: u64) -> Self {
        let n = SHM_SERIAL.fetch_add(1, Ordering::Relaxed);
        let name = format!("/verif-afc-{}-{tag}-{n}\0", std::process::id());
        let path: Box<Path> = name.as_bytes().try_into().expect("shm path");
        let _ = shm::unlink(&path);
        let writer = WriteState::open(&path, Flag::Create, Mode::ReadWrite, max_chans, DetRng::new(seed))
            .expect("WriteState::open(Create)");
        Self { path, max_chans, writer: Some(writer) }
    }
    fn writer(&mut self) -> Self::Ar {
        self.writer.take().expect("writer view already taken")
    }
    fn reader(&self) -> Self::Afc {
        ReadState::open(&self.path, Flag::OpenOnly, Mode::ReadWrite, self.max_chans)
            .expect("ReadState::open")
    }
    fn seal_key(raw: &RawSealKey<CS>) -> RawSealKey<CS> {
        raw.clone()
    }
    fn open_key(raw: &RawOpenKey<CS>) -> RawOpenKey<CS> {
        raw.clone()
    }
    fn is_out_of_space(e: &shm::Error) -> bool {
        matches!(e, shm::Error::OutOfSpace)
    }
    fn capacity(&self) -> Option<usize> {
        Some(self.max_chans)
    }
    fn snapshot(afc: &Self::Afc, f: impl FnMut(usize, LocalChannelId, ChannelDirection, LabelId)) -> Option<Result<(usize, u32), String>> {
        Some(afc.verif_snapshot(f).map_err(|e| format!("{e:?}")))
    }
    fn sides(w: &Self::Ar, f: impl FnMut(usize, u32, usize, LocalChannelId, ChannelDirection, LabelId, u64)) -> Option<Result<(u32, u32), String>> {
        Some(w.verif_sides(f).map_err(|e| format!("{e:?}")))
    }
}

impl<CS: CipherSuite> Drop for Shm<CS> {
    fn drop(&mut self) {
        let _ = shm::unlink(&self.path);
    }
}

// ---------------------------------------------------------------------------
// Message helpers
// ---------------------------------------------------------------------------

/// Seals `n` messages the way the remote end of the channel would (own in-memory state),
/// returning (ciphertext, plaintext, seq).
pub fn peer_msgs<CS: CipherSuite>(p: &Pair<CS>, n: usize, rng: &mut Rng, max_len: usize) -> Vec<(Vec<u8>, Vec<u8>, u64)> {
    let st = memory::State::<CS>::new();
    let id = st
        .add(
            Directed::SealOnly { seal: SealKey::from_raw(&p.seal, Seq::ZERO).expect("from_raw") },
            p.label,
            p.peer,
        )
        .expect("peer add");
    let c = Client::new(st);
    let mut ctx = c.setup_seal_ctx(id).expect("peer ctx");
    (0..n)
        .map(|i| {
            let len = rng.urange(0, max_len);
            let pt = rng.bytes(len);
            let mut ct = vec![0u8; pt.len() + Client::<memory::State<CS>>::OVERHEAD];
            c.seal(&mut ctx, &mut ct, &pt).expect("peer seal");
            (ct, pt, i as u64)
        })
        .collect()
}

/// The numeric value of a channel id (only `Display` exposes it).
pub fn id_u64(id: LocalChannelId) -> u64 {
    id.to_string().parse().expect("LocalChannelId displays as u64")
}

/// Size of the trailing data header (the sequence number).
pub const HDR: usize = 8;

pub fn overhead<S: AfcState>() -> usize {
    Client::<S>::OVERHEAD
}

/// The sequence number stored in the trailer of a sealed message.
pub fn trailer_seq(ct: &[u8]) -> Option<u64> {
    let (_, h) = ct.split_last_chunk::<HDR>()?;
    Some(u64::from_le_bytes(*h))
}

/// Short stable name of an error for outcome classification.
pub fn err_kind(e: &AfcError) -> &'static str {
    match e {
        AfcError::Bug(_) => "Bug",
        AfcError::InvalidHeader(_) => "InvalidHeader",
        AfcError::NotFound(_) => "NotFound",
        AfcError::InputTooLarge => "InputTooLarge",
        AfcError::BufferTooSmall => "BufferTooSmall",
        AfcError::KeyExpired => "KeyExpired",
        AfcError::Authentication => "Authentication",
        AfcError::Crypto(_) => "Crypto",
        AfcError::Allocation(_) => "Allocation",
        AfcError::Errno(_) => "Errno",
        AfcError::InvalidArgument(_) => "InvalidArgument",
        AfcError::MemoryLayout(_) => "MemoryLayout",
        AfcError::OutOfSpace => "OutOfSpace",
        AfcError::SharedMem(_) => "SharedMem",
        AfcError::Corrupted(_) => "Corrupted",
    }
}

// ---------------------------------------------------------------------------
// Logical clock and delay injection
// ---------------------------------------------------------------------------

static CLOCK: AtomicU64 = AtomicU64::new(0);

/// One logical clock for the whole process; every value is handed out once.
pub fn tick() -> u64 {
    CLOCK.fetch_add(1, Ordering::SeqCst) + 1
}

/// Seeded scheduling noise: widens race windows without deciding anything.
pub fn jitter(rng: &mut Rng, intensity: u64) {
    if intensity == 0 {
        return;
    }
    match rng.below(100) {
        x if x < 4 * intensity => std::thread::yield_now(),
        x if x < 5 * intensity => {
            if cfg!(miri) {
                std::thread::yield_now();
            } else {
                std::thread::sleep(std::time::Duration::from_micros(rng.range(5, 150)));
            }
        }
        x if x < 8 * intensity => {
            for _ in 0..rng.below(200) {
                std::hint::spin_loop();
            }
        }
        _ => {}
    }
}

// ---------------------------------------------------------------------------
// Counting allocator
// ---------------------------------------------------------------------------

/// Wraps the system allocator and counts live blocks / bytes.
pub struct CountingAlloc;

static LIVE_BLOCKS: AtomicI64 = AtomicI64::new(0);
static LIVE_BYTES: AtomicI64 = AtomicI64::new(0);
static TOTAL_ALLOCS: AtomicU64 = AtomicU64::new(0);

// SAFETY: defers to `System`; the counters have no influence on the returned memory.
unsafe impl GlobalAlloc for CountingAlloc {
    unsafe fn alloc(&self, l: Layout) -> *mut u8 {
        // SAFETY: same contract as the caller's.
        let p = unsafe { System.alloc(l) };
        if !p.is_null() {
            LIVE_BLOCKS.fetch_add(1, Ordering::Relaxed);
            LIVE_BYTES.fetch_add(l.size() as i64, Ordering::Relaxed);
            TOTAL_ALLOCS.fetch_add(1, Ordering::Relaxed);
        }
        p
    }
    unsafe fn dealloc(&self, p: *mut u8, l: Layout) {
        LIVE_BLOCKS.fetch_sub(1, Ordering::Relaxed);
        LIVE_BYTES.fetch_sub(l.size() as i64, Ordering::Relaxed);
        // SAFETY: same contract as the caller's.
        unsafe { System.dealloc(p, l) }
    }
    unsafe fn realloc(&self, p: *mut u8, l: Layout, new_size: usize) -> *mut u8 {
        // SAFETY: same contract as the caller's.
        let q = unsafe { System.realloc(p, l, new_size) };
        if !q.is_null() {
            LIVE_BYTES.fetch_add(new_size as i64 - l.size() as i64, Ordering::Relaxed);
        }
        q
    }
}

pub fn live_blocks() -> i64 {
    LIVE_BLOCKS.load(Ordering::SeqCst)
}

pub fn live_bytes() -> i64 {
    LIVE_BYTES.load(Ordering::SeqCst)
}

pub fn total_allocs() -> u64 {
    TOTAL_ALLOCS.load(Ordering::SeqCst)
}

// ---------------------------------------------------------------------------
// Child-process supervision
// ---------------------------------------------------------------------------

/// Natively a double free / use-after-free / double panic in the code under test kills the
/// process, which no in-process capture survives.
///
/// Re-executes this binary as a child with the same arguments. A normal exit is passed through
/// (the child wrote its own fragments and verdict lines); death by SIGABRT/SIGSEGV/SIGBUS/SIGILL
/// is a violation (memory corruption in the code under test); anything else is inconclusive.
pub fn supervise(args: &vcore::Args, ids: &[&str]) -> std::process::ExitCode {
    use std::process::ExitCode;
    use vcore::{Monitor, finish_all_code, json};
    use std::os::unix::process::ExitStatusExt;
    let exe = std::env::current_exe().expect("current_exe");
    let mut argv: Vec<String> = std::env::args().skip(1).collect();
    argv.extend(["--set".into(), "child=1".into()]);
    let status = std::process::Command::new(exe).args(&argv).status().expect("spawn child");
    if let Some(code) = status.code() {
        return ExitCode::from(code as u8);
    }
    let sig = status.signal().unwrap_or(0);
    let mut ms = vec![];
    for id in ids {
        if !args.props.is_empty() && args.wants(id) {
            let mut m = Monitor::new(id, "supervised child process running the concurrent workload").min(0);
            m.eval();
            match sig {
                libc::SIGABRT | libc::SIGSEGV | libc::SIGBUS | libc::SIGILL => m.violation(
                    &format!("{}-workload-process-killed-by-signal-{sig}", id.to_lowercase()),
                    json!({"signal": sig, "meaning": "6=SIGABRT (allocator detected double free / corruption), 11=SIGSEGV, 7=SIGBUS", "args": argv, "note": "schedule-dependent: replay re-runs the seeded workload"}),
                ),
                _ => m.inconclusive(&format!("workload child killed by signal {sig}")),
            }
            ms.push(m);
        }
    }
    if ms.is_empty() {
        eprintln!("workload child killed by signal {sig}");
        return ExitCode::from(2);
    }
    ExitCode::from(finish_all_code(args, ms) as u8)
}

