//! C43: the shared-memory mutex is exclusive and loses no wake-ups (hook H2).
//!
//! Exclusivity: a plain (non-atomic, volatile) counter and occupancy flag live inside the
//! mutex's data; an overlap shows as a wrong final count / occupancy 2 natively and as a
//! reported data race under Miri / TSan.
//! No lost wake-up: every thread must finish its N lock/unlock pairs. Under Miri a lost
//! wake-up is a deadlock report. Natively a stuck-state detector looks for the signature
//! "every unfinished worker is asleep inside lock(), nobody is in or near the critical section,
//! work is outstanding", sampled twice; a watchdog expiry without that signature is
//! INCONCLUSIVE, never a violation.
use std::{
    cell::{Cell, RefCell},
    process::ExitCode,
    ptr,
    sync::{
        Arc, Barrier,
        atomic::{AtomicU32, AtomicU64, Ordering},
    },
    time::{Duration, Instant},
};

use aranya_fast_channels::verif::{self, Mutex};
use mon_afc::is_miri;
use vcore::*;

#[repr(C)]
#[derive(Default)]
struct Guarded {
    count: u64,
    occupancy: u32,
    scratch: [u64; 4],
}

const IDLE: u32 = 0;
const LOCKING: u32 = 1;
const IN_CS: u32 = 2;
const UNLOCKING: u32 = 3;
const PAUSED: u32 = 4;
const DONE: u32 = 5;

static PAUSE_HITS: [AtomicU64; 4] = [AtomicU64::new(0), AtomicU64::new(0), AtomicU64::new(0), AtomicU64::new(0)];
static PAUSE_ACTED: AtomicU64 = AtomicU64::new(0);

struct Worker {
    phase: AtomicU32,
    tid: AtomicU32,
    done: AtomicU64,
}

struct Case {
    mutex: Mutex<Guarded>,
    outside_occupancy: AtomicU32,
    occupancy_violations: AtomicU64,
    workers: Vec<Worker>,
    n: u64,
    panics: std::sync::Mutex<Vec<PanicInfo>>,
}

struct Tl {
    rng: Rng,
    /// Per-mille probability that a pause point acts.
    pause_pm: u64,
    sleep: bool,
    me: Option<(Arc<Case>, usize)>,
}

thread_local! {
    static TL: RefCell<Option<Tl>> = const { RefCell::new(None) };
    static IN_HOOK: Cell<bool> = const { Cell::new(false) };
}

/// The registered pause hook: widens the windows around the futex calls with seeded noise.
fn pause_hook(point: u32) {
    PAUSE_HITS[(point as usize).min(3)].fetch_add(1, Ordering::Relaxed);
    if IN_HOOK.with(|h| h.replace(true)) {
        return;
    }
    TL.with(|tl| {
        if let Ok(mut tl) = tl.try_borrow_mut() {
            if let Some(tl) = tl.as_mut() {
                if tl.rng.below(1000) < tl.pause_pm {
                    PAUSE_ACTED.fetch_add(1, Ordering::Relaxed);
                    let prev = tl.me.as_ref().map(|(c, i)| c.workers[*i].phase.swap(PAUSED, Ordering::SeqCst));
                    match tl.rng.below(4) {
                        0 if tl.sleep => std::thread::sleep(Duration::from_micros(tl.rng.range(20, 400))),
                        1 => {
                            for _ in 0..tl.rng.below(2000) {
                                std::hint::spin_loop();
                            }
                        }
                        _ => std::thread::yield_now(),
                    }
                    if let (Some((c, i)), Some(p)) = (tl.me.as_ref(), prev) {
                        c.workers[*i].phase.store(p, Ordering::SeqCst);
                    }
                }
            }
        }
    });
    IN_HOOK.with(|h| h.set(false));
}

fn gettid() -> u32 {
    // SAFETY: FFI call without invariants.
    (unsafe { libc::syscall(libc::SYS_gettid) }) as u32
}

fn worker(case: Arc<Case>, i: usize, seed: u64, pause_pm: u64, cs_work: u64, miri: bool, barrier: Arc<Barrier>) {
    let mut rng = Rng::new(seed).fork(0x43_1000 + i as u64);
    TL.with(|tl| *tl.borrow_mut() = Some(Tl { rng: rng.fork(7), pause_pm, sleep: !miri, me: Some((case.clone(), i)) }));
    let w = &case.workers[i];
    if !miri {
        w.tid.store(gettid(), Ordering::SeqCst);
    }
    barrier.wait();
    for _ in 0..case.n {
        w.phase.store(LOCKING, Ordering::SeqCst);
        let mut g = case.mutex.lock();
        w.phase.store(IN_CS, Ordering::SeqCst);
        // Relaxed on purpose: must not create happens-before edges that would hide a race on
        // the plain fields below from Miri / TSan.
        if case.outside_occupancy.fetch_add(1, Ordering::Relaxed) != 0 {
            case.occupancy_violations.fetch_add(1, Ordering::Relaxed);
        }
        {
            let d: &mut Guarded = &mut g;
            let p = ptr::from_mut(d);
            // SAFETY: `p` points to the data we hold the guard for; volatile only keeps the
            // compiler from folding the read-modify-write away. These are plain accesses.
            unsafe {
                let occ = ptr::read_volatile(&raw const (*p).occupancy);
                ptr::write_volatile(&raw mut (*p).occupancy, occ.wrapping_add(1));
                if occ != 0 {
                    case.occupancy_violations.fetch_add(1, Ordering::Relaxed);
                }
                let c = ptr::read_volatile(&raw const (*p).count);
                for k in 0..rng.below(cs_work + 1) {
                    ptr::write_volatile(&raw mut (*p).scratch[(k % 4) as usize], c ^ k);
                }
                // Holding the lock across a yield is what sends the other lockers to sleep.
                if miri {
                    // Several yields: long enough for *all* other lockers to reach futex_wait.
                    for _ in 0..rng.below(6) {
                        std::thread::yield_now();
                    }
                } else if cs_work > 0 && rng.chance(1, 40) {
                    std::thread::yield_now();
                }
                ptr::write_volatile(&raw mut (*p).count, c.wrapping_add(1));
                let occ = ptr::read_volatile(&raw const (*p).occupancy);
                ptr::write_volatile(&raw mut (*p).occupancy, occ.wrapping_sub(1));
            }
        }
        case.outside_occupancy.fetch_sub(1, Ordering::Relaxed);
        w.phase.store(UNLOCKING, Ordering::SeqCst);
        drop(g);
        w.phase.store(IDLE, Ordering::SeqCst);
        w.done.fetch_add(1, Ordering::SeqCst);
        if rng.chance(1, 8) {
            std::thread::yield_now();
        }
    }
    w.phase.store(DONE, Ordering::SeqCst);
    TL.with(|tl| *tl.borrow_mut() = None);
}

/// Thread state letter from /proc (R, S, D, ...).
fn task_state(tid: u32) -> Option<char> {
    let s = std::fs::read_to_string(format!("/proc/self/task/{tid}/stat")).ok()?;
    s.rsplit_once(") ")?.1.chars().next()
}

#[derive(Debug)]
struct StuckSample {
    progress: u64,
    phases: Vec<u32>,
    states: Vec<Option<char>>,
    outside_occupancy: u32,
    #[allow(dead_code)]
    raw_state: u32,
}

fn sample(case: &Case) -> StuckSample {
    StuckSample {
        progress: case.workers.iter().map(|w| w.done.load(Ordering::SeqCst)).sum(),
        phases: case.workers.iter().map(|w| w.phase.load(Ordering::SeqCst)).collect(),
        states: case.workers.iter().map(|w| task_state(w.tid.load(Ordering::SeqCst))).collect(),
        outside_occupancy: case.outside_occupancy.load(Ordering::SeqCst),
        raw_state: case.mutex.raw_state(),
    }
}

/// All unfinished workers are asleep inside `lock()`, nobody is in / entering / leaving the
/// critical section or parked in a pause point, and work is outstanding.
fn is_stuck(s: &StuckSample) -> bool {
    let unfinished: Vec<usize> = (0..s.phases.len()).filter(|&i| s.phases[i] != DONE).collect();
    !unfinished.is_empty() && s.outside_occupancy == 0 && unfinished.iter().all(|&i| s.phases[i] == LOCKING && s.states[i] == Some('S'))
}

enum CaseEnd {
    Finished,
    Stuck(StuckSample, StuckSample),
    Watchdog(StuckSample),
}

struct CaseCfg {
    threads: usize,
    n: u64,
    pause_pm: u64,
    cs_work: u64,
}

fn run_case(cfg: &CaseCfg, seed: u64, miri: bool, watchdog: Duration) -> (Arc<Case>, CaseEnd) {
    let case = Arc::new(Case {
        mutex: Mutex::new(Guarded::default()),
        outside_occupancy: AtomicU32::new(0),
        occupancy_violations: AtomicU64::new(0),
        workers: (0..cfg.threads).map(|_| Worker { phase: AtomicU32::new(IDLE), tid: AtomicU32::new(0), done: AtomicU64::new(0) }).collect(),
        n: cfg.n,
        panics: std::sync::Mutex::new(vec![]),
    });
    let barrier = Arc::new(Barrier::new(cfg.threads));
    let handles: Vec<_> = (0..cfg.threads)
        .map(|i| {
            let (c, b) = (case.clone(), barrier.clone());
            let (pm, work) = (cfg.pause_pm, cfg.cs_work);
            std::thread::spawn(move || {
                let c2 = c.clone();
                // A panic in the code under test must become a verdict, not a hang.
                if let Err(p) = catch(move || worker(c2, i, seed, pm, work, miri, b)) {
                    c.panics.lock().unwrap().push(p);
                    c.workers[i].phase.store(DONE, Ordering::SeqCst);
                }
            })
        })
        .collect();
    if miri {
        // Miri's own deadlock detection is the lost-wake-up oracle; just join.
        for h in handles {
            h.join().expect("worker");
        }
        return (case, CaseEnd::Finished);
    }
    let start = Instant::now();
    let all_done = |c: &Case| c.workers.iter().all(|w| w.phase.load(Ordering::SeqCst) == DONE);
    let mut last_progress = u64::MAX;
    let mut stale_rounds = 0;
    loop {
        if all_done(&case) {
            for h in handles {
                h.join().expect("worker");
            }
            return (case, CaseEnd::Finished);
        }
        std::thread::sleep(Duration::from_millis(if stale_rounds == 0 { 2 } else { 40 }));
        let progress: u64 = case.workers.iter().map(|w| w.done.load(Ordering::SeqCst)).sum();
        if progress != last_progress {
            last_progress = progress;
            stale_rounds = 0;
        } else {
            stale_rounds += 1;
        }
        // The time only decides *when to look*; the verdict is the logical signature below,
        // observed twice with no progress in between.
        if stale_rounds >= 4 {
            let a = sample(&case);
            if is_stuck(&a) {
                std::thread::sleep(Duration::from_millis(150));
                let b = sample(&case);
                if is_stuck(&b) && b.progress == a.progress {
                    // The workers can never finish; leave them behind (the process exits soon).
                    return (case, CaseEnd::Stuck(a, b));
                }
            }
            stale_rounds = 1;
        }
        if start.elapsed() > watchdog {
            let s = sample(&case);
            return (case, CaseEnd::Watchdog(s));
        }
    }
}

fn main() -> ExitCode {
    let args = Args::parse();
    let miri = is_miri(&args);
    if !miri && args.get("child").is_none() {
        return mon_afc::supervise(&args, &["C43"]);
    }
    let m = Monitor::new(
        "C43",
        "cases = (threads 2..16, N lock/unlock pairs, critical-section work, pause-point probability) on the real futex mutex (hook H2); plain volatile counter + occupancy inside the mutex data, relaxed occupancy counter outside; pause hook with seeded yields/sleeps at the three points around the futex calls; stuck-state detector natively, Miri deadlock detection under Miri; non-trivial = distinct (threads, work, pause level) cases in which the sleeping path was entered",
    )
    .min(if miri { 1 } else { 6 })
    .require("pause_after_failed_cas", "contended fast path")
    .require("pause_before_futex_wait", "sleeping path: swap(SLEEPING) then futex_wait")
    .require("pause_before_futex_wake", "unlock saw SLEEPING and woke a sleeper")
    .assume("schedules are sampled: OS scheduler plus seeded pause-point delays natively, Miri's randomized scheduler (many seeds) under Miri");
    let mut m = mon_afc::relax_for_miri(m, &args);

    verif::set_pause_hook(Some(pause_hook));
    let mut rng = Rng::new(args.seed).fork(43);
    let cases = if miri { 3 } else { args.n(300, 6000) };
    let watchdog = Duration::from_secs(args.get_u64("case_watchdog_s", 60));
    let mut stuck = false;
    for ci in 0..cases {
        let cfg = if miri {
            CaseCfg { threads: [3, 2, 4][(ci as usize + args.seed as usize) % 3], n: args.n(1200, 3000), pause_pm: 300, cs_work: 2 }
        } else {
            CaseCfg {
                threads: *rng.pick(&[2usize, 2, 3, 3, 4, 6, 8, 16]),
                n: args.n(3000, 6000) / [1, 1, 2, 4][rng.usize(4)],
                pause_pm: *rng.pick(&[0u64, 20, 100, 400]),
                cs_work: *rng.pick(&[0u64, 4, 64]),
            }
        };
        let before: Vec<u64> = PAUSE_HITS.iter().map(|a| a.load(Ordering::Relaxed)).collect();
        let (case, end) = run_case(&cfg, mix2(args.seed, ci), miri, watchdog);
        let hits: Vec<u64> = PAUSE_HITS.iter().zip(&before).map(|(a, b)| a.load(Ordering::Relaxed) - b).collect();
        m.eval();
        m.count("lock_unlock_pairs", case.workers.iter().map(|w| w.done.load(Ordering::SeqCst)).sum());
        m.count("pause_after_failed_cas", hits[1]);
        m.count("pause_before_futex_wait", hits[2]);
        m.count("pause_before_futex_wake", hits[3]);
        m.max("max_threads", cfg.threads as u64);
        let desc = json!({"threads": cfg.threads, "pairs_per_thread": cfg.n, "pause_per_mille": cfg.pause_pm, "cs_work": cfg.cs_work, "case_seed": mix2(args.seed, ci),
            "futex_wait_entries": hits[2], "futex_wake_calls": hits[3], "note": "schedule-dependent: replay re-runs the seeded workload"});
        if hits[2] > 0 {
            m.nontrivial(hash_of(&(cfg.threads, cfg.cs_work, cfg.pause_pm)));
        }
        if ci < 2 {
            m.sample(|| desc.clone());
        }
        for p in case.panics.lock().unwrap().iter() {
            m.violation(&format!("c43-panic-in-worker:{}", p.site()), json!({"case": desc, "panic": p.what}));
        }
        let occ = case.occupancy_violations.load(Ordering::SeqCst);
        if occ > 0 {
            m.violation("c43-two-holders-in-critical-section", json!({"case": desc, "occupancy_violations": occ}));
        }
        match end {
            CaseEnd::Finished => {
                let want = cfg.threads as u64 * cfg.n;
                let got = case.mutex.lock().count;
                if got != want {
                    m.violation("c43-lost-update-on-plain-counter", json!({"case": desc, "want": want, "got": got}));
                }
            }
            CaseEnd::Stuck(a, b) => {
                m.violation("c43-lost-wakeup-all-waiters-asleep-nobody-holds-the-mutex", json!({"case": desc, "first_sample": format!("{a:?}"), "second_sample": format!("{b:?}"),
                    "meaning": "phases: 1=inside lock(); thread state S=sleeping; raw_state: 0 unlocked / 1 locked / 2 locked+sleepers"}));
                stuck = true;
                break;
            }
            CaseEnd::Watchdog(s) => {
                m.inconclusive(&format!("case {ci} did not finish within the watchdog and did not show the lost-wake-up signature: {s:?}"));
                stuck = true;
                break;
            }
        }
    }
    m.count("pause_points_acted", PAUSE_ACTED.load(Ordering::Relaxed));
    verif::set_pause_hook(None);
    if stuck {
        // Blocked workers can never be joined; exit without waiting for them.
        finish_all(&args, vec![m]);
    }
    let code = finish_all_code(&args, vec![m]);
    ExitCode::from(code as u8)
}
