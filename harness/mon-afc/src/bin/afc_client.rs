//! C39: AFC messages are authenticated and opening never panics.
//!
//! Positive: open(seal(p)), open_in_place(seal_in_place(p)) and the cross combinations return
//! p, the channel's label and the sequence number used. Negative: every byte flip, every
//! truncation from 0 bytes up, extensions, foreign channel / label, re-sequenced trailer and
//! random bytes go to `open` (exact / oversized / undersized / empty dst) and `open_in_place`
//! (Vec, Vec with spare capacity, FixedBuf); oracle = Err, no panic, no plaintext left behind.
use aranya_fast_channels::FixedBuf;
use mon_afc::*;
use vcore::*;

const POISON: u8 = 0xA5;

#[derive(Clone, Copy, Debug, PartialEq, Eq, Hash)]
enum DstMode {
    Exact,
    Over,
    Under,
    Empty,
}

#[derive(Clone, Copy, Debug, PartialEq, Eq, Hash)]
enum InPlace {
    Vec,
    VecSpare,
    Fixed,
}

/// Which open context a negative input is presented to.
#[derive(Clone, Copy, Debug, PartialEq, Eq, Hash)]
enum Target {
    /// The matching open half of channel 1.
    O1,
    /// Another channel (other key, other label).
    O2,
    /// Same key as channel 1 but another label.
    O1b,
}

struct Env<B: Backend> {
    _env: B,
    _w: B::Ar,
    client: Client<B::Afc>,
    p1: Pair<B::CS>,
    s1: <B::Afc as AfcState>::SealCtx,
    s2: <B::Afc as AfcState>::SealCtx,
    o1: <B::Afc as AfcState>::OpenCtx,
    o2: <B::Afc as AfcState>::OpenCtx,
    o1b: <B::Afc as AfcState>::OpenCtx,
    /// Successful seals so far on s1 / s2.
    n1: u64,
    n2: u64,
    real_aead: bool,
    cs_name: &'static str,
}

impl<B: Backend> Env<B> {
    fn new(seed: u64, real_aead: bool, cs_name: &'static str) -> Self {
        let krng = DetRng::new(mix2(seed, 0xC39));
        let mut env = B::create("c39", 8, seed);
        let w = env.writer();
        let p1 = Pair::<B::CS>::new(&krng);
        let p2 = Pair::<B::CS>::new(&krng);
        let p1b = p1.relabel(&krng);
        let add = |r: Result<LocalChannelId, <B::Ar as AranyaState>::Error>| r.unwrap_or_else(|e| panic!("add: {e}"));
        let s1 = add(add_seal::<B>(&w, &p1));
        let o1 = add(add_open::<B>(&w, &p1));
        let s2 = add(add_seal::<B>(&w, &p2));
        let o2 = add(add_open::<B>(&w, &p2));
        let o1b = add(add_open::<B>(&w, &p1b));
        let client = Client::new(env.reader());
        Env {
            s1: client.setup_seal_ctx(s1).expect("seal ctx 1"),
            s2: client.setup_seal_ctx(s2).expect("seal ctx 2"),
            o1: client.setup_open_ctx(o1).expect("open ctx 1"),
            o2: client.setup_open_ctx(o2).expect("open ctx 2"),
            o1b: client.setup_open_ctx(o1b).expect("open ctx 1b"),
            client,
            p1,
            _env: env,
            _w: w,
            n1: 0,
            n2: 0,
            real_aead,
            cs_name,
        }
    }

    fn ovh(&self) -> usize {
        Client::<B::Afc>::OVERHEAD
    }

    fn seal(&mut self, m: &mut Monitor, second: bool, in_place: bool, p: &[u8]) -> Option<(Vec<u8>, u64)> {
        let ovh = self.ovh();
        let (ctx, n) = if second { (&mut self.s2, &mut self.n2) } else { (&mut self.s1, &mut self.n1) };
        let r = catch(|| {
            if in_place {
                let mut data = p.to_vec();
                self.client.seal_in_place(ctx, &mut data).map(|_| data)
            } else {
                let mut dst = vec![POISON; p.len() + ovh];
                self.client.seal(ctx, &mut dst, p).map(|_| dst)
            }
        });
        let case = || json!({"backend": B::NAME, "cs": self.cs_name, "op": if in_place {"seal_in_place"} else {"seal"}, "len": p.len()});
        match r {
            Err(pi) => {
                m.violation(&format!("afc-seal-panic:{}", pi.site()), json!({"case": case(), "panic": pi.what}));
                None
            }
            Ok(Err(e)) => {
                m.violation("afc-seal-failed-on-valid-input", json!({"case": case(), "err": format!("{e:?}")}));
                None
            }
            Ok(Ok(ct)) => {
                let want = *n;
                *n += 1;
                if ct.len() != p.len() + ovh {
                    m.violation("afc-seal-length", json!({"case": case(), "got": ct.len()}));
                }
                if trailer_seq(&ct) != Some(want) {
                    m.violation("afc-seal-trailer-seq", json!({"case": case(), "want": want, "got": trailer_seq(&ct)}));
                }
                Some((ct, want))
            }
        }
    }

    fn octx(&mut self, t: Target) -> (&Client<B::Afc>, &mut <B::Afc as AfcState>::OpenCtx) {
        let c = &self.client;
        match t {
            Target::O1 => (c, &mut self.o1),
            Target::O2 => (c, &mut self.o2),
            Target::O1b => (c, &mut self.o1b),
        }
    }

    /// Positive check of one sealed message through every open variant.
    fn check_roundtrip(&mut self, m: &mut Monitor, ct: &[u8], p: &[u8], seq: u64, how: &str) {
        let label = self.p1.label;
        let cs = self.cs_name;
        let case = |api: &str| json!({"backend": B::NAME, "cs": cs, "sealed_with": how, "api": api, "len": p.len(), "seq": seq});
        for mode in [DstMode::Exact, DstMode::Over, DstMode::Under] {
            if mode == DstMode::Under && p.is_empty() {
                continue;
            }
            let dlen = match mode {
                DstMode::Exact => p.len(),
                DstMode::Over => p.len() + 17,
                _ => p.len() - 1,
            };
            let mut dst = vec![POISON; dlen];
            let (c, o) = self.octx(Target::O1);
            let r = catch(|| c.open(o, &mut dst, ct));
            m.eval();
            let api = format!("open/{mode:?}");
            match r {
                Err(pi) => m.violation(&format!("afc-open-panic:{}", pi.site()), json!({"case": case(&api), "panic": pi.what})),
                Ok(r) if mode == DstMode::Under => {
                    m.count("pos_undersized_dst", 1);
                    if r.is_ok() {
                        m.violation("afc-open-ok-with-undersized-dst", case(&api));
                    } else if leaks(&dst, p) {
                        m.violation("afc-open-undersized-dst-holds-data", json!({"case": case(&api), "dst": hex(&dst)}));
                    }
                }
                Ok(Err(e)) => m.violation("afc-open-rejects-own-message", json!({"case": case(&api), "err": format!("{e:?}")})),
                Ok(Ok((l, s))) => {
                    m.count("pos_open_ok", 1);
                    if l != label {
                        m.violation("afc-open-wrong-label", case(&api));
                    }
                    if s.to_u64() != seq {
                        m.violation("afc-open-wrong-seq", json!({"case": case(&api), "got": s.to_u64()}));
                    }
                    if &dst[..p.len()] != p {
                        m.violation("afc-open-wrong-plaintext", json!({"case": case(&api), "got": hex(&dst[..p.len().min(64)])}));
                    }
                }
            }
        }
        for mode in [InPlace::Vec, InPlace::VecSpare, InPlace::Fixed] {
            let api = format!("open_in_place/{mode:?}");
            let (c, o) = self.octx(Target::O1);
            let r = catch(|| run_in_place(c, o, ct, mode));
            m.eval();
            match r {
                Err(pi) => m.violation(&format!("afc-open_in_place-panic:{}", pi.site()), json!({"case": case(&api), "panic": pi.what})),
                Ok((Err(e), _)) => m.violation("afc-open_in_place-rejects-own-message", json!({"case": case(&api), "err": format!("{e:?}")})),
                Ok((Ok((l, s)), out)) => {
                    m.count("pos_open_in_place_ok", 1);
                    if l != label {
                        m.violation("afc-open_in_place-wrong-label", case(&api));
                    }
                    if s.to_u64() != seq {
                        m.violation("afc-open_in_place-wrong-seq", json!({"case": case(&api), "got": s.to_u64()}));
                    }
                    if out != p {
                        m.violation("afc-open_in_place-wrong-plaintext", json!({"case": case(&api), "got_len": out.len()}));
                    }
                }
            }
        }
    }

    /// Negative check: `x` must be rejected by every open variant of context `t`.
    /// `p` is the plaintext that must not be left behind (if any is known).
    fn check_reject(&mut self, m: &mut Monitor, kind: &str, x: &[u8], t: Target, p: Option<&[u8]>, full: bool) {
        let ovh = self.ovh();
        let real = self.real_aead;
        let cs = self.cs_name;
        let case = |api: &str| json!({"backend": B::NAME, "cs": cs, "kind": kind, "api": api, "target": format!("{t:?}"), "input": hex(x), "plaintext": p.map(hex)});
        let exact = x.len().saturating_sub(ovh);
        let modes: &[DstMode] = if full { &[DstMode::Exact, DstMode::Over, DstMode::Under, DstMode::Empty] } else { &[DstMode::Exact, DstMode::Over] };
        for &mode in modes {
            let dlen = match mode {
                DstMode::Exact => exact,
                DstMode::Over => exact + 17,
                DstMode::Under if exact > 0 => exact - 1,
                DstMode::Empty if exact > 1 => 0,
                _ => continue,
            };
            let mut dst = vec![POISON; dlen];
            let (c, o) = self.octx(t);
            let r = catch(|| c.open(o, &mut dst, x));
            m.eval();
            m.nontrivial(hash_of(&(kind_class(kind), "open", mode, len_class(x.len(), ovh), t)));
            let api = format!("open/{mode:?}");
            match r {
                Err(pi) => {
                    m.violation(&format!("afc-open-panic:{}", pi.site()), json!({"case": case(&api), "panic": pi.what}));
                    continue;
                }
                Ok(Ok(_)) => {
                    m.violation(&format!("afc-open-accepts-{}", kind_class(kind)), case(&api));
                    continue;
                }
                Ok(Err(e)) => m.seen("open_errors", err_kind(&e)),
            }
            let state = if dst.iter().all(|&b| b == POISON) {
                "dst_unchanged"
            } else if dst.iter().all(|&b| b == 0) {
                "dst_zeroized"
            } else {
                "dst_other"
            };
            m.count(state, 1);
            if let Some(p) = p {
                if leaks(&dst, p) {
                    m.violation(&format!("afc-open-leaves-plaintext-{}", kind_class(kind)), json!({"case": case(&api), "dst": hex(&dst)}));
                }
            }
        }
        let modes: &[InPlace] = if full { &[InPlace::Vec, InPlace::VecSpare, InPlace::Fixed] } else { &[InPlace::Vec, InPlace::Fixed] };
        for &mode in modes {
            let api = format!("open_in_place/{mode:?}");
            let (c, o) = self.octx(t);
            let r = catch(|| run_in_place(c, o, x, mode));
            m.eval();
            m.nontrivial(hash_of(&(kind_class(kind), "open_in_place", mode, len_class(x.len(), ovh), t)));
            match r {
                Err(pi) => m.violation(&format!("afc-open_in_place-panic:{}", pi.site()), json!({"case": case(&api), "panic": pi.what})),
                Ok((Ok(_), _)) => m.violation(&format!("afc-open_in_place-accepts-{}", kind_class(kind)), case(&api)),
                Ok((Err(e), out)) => {
                    m.seen("open_in_place_errors", err_kind(&e));
                    let state = if out.iter().all(|&b| b == 0) && !out.is_empty() {
                        "inplace_zeroized"
                    } else if out == x {
                        "inplace_unchanged"
                    } else {
                        "inplace_other"
                    };
                    m.count(state, 1);
                    // With the no-op AEAD the *input* already is the plaintext, so only the real
                    // AEAD can tell "left plaintext behind" from "left the input alone".
                    if let (true, Some(p)) = (real, p) {
                        if leaks(&out, p) {
                            m.violation(&format!("afc-open_in_place-leaves-plaintext-{}", kind_class(kind)), json!({"case": case(&api), "buf": hex(&out)}));
                        }
                    }
                }
            }
        }
    }
}

/// Runs `open_in_place` on a copy of `x` held in the requested kind of buffer and returns
/// the result together with the final buffer contents.
fn run_in_place<S: AfcState>(
    c: &Client<S>,
    o: &mut S::OpenCtx,
    x: &[u8],
    mode: InPlace,
) -> (Result<(LabelId, Seq), AfcError>, Vec<u8>) {
    match mode {
        InPlace::Vec => {
            let mut v = x.to_vec();
            let r = c.open_in_place(o, &mut v);
            (r, v)
        }
        InPlace::VecSpare => {
            let mut v = Vec::with_capacity(x.len() + 64);
            v.extend_from_slice(x);
            let r = c.open_in_place(o, &mut v);
            (r, v)
        }
        InPlace::Fixed => {
            let mut backing = vec![POISON; x.len() + 9];
            backing[..x.len()].copy_from_slice(x);
            let (r, n) = {
                let mut fb = FixedBuf::from_slice_mut(&mut backing, x.len()).expect("FixedBuf");
                let r = c.open_in_place(o, &mut fb);
                (r, fb.len())
            };
            backing.truncate(n);
            (r, backing)
        }
    }
}

/// True if `buf` holds an 8-byte window of `p` at the same offset (p is random, so a chance
/// match has probability ~2^-64 per window).
fn leaks(buf: &[u8], p: &[u8]) -> bool {
    let n = buf.len().min(p.len());
    if n < 8 {
        return false;
    }
    (0..=n - 8).step_by(4).any(|i| buf[i..i + 8] == p[i..i + 8])
}

fn kind_class(kind: &str) -> &str {
    kind.split(':').next().unwrap_or(kind)
}

fn len_class(len: usize, ovh: usize) -> u8 {
    match len {
        0 => 0,
        l if l < HDR => 1,
        l if l == HDR => 2,
        l if l < ovh => 3,
        l if l == ovh => 4,
        l if l < ovh + 16 => 5,
        l if l < ovh + 256 => 6,
        _ => 7,
    }
}

fn positions(rng: &mut Rng, len: usize, all_below: usize, tail: usize, samples: usize) -> Vec<usize> {
    if len <= all_below {
        return (0..len).collect();
    }
    let mut v: Vec<usize> = (0..8.min(len)).collect();
    v.extend(len - tail.min(len)..len);
    for _ in 0..samples {
        v.push(rng.usize(len));
    }
    v.sort_unstable();
    v.dedup();
    v
}

fn run_backend<B: Backend>(args: &Args, m: &mut Monitor, real_aead: bool, cs_name: &'static str) {
    let miri = is_miri(args);
    let mut rng = Rng::new(args.seed).fork(hash_of(&(B::NAME, cs_name)));
    let mut env = Env::<B>::new(args.seed, real_aead, cs_name);
    let ovh = env.ovh();
    m.max("max_overhead", ovh as u64);

    let mut lengths: Vec<usize> = if miri { vec![0, 1, 17] } else { vec![0, 1, 2, 7, 8, 15, 16, 17, 23, 24, 25, 31, 32, 33, 63, 64, 65, 255, 256, 257, 1023, 1024, 4095, 4096] };
    let extra = if miri { args.n(100, 400) - 1 } else { args.n(400, 8000) };
    for _ in 0..extra {
        lengths.push(match rng.below(4) {
            0 => rng.urange(0, 40),
            1 => rng.urange(0, if miri { 40 } else { 300 }),
            _ => rng.urange(0, if miri { 40 } else { 4096 }),
        });
    }
    let all_below = if miri { 0 } else { 160 };
    let samples = if miri { 2 } else { 24 };

    for (li, &len) in lengths.iter().enumerate() {
        let p = rng.bytes(len);
        m.seen("plaintext_lengths", &format!("{len:05}"));
        // --- positive: both seal variants through every open variant ---------------------
        let mut last = None;
        for in_place in [false, true] {
            let Some((ct, seq)) = env.seal(m, false, in_place, &p) else { continue };
            env.check_roundtrip(m, &ct, &p, seq, if in_place { "seal_in_place" } else { "seal" });
            m.nontrivial(hash_of(&("roundtrip", in_place, len)));
            last = Some((ct, seq));
        }
        let Some((ct, seq)) = last else { continue };
        if li < 3 {
            m.sample(|| json!({"backend": B::NAME, "cs": cs_name, "plaintext_len": len, "seq": seq, "ciphertext_len": ct.len(), "negatives": "flips, truncations 0.., extensions, foreign, reseq, random"}));
        }
        let full = !miri && (len <= 64 || li % 8 == 0);

        // --- every single-byte flip ------------------------------------------------------
        for i in positions(&mut rng, ct.len(), all_below, ovh + 2, samples) {
            let mut x = ct.clone();
            x[i] ^= 1 << rng.below(8);
            env.check_reject(m, &format!("flip:{i}"), &x, Target::O1, Some(&p), full && i % 7 == 0);
            m.count("neg_flips", 1);
        }
        // --- every truncation from 0 bytes up --------------------------------------------
        let mut cuts: Vec<usize> = if ct.len() <= all_below {
            (0..ct.len()).collect()
        } else if miri {
            vec![0, 1, HDR - 1, HDR, HDR + 1, ovh - 1, ovh, ovh + 1].into_iter().filter(|&n| n < ct.len()).collect()
        } else {
            (0..(ovh + 3).min(ct.len())).collect()
        };
        if ct.len() > all_below && !miri {
            cuts.push(ct.len() - 1);
            cuts.push(ct.len() - HDR);
            cuts.push(ct.len() - ovh);
            for _ in 0..samples {
                cuts.push(rng.usize(ct.len()));
            }
            cuts.sort_unstable();
            cuts.dedup();
        }
        for n in cuts {
            // Keep the front (plain truncation) ...
            env.check_reject(m, &format!("trunc:{n}"), &ct[..n], Target::O1, Some(&p), full);
            m.count("neg_truncations", 1);
            if n < ovh {
                m.count("neg_shorter_than_header_plus_tag", 1);
            }
            // ... and keep the back (valid trailer, body cut away).
            if n > 0 && !miri && (len <= 64 || n <= ovh + 2) {
                env.check_reject(m, &format!("trunc_front:{n}"), &ct[ct.len() - n..], Target::O1, None, false);
            }
        }
        // --- extensions --------------------------------------------------------------------
        for k in if miri { &[1usize][..] } else { &[1usize, 8, 24][..] } {
            let k = *k;
            let mut x = ct.clone();
            x.extend(rng.bytes(k));
            env.check_reject(m, &format!("extend_back:{k}"), &x, Target::O1, Some(&p), false);
            let mut y = rng.bytes(k);
            y.extend_from_slice(&ct);
            env.check_reject(m, &format!("extend_front:{k}"), &y, Target::O1, Some(&p), false);
            m.count("neg_extensions", 2);
        }
        // --- foreign channel / label -------------------------------------------------------
        env.check_reject(m, "foreign:other-channel-ctx", &ct, Target::O2, Some(&p), full);
        env.check_reject(m, "foreign:same-key-other-label", &ct, Target::O1b, Some(&p), full);
        if let Some((ct2, _)) = env.seal(m, true, li % 2 == 0, &p) {
            env.check_reject(m, "foreign:from-other-channel", &ct2, Target::O1, Some(&p), full);
        }
        m.count("neg_foreign", 3);
        // --- replayed body with another sequence number ------------------------------------
        let mut seqs = vec![seq + 1, seq.wrapping_sub(1), seq ^ (1 << 63), u64::MAX, rng.u64() | 1 << 40];
        seqs.retain(|&s| s != seq);
        for s in seqs {
            let mut x = ct.clone();
            let n = x.len();
            x[n - HDR..].copy_from_slice(&s.to_le_bytes());
            env.check_reject(m, "reseq", &x, Target::O1, Some(&p), false);
            m.count("neg_reseq", 1);
        }
        // --- the unmodified message still opens (the contexts survived all rejections) -------
        if li % 16 == 0 {
            env.check_roundtrip(m, &ct, &p, seq, "recheck-after-negatives");
        }
    }
    // --- random byte strings of every small length --------------------------------------------
    let rounds = if miri { 1 } else { args.n(6, 60) };
    for _ in 0..rounds {
        let lens: Vec<usize> = if miri { vec![0, 5, HDR, 12, ovh, ovh + 6] } else { (0..=ovh + 40).collect() };
        for n in lens {
            let x = rng.bytes(n);
            env.check_reject(m, &format!("random:{n}"), &x, Target::O1, None, !miri);
            m.count("neg_random", 1);
        }
        for _ in 0..if miri { 1 } else { 8 } {
            let n = rng.urange(ovh + 40, if miri { 200 } else { 5000 });
            let x = rng.bytes(n);
            env.check_reject(m, "random:large", &x, Target::O1, None, false);
            m.count("neg_random", 1);
        }
    }
}

fn replay<B: Backend>(args: &Args, m: &mut Monitor, c: &Value, seed: u64, real: bool, cs_name: &'static str) {
    // Key material is a function of the seed only; seal counters are irrelevant for rejection.
    let mut env = Env::<B>::new(seed, real, cs_name);
    let x = unhex(c["input"].as_str().unwrap_or("")).unwrap_or_default();
    let p = c["plaintext"].as_str().and_then(unhex);
    let t = match c["target"].as_str() {
        Some("O2") => Target::O2,
        Some("O1b") => Target::O1b,
        _ => Target::O1,
    };
    let _ = args;
    env.check_reject(m, c["kind"].as_str().unwrap_or("replay"), &x, t, p.as_deref(), true);
}

fn main() {
    let args = Args::parse();
    let mut m = Monitor::new(
        "C39",
        "plaintext lengths 0..4096 (boundary set + random) sealed with seal/seal_in_place and opened through open (exact/oversized/undersized dst) and open_in_place (Vec, spare-capacity Vec, FixedBuf); per message: every single-byte flip, every truncation length from 0 (front- and back-kept), extensions, foreign channel / same key other label, re-sequenced trailer, plus random strings of every length 0..overhead+40; non-trivial = distinct (mutation class, api, buffer mode, length class relative to header/tag, target context)",
    )
    .min(if is_miri(&args) { 40 } else { 150 })
    .require("pos_open_ok", "positive round trips")
    .require("pos_open_in_place_ok", "positive in-place round trips")
    .require("neg_flips", "byte flips")
    .require("neg_shorter_than_header_plus_tag", "inputs shorter than header+tag")
    .require("neg_foreign", "foreign messages")
    .assume("AEAD forgery probability (2^-128) and chance 8-byte plaintext window matches are neglected");

    if let Some(r) = args.replay_case() {
        let c = if r["case"]["case"].is_object() { r["case"]["case"].clone() } else { r["case"].clone() };
        let seed = r["seed"].as_u64().unwrap_or(args.seed);
        match (c["backend"].as_str().unwrap_or("mem"), c["cs"].as_str().unwrap_or("aes256gcm")) {
            ("shm", "noop") => replay::<Shm<NoopCs>>(&args, &mut m, &c, seed, false, "noop"),
            ("shm", _) => replay::<Shm<RealCs>>(&args, &mut m, &c, seed, true, "aes256gcm"),
            (_, "noop") => replay::<Mem<NoopCs>>(&args, &mut m, &c, seed, false, "noop"),
            _ => replay::<Mem<RealCs>>(&args, &mut m, &c, seed, true, "aes256gcm"),
        }
        finish_all(&args, vec![m]);
    }

    let backend = args.get("backend").unwrap_or(if is_miri(&args) { "mem" } else { "both" }).to_string();
    let cs = args.get("cs").unwrap_or(if is_miri(&args) { "noop" } else { "both" }).to_string();
    let want = |b: &str, c: &str| (backend == "both" || backend == b) && (cs == "both" || cs == c);
    if want("mem", "aes256gcm") {
        run_backend::<Mem<RealCs>>(&args, &mut m, true, "aes256gcm");
        m.count("ran_mem_aes256gcm", 1);
    }
    if want("mem", "noop") {
        run_backend::<Mem<NoopCs>>(&args, &mut m, false, "noop");
        m.count("ran_mem_noop", 1);
    }
    if want("shm", "aes256gcm") {
        run_backend::<Shm<RealCs>>(&args, &mut m, true, "aes256gcm");
        m.count("ran_shm_aes256gcm", 1);
    }
    if want("shm", "noop") {
        run_backend::<Shm<NoopCs>>(&args, &mut m, false, "noop");
        m.count("ran_shm_noop", 1);
    }
    finish_all(&args, vec![m]);
}
