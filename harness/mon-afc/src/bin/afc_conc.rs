//! C40, C41, C42, C44: concurrency monitors for the AFC channel states.
//!
//! All verdicts are taken on logical stamps (one SeqCst counter read at the call and at the
//! return of every operation), never on wall-clock time.
use std::{
    collections::{HashMap, HashSet},
    process::ExitCode,
    sync::{
        OnceLock,
        atomic::{AtomicBool, AtomicU32, AtomicU64, AtomicUsize, Ordering},
    },
};

use aranya_fast_channels::FixedBuf;
use mon_afc::*;
use vcore::*;

#[global_allocator]
static ALLOC: CountingAlloc = CountingAlloc;

const NEVER: u64 = u64::MAX;

/// Runs a thread body; a panic inside the code under test becomes a value (and `on_panic`
/// releases whoever waits for this thread) instead of a hang or a process abort.
fn guarded<T>(on_panic: impl FnOnce(), f: impl FnOnce() -> T) -> Result<T, PanicInfo> {
    let r = catch(f);
    if r.is_err() {
        on_panic();
    }
    r
}

fn report_panic(m: &mut Monitor, prop: &str, who: &str, label: &str, p: &PanicInfo) {
    m.violation(&format!("{prop}-panic-in-{who}:{}", p.site()), json!({"backend": label, "panic": p.what, "note": "schedule-dependent: replay re-runs the seeded workload"}));
}

// ===========================================================================
// History workload shared by C41 (removal takes effect) and C42 (tables consistent)
// ===========================================================================

struct ChanPub {
    id: LocalChannelId,
    num: u64,
    is_seal: bool,
    label: LabelId,
    owner: usize,
    /// For open channels: (ciphertext, plaintext, seq) sealed by the remote end.
    msgs: Vec<(Vec<u8>, Vec<u8>, u64)>,
}

struct Shared {
    chans: Vec<OnceLock<ChanPub>>,
    published: AtomicUsize,
    stop: AtomicBool,
}

#[derive(Clone, Copy, PartialEq, Eq, Debug, Hash)]
enum RKind {
    SetupSeal,
    SetupOpen,
    Seal,
    Open,
    Exists,
}

#[derive(Clone, Copy, PartialEq, Eq, Debug, Hash)]
enum Out {
    Ok,
    /// `Error::NotFound` / `exists() == false`.
    NotFound,
    Other(&'static str),
    WrongData,
}

struct ROp {
    reader: usize,
    chan: usize,
    kind: RKind,
    call: u64,
    ret: u64,
    out: Out,
    /// The context used had already returned NotFound before this call.
    ctx_dead: bool,
}

struct Snap {
    reader: usize,
    call: u64,
    ret: u64,
    generation: u32,
    side: usize,
    ids: Vec<u64>,
    bad_entry: Option<String>,
}

struct WOp {
    kind: &'static str,
    call: u64,
    ret: u64,
    /// Channel ids present after the operation (S_k), sorted.
    after: Vec<u64>,
}

#[derive(Clone, Copy)]
struct ChanRec {
    add_ret: u64,
    rm_call: u64,
    rm_ret: u64,
    rm_kind: &'static str,
}

struct HistCfg {
    readers: usize,
    writer_ops: u64,
    reader_ops: u64,
    cap: usize,
    jitter: u64,
    quiesce_every: u64,
    msg_len: usize,
}

struct WriterOut {
    ops: Vec<WOp>,
    recs: Vec<ChanRec>,
    /// Violations found inline by the writer (C42): (signature, detail).
    v42: Vec<(String, Value)>,
    counters: Vec<(&'static str, u64)>,
}

enum Ctx<S: AfcState> {
    Seal(S::SealCtx),
    Open(S::OpenCtx),
}

fn out_of<T>(r: &Result<T, AfcError>) -> Out {
    match r {
        Ok(_) => Out::Ok,
        Err(AfcError::NotFound(_)) => Out::NotFound,
        Err(e) => Out::Other(err_kind(e)),
    }
}

fn history_writer<B: Backend>(
    cfg: &HistCfg,
    seed: u64,
    w: B::Ar,
    afc: B::Afc,
    sh: &Shared,
    hard_cap: Option<usize>,
) -> WriterOut {
    let mut rng = Rng::new(seed).fork(0x41_0000);
    let krng = DetRng::new(mix2(seed, 0x41_0001));
    let mut out = WriterOut { ops: vec![], recs: vec![], v42: vec![], counters: vec![] };
    let mut live: Vec<usize> = vec![];
    let mut by_id: HashMap<LocalChannelId, usize> = HashMap::new();
    let mut last_id: Option<LocalChannelId> = None;
    let mut last_pair: Option<Pair<B::CS>> = None;
    let soft_cap = hard_cap.unwrap_or(cfg.cap);
    let (mut n_add, mut n_full, mut n_rm, mut n_rmif, mut n_rmall, mut n_quiesce, mut max_live, mut gens_equal, mut gens_differ) = (0u64, 0u64, 0u64, 0u64, 0u64, 0u64, 0u64, 0u64, 0u64);
    let total = sh.chans.len();

    for step in 0..cfg.writer_ops {
        let next_idx = out.recs.len();
        let full = live.len() >= soft_cap;
        let can_add = next_idx < total;
        let choice = {
            let w_add = if !can_add { 0 } else if full { if hard_cap.is_some() { 6 } else { 0 } } else { 50 };
            let w_rm = if live.is_empty() { 0 } else { 22 + if full { 30 } else { 0 } };
            let w_rmif = if live.is_empty() { 1 } else { 9 };
            let w_rmall = if live.len() >= 2 { 2 } else { 0 };
            let w_rm_missing = 2;
            rng.weighted(&[w_add, w_rm, w_rmif, w_rmall, w_rm_missing])
        };
        let kind: &'static str;
        let (call, ret);
        match choice {
            0 => {
                // ---- add ------------------------------------------------------------------
                let reuse = last_pair.is_some() && rng.chance(1, 3);
                let pair = if reuse { last_pair.take().unwrap() } else { Pair::<B::CS>::new(&krng) };
                let is_seal = if reuse { false } else { rng.chance(3, 5) };
                let msgs = if is_seal { vec![] } else { peer_msgs(&pair, 3, &mut rng, cfg.msg_len) };
                call = tick();
                let r = if is_seal { add_seal::<B>(&w, &pair) } else { add_open::<B>(&w, &pair) };
                ret = tick();
                match r {
                    Ok(id) => {
                        kind = "add";
                        n_add += 1;
                        if hard_cap.is_some() && full {
                            out.v42.push(("c42-add-succeeds-when-table-full".into(), json!({"step": step, "live": live.len(), "cap": soft_cap, "id": id_u64(id)})));
                        }
                        if let Some(prev) = last_id {
                            if id <= prev {
                                out.v42.push(("c42-channel-id-not-strictly-increasing".into(), json!({"step": step, "prev": id_u64(prev), "got": id_u64(id)})));
                            }
                        }
                        last_id = Some(id);
                        let idx = next_idx;
                        out.recs.push(ChanRec { add_ret: ret, rm_call: NEVER, rm_ret: NEVER, rm_kind: "" });
                        by_id.insert(id, idx);
                        live.push(idx);
                        let label = pair.label;
                        let _ = sh.chans[idx].set(ChanPub { id, num: id_u64(id), is_seal, label, owner: idx % cfg.readers, msgs });
                        sh.published.store(idx + 1, Ordering::Release);
                        if is_seal {
                            last_pair = Some(pair);
                        }
                    }
                    Err(e) => {
                        kind = "add-failed";
                        if B::is_out_of_space(&e) {
                            n_full += 1;
                            if !(hard_cap.is_some() && full) {
                                out.v42.push(("c42-out-of-space-though-table-not-full".into(), json!({"step": step, "live": live.len(), "cap": soft_cap})));
                            }
                        } else {
                            out.v42.push(("c42-add-fails".into(), json!({"step": step, "err": format!("{e}")})));
                        }
                    }
                }
            }
            1 => {
                // ---- remove(id) -----------------------------------------------------------
                kind = "remove";
                n_rm += 1;
                let pos = rng.usize(live.len());
                let idx = live.swap_remove(pos);
                let id = sh.chans[idx].get().unwrap().id;
                call = tick();
                let r = w.remove(id);
                ret = tick();
                if let Err(e) = r {
                    out.v42.push(("c42-remove-fails".into(), json!({"step": step, "err": format!("{e}")})));
                }
                out.recs[idx].rm_call = call;
                out.recs[idx].rm_ret = ret;
                out.recs[idx].rm_kind = kind;
            }
            2 => {
                // ---- remove_if(pure predicate) --------------------------------------------
                kind = "remove_if";
                n_rmif += 1;
                let mode = rng.below(3);
                let mut chosen: HashSet<LocalChannelId> = HashSet::new();
                let mut label = None;
                let dir = if rng.bool() { ChannelDirection::Seal } else { ChannelDirection::Open };
                match mode {
                    0 => {
                        for &i in &live {
                            if rng.chance(1, 3) {
                                chosen.insert(sh.chans[i].get().unwrap().id);
                            }
                        }
                    }
                    1 if !live.is_empty() => label = Some(sh.chans[*rng.pick(&live)].get().unwrap().label),
                    _ => {}
                }
                let hit = |c: &ChanPub| match mode {
                    0 => chosen.contains(&c.id),
                    1 => Some(c.label) == label,
                    _ => (c.is_seal && dir == ChannelDirection::Seal) || (!c.is_seal && dir == ChannelDirection::Open),
                };
                let covered: Vec<usize> = live.iter().copied().filter(|&i| hit(sh.chans[i].get().unwrap())).collect();
                let mut bad_params: Option<String> = None;
                call = tick();
                let r = w.remove_if(|p: RemoveIfParams| {
                    match by_id.get(&p.local_channel_id).map(|&i| sh.chans[i].get().unwrap()) {
                        Some(c) => {
                            let d_ok = (p.direction == ChannelDirection::Seal) == c.is_seal;
                            if p.label_id != c.label || !d_ok {
                                bad_params = Some(format!("id {} label/direction differ from what was added", c.num));
                            }
                        }
                        None => bad_params = Some(format!("unknown id {}", id_u64(p.local_channel_id))),
                    }
                    match mode {
                        0 => chosen.contains(&p.local_channel_id),
                        1 => Some(p.label_id) == label,
                        _ => p.direction == dir,
                    }
                });
                ret = tick();
                if let Err(e) = r {
                    out.v42.push(("c42-remove_if-fails".into(), json!({"step": step, "err": format!("{e}")})));
                }
                if let Some(b) = bad_params {
                    out.v42.push(("c42-remove_if-sees-entry-the-writer-never-produced".into(), json!({"step": step, "what": b})));
                }
                for &i in &covered {
                    out.recs[i].rm_call = call;
                    out.recs[i].rm_ret = ret;
                    out.recs[i].rm_kind = kind;
                }
                live.retain(|i| !covered.contains(i));
            }
            3 => {
                // ---- remove_all -----------------------------------------------------------
                kind = "remove_all";
                n_rmall += 1;
                call = tick();
                let r = w.remove_all();
                ret = tick();
                if let Err(e) = r {
                    out.v42.push(("c42-remove_all-fails".into(), json!({"step": step, "err": format!("{e}")})));
                }
                for &i in &live {
                    out.recs[i].rm_call = call;
                    out.recs[i].rm_ret = ret;
                    out.recs[i].rm_kind = kind;
                }
                live.clear();
            }
            _ => {
                // ---- remove of an id that is not present: no effect ------------------------
                kind = "remove-missing";
                let dead: Vec<usize> = (0..out.recs.len()).filter(|i| out.recs[*i].rm_ret != NEVER).collect();
                if dead.is_empty() {
                    continue;
                }
                let id = sh.chans[*rng.pick(&dead)].get().unwrap().id;
                call = tick();
                let r = w.remove(id);
                ret = tick();
                if let Err(e) = r {
                    out.v42.push(("c42-remove-fails".into(), json!({"step": step, "err": format!("{e}")})));
                }
            }
        }
        max_live = max_live.max(live.len() as u64);
        let mut after: Vec<u64> = live.iter().map(|&i| sh.chans[i].get().unwrap().num).collect();
        after.sort_unstable();
        out.ops.push(WOp { kind, call, ret, after });

        // ---- quiescent point: no writer operation in progress ---------------------------
        if step % cfg.quiesce_every == 0 || step + 1 == cfg.writer_ops {
            n_quiesce += 1;
            let after = &out.ops.last().unwrap().after;
            let mut raw: [Vec<(usize, LocalChannelId, bool, LabelId, u64)>; 2] = [vec![], vec![]];
            let res = B::sides(&w, |side, _g, idx, id, d, l, fp| raw[side].push((idx, id, d == ChannelDirection::Seal, l, fp)));
            let mut unknown_entry = None;
            let sides: [Vec<(usize, u64, bool, LabelId, u64)>; 2] = raw.map(|s| s.into_iter().map(|(idx, id, is_seal, l, fp)| {
                let num = match by_id.get(&id).map(|&i| sh.chans[i].get().unwrap()) {
                    Some(c) => {
                        if c.is_seal != is_seal || c.label != l { unknown_entry = Some(c.num); }
                        c.num
                    }
                    None => { let n = id_u64(id); unknown_entry = Some(n); n }
                };
                (idx, num, is_seal, l, fp)
            }).collect());
            if let Some(n) = unknown_entry {
                out.v42.push(("c42-side-entry-differs-from-what-was-added".into(), json!({"step": step, "id": n})));
            }
            if let Some(r) = res {
                match r {
                    Err(e) => out.v42.push(("c42-verif_sides-fails".into(), json!({"step": step, "err": e}))),
                    Ok((gw, gr)) => {
                        if gw == gr { gens_equal += 1 } else { gens_differ += 1 }
                        let show = |s: &Vec<(usize, u64, bool, LabelId, u64)>| s.iter().map(|e| json!([e.0, e.1, e.2])).collect::<Vec<_>>();
                        if sides[0] != sides[1] {
                            out.v42.push(("c42-sides-differ-at-quiescent-point".into(), json!({"step": step, "after_op": kind, "write_side": show(&sides[0]), "read_side": show(&sides[1]), "model": after})));
                        }
                        for s in &sides {
                            let mut ids: Vec<u64> = s.iter().map(|e| e.1).collect();
                            ids.sort_unstable();
                            if &ids != after {
                                out.v42.push(("c42-side-differs-from-model-at-quiescent-point".into(), json!({"step": step, "after_op": kind, "side": show(s), "model": after})));
                            }
                        }
                    }
                }
            }
            // exists() on both views against the model: all live ids, some dead, one never issued.
            let mut probe: Vec<(LocalChannelId, u64, bool)> = live.iter().map(|&i| { let c = sh.chans[i].get().unwrap(); (c.id, c.num, true) }).collect();
            for _ in 0..8 {
                if !out.recs.is_empty() {
                    let i = rng.usize(out.recs.len());
                    if out.recs[i].rm_ret != NEVER {
                        let c = sh.chans[i].get().unwrap();
                        probe.push((c.id, c.num, false));
                    }
                }
            }
            for (id, num, want) in probe {
                let a = w.exists(id).map_err(|e| format!("{e}"));
                let b = AfcState::exists(&afc, id).map_err(|e| format!("{e:?}"));
                if a != Ok(want) {
                    out.v42.push(("c42-writer-exists-disagrees-with-model".into(), json!({"step": step, "id": num, "want": want, "got": format!("{a:?}")})));
                }
                if b != Ok(want) {
                    out.v42.push(("c42-reader-exists-disagrees-with-model".into(), json!({"step": step, "id": num, "want": want, "got": format!("{b:?}")})));
                }
            }
        }
        jitter(&mut rng, cfg.jitter);
    }
    sh.stop.store(true, Ordering::SeqCst);
    out.counters = vec![
        ("writer_adds", n_add),
        ("writer_out_of_space", n_full),
        ("writer_removes", n_rm),
        ("writer_remove_ifs", n_rmif),
        ("writer_remove_alls", n_rmall),
        ("quiescent_checks", n_quiesce),
        ("max_live_channels", max_live),
        ("quiescent_generations_equal", gens_equal),
        ("quiescent_generations_differ", gens_differ),
    ];
    out
}

fn history_reader<B: Backend>(cfg: &HistCfg, seed: u64, r: usize, afc: B::Afc, sh: &Shared) -> (Vec<ROp>, Vec<Snap>) {
    let mut rng = Rng::new(seed).fork(0x41_1000 + r as u64);
    let client = Client::new(afc);
    let mut ops: Vec<ROp> = Vec::with_capacity(cfg.reader_ops as usize + 16);
    let mut snaps: Vec<Snap> = vec![];
    // chan idx -> (context, already returned NotFound)
    let mut ctxs: HashMap<usize, (Ctx<B::Afc>, bool)> = HashMap::new();
    let mut order: Vec<usize> = vec![];
    let mut buf = vec![0u8; cfg.msg_len + 64];
    let mut idle = 0u64;
    let mut known: HashMap<LocalChannelId, usize> = HashMap::new();
    let mut owned: Vec<usize> = vec![];
    let mut seen_upto = 0usize;
    let mut paced = 0u64;
    while (ops.len() as u64) < cfg.reader_ops && !(sh.stop.load(Ordering::SeqCst) && idle > 2) {
        let p = sh.published.load(Ordering::Acquire);
        if p == 0 {
            std::thread::yield_now();
            idle += 1;
            if idle > 200_000 { break; }
            continue;
        }
        if sh.stop.load(Ordering::SeqCst) { idle += 1; }
        // Pace the reader so that its operation budget is spread over the whole writer run
        // (a pure throttle: it decides how many operations are issued, never a verdict).
        let allowed = cfg.reader_ops.saturating_mul(p as u64 + 1) / (cfg.writer_ops / 2).max(1);
        if ops.len() as u64 > allowed && !sh.stop.load(Ordering::SeqCst) {
            paced += 1;
            if paced % 64 == 0 { std::thread::yield_now() } else { std::hint::spin_loop() }
            continue;
        }
        while seen_upto < p {
            let c = sh.chans[seen_upto].get().unwrap();
            known.insert(c.id, seen_upto);
            if c.owner == r { owned.push(seen_upto); }
            seen_upto += 1;
        }
        jitter(&mut rng, cfg.jitter / 2);
        // Hook H3: snapshot of the list readers consult.
        if rng.chance(1, 6) {
            let mut raw: Vec<(LocalChannelId, bool, LabelId)> = Vec::with_capacity(cfg.cap + 1);
            let call = tick();
            let res = B::snapshot(client.state(), |_idx, id, d, l| raw.push((id, d == ChannelDirection::Seal, l)));
            let ret = tick();
            let mut ids = vec![];
            let mut bad = None;
            for (id, is_seal, l) in raw {
                match known.get(&id).map(|&i| sh.chans[i].get().unwrap()) {
                    Some(c) => {
                        ids.push(c.num);
                        if c.label != l || c.is_seal != is_seal {
                            bad = Some(format!("id {} holds another label/direction than was added", c.num));
                        }
                    }
                    // Not yet published to this reader (its add had not returned when the loop
                    // began); the id set is still checked against the writer's states.
                    None => ids.push(id_u64(id)),
                }
            }
            if let Some(res) = res {
                match res {
                    Ok((side, generation)) => {
                        ids.sort_unstable();
                        snaps.push(Snap { reader: r, call, ret, generation, side, ids, bad_entry: bad });
                    }
                    Err(e) => snaps.push(Snap { reader: r, call, ret, generation: 0, side: 0, ids, bad_entry: Some(format!("verif_snapshot failed: {e}")) }),
                }
            }
        }
        let idx = if !owned.is_empty() && rng.chance(7, 10) {
            // Mostly the channels this reader owns: recent ones and ones it holds contexts for.
            if rng.chance(2, 3) || order.is_empty() { owned[owned.len() - 1 - rng.usize(owned.len().min(5))] } else { *rng.pick(&order) }
        } else if rng.chance(3, 5) {
            p - 1 - rng.usize(p.min(8))
        } else {
            rng.usize(p)
        };
        let c = sh.chans[idx].get().unwrap();
        let mine = c.owner == r;
        let has = ctxs.contains_key(&idx);
        let act = if !mine { 0 } else if has { rng.weighted(&[20, 0, 72, 8]) } else { rng.weighted(&[20, 80, 0, 0]) };
        match act {
            0 => {
                let call = tick();
                let res = AfcState::exists(client.state(), c.id);
                let ret = tick();
                let out = match res { Ok(true) => Out::Ok, Ok(false) => Out::NotFound, Err(e) => Out::Other(err_kind(&e)) };
                ops.push(ROp { reader: r, chan: idx, kind: RKind::Exists, call, ret, out, ctx_dead: false });
            }
            1 => {
                let call = tick();
                let (kind, out) = if c.is_seal {
                    let res = client.setup_seal_ctx(c.id);
                    let o = out_of(&res);
                    if let Ok(x) = res { ctxs.insert(idx, (Ctx::Seal(x), false)); order.push(idx); }
                    (RKind::SetupSeal, o)
                } else {
                    let res = client.setup_open_ctx(c.id);
                    let o = out_of(&res);
                    if let Ok(x) = res { ctxs.insert(idx, (Ctx::Open(x), false)); order.push(idx); }
                    (RKind::SetupOpen, o)
                };
                let ret = tick();
                ops.push(ROp { reader: r, chan: idx, kind, call, ret, out, ctx_dead: false });
            }
            2 => {
                let (ctx, dead) = ctxs.get_mut(&idx).unwrap();
                let was_dead = *dead;
                let (kind, call, ret, out) = match ctx {
                    Ctx::Seal(s) => {
                        let n = rng.usize(cfg.msg_len + 1);
                        let pt = rng.bytes(n);
                        let call = tick();
                        let res = client.seal(s, &mut buf, &pt);
                        let ret = tick();
                        (RKind::Seal, call, ret, out_of(&res))
                    }
                    Ctx::Open(o) => {
                        let (ct, pt, seq) = rng.pick(&c.msgs);
                        let call = tick();
                        let res = client.open(o, &mut buf, ct);
                        let ret = tick();
                        let mut out = out_of(&res);
                        if let Ok((l, s)) = res {
                            if l != c.label || s.to_u64() != *seq || &buf[..pt.len()] != &pt[..] { out = Out::WrongData; }
                        }
                        (RKind::Open, call, ret, out)
                    }
                };
                if out == Out::NotFound || matches!(out, Out::Other(_)) {
                    *dead = true;
                    if rng.bool() { ctxs.remove(&idx); }
                }
                ops.push(ROp { reader: r, chan: idx, kind, call, ret, out, ctx_dead: was_dead });
            }
            _ => { ctxs.remove(&idx); }
        }
        if ctxs.len() > 48 {
            let victim = order.remove(0);
            ctxs.remove(&victim);
        }
        order.retain(|i| ctxs.contains_key(i));
    }
    (ops, snaps)
}

fn run_history<B: Backend>(args: &Args, m41: &mut Monitor, m42: &mut Monitor, label: &str) {
    let miri = is_miri(args);
    let cfg = HistCfg {
        readers: if miri { 2 } else { args.get_u64("readers", 6) as usize },
        writer_ops: if miri { args.n(1600, 4000) } else { args.n(90_000, 500_000) },
        reader_ops: if miri { args.n(4000, 10_000) } else { args.n(500_000, 2_500_000) },
        cap: if miri { 4 } else { args.get_u64("cap", 12) as usize },
        jitter: args.get_u64("jitter", if miri { 2 } else { 3 }),
        quiesce_every: if miri { 5 } else { 16 },
        msg_len: if miri { 8 } else { 48 },
    };
    let mut env = B::create(&format!("hist{}", args.seed), cfg.cap, args.seed);
    let hard_cap = env.capacity();
    let w = env.writer();
    let sh = Shared {
        chans: (0..cfg.writer_ops as usize + 1).map(|_| OnceLock::new()).collect(),
        published: AtomicUsize::new(0),
        stop: AtomicBool::new(false),
    };
    let wafc = env.reader();
    let views: Vec<B::Afc> = (0..cfg.readers).map(|_| env.reader()).collect();
    let seed = args.seed;
    let (wout, routs) = std::thread::scope(|s| {
        let (cfg, sh) = (&cfg, &sh);
        let wh = s.spawn(move || guarded(|| sh.stop.store(true, Ordering::SeqCst), || history_writer::<B>(cfg, seed, w, wafc, sh, hard_cap)));
        let rhs: Vec<_> = views.into_iter().enumerate().map(|(r, v)| s.spawn(move || guarded(|| (), || history_reader::<B>(cfg, seed, r, v, sh)))).collect();
        let wout = wh.join().expect("writer thread");
        let routs: Vec<_> = rhs.into_iter().map(|h| h.join().expect("reader thread")).collect();
        (wout, routs)
    });
    drop(env);
    let mut routs_ok = vec![];
    for r in routs {
        match r {
            Ok(x) => routs_ok.push(x),
            Err(p) => {
                report_panic(m41, "c41", "reader", label, &p);
                report_panic(m42, "c42", "reader", label, &p);
            }
        }
    }
    let routs = routs_ok;
    let wout = match wout {
        Ok(w) => w,
        Err(p) => {
            report_panic(m41, "c41", "writer", label, &p);
            report_panic(m42, "c42", "writer", label, &p);
            return;
        }
    };

    // ---- C41: removal takes effect ----------------------------------------------------------
    let chan_num = |i: usize| sh.chans[i].get().map(|c| c.num).unwrap_or(u64::MAX);
    for (rops, _) in &routs {
        for op in rops {
            let rec = wout.recs[op.chan];
            m41.eval();
            let detail = || json!({"backend": label, "reader": op.reader, "channel_id": chan_num(op.chan), "op": format!("{:?}", op.kind), "call": op.call, "ret": op.ret, "outcome": format!("{:?}", op.out),
                "add_returned_at": rec.add_ret, "removal": rec.rm_kind, "removal_called_at": rec.rm_call, "removal_returned_at": rec.rm_ret, "context_had_already_returned_notfound": op.ctx_dead,
                "note": "schedule-dependent: replay re-runs the seeded workload"});
            if op.out == Out::WrongData {
                m41.violation("c41-open-succeeds-with-wrong-data", detail());
            }
            if op.call > rec.rm_ret {
                m41.count("checked_after_removal_returned", 1);
                m41.nontrivial(hash_of(&("after", op.kind, op.out, rec.rm_kind, op.ctx_dead, label)));
                match op.out {
                    Out::NotFound => m41.count(&format!("after_removal_{}", rec.rm_kind), 1),
                    Out::Ok | Out::WrongData => m41.violation(&format!("c41-{:?}-succeeds-after-removal-returned", op.kind), detail()),
                    Out::Other(k) => m41.violation(&format!("c41-{:?}-after-removal-fails-with-{k}-instead-of-NotFound", op.kind), detail()),
                }
            } else if op.ret < rec.rm_call {
                // add returned before the call (ids are only published after add returns).
                m41.count("checked_on_live_channel", 1);
                m41.nontrivial(hash_of(&("live", op.kind, op.out, label)));
                if op.out != Out::Ok {
                    m41.violation(&format!("c41-{:?}-fails-on-channel-that-was-not-removed", op.kind), detail());
                }
            } else {
                m41.count("overlapping_a_removal", 1);
                m41.count(if op.out == Out::Ok { "overlap_saw_channel" } else { "overlap_saw_removed" }, 1);
                m41.nontrivial(hash_of(&("overlap", op.kind, op.out, rec.rm_kind, label)));
            }
        }
    }
    m41.count(&format!("reader_ops_{label}"), routs.iter().map(|r| r.0.len() as u64).sum());
    m41.count(&format!("writer_ops_{label}"), wout.ops.len() as u64);
    for (k, v) in &wout.counters {
        if k.starts_with("writer_") { m41.count(k, *v); }
    }
    m41.sample(|| {
        let ex: Vec<Value> = routs.iter().flat_map(|r| r.0.iter()).filter(|o| o.call <= wout.recs[o.chan].rm_ret && o.ret >= wout.recs[o.chan].rm_call).take(3)
            .map(|o| json!({"reader": o.reader, "channel_id": chan_num(o.chan), "op": format!("{:?}", o.kind), "call": o.call, "ret": o.ret, "outcome": format!("{:?}", o.out), "removal_call": wout.recs[o.chan].rm_call, "removal_ret": wout.recs[o.chan].rm_ret})).collect();
        json!({"backend": label, "ops_overlapping_a_removal_of_their_channel": ex})
    });

    // ---- C42: tables stay consistent (needs hook H3; shm only) ----------------------------
    for (sig, d) in wout.v42 {
        let mut d = d;
        d["backend"] = json!(label);
        m42.violation(&sig, d);
    }
    for (k, v) in &wout.counters {
        if k.starts_with("max_") { m42.max(k, *v) } else { m42.count(k, *v) }
    }
    m42.evals(wout.ops.len() as u64);
    let rets: Vec<u64> = wout.ops.iter().map(|o| o.ret).collect();
    let calls: Vec<u64> = wout.ops.iter().map(|o| o.call).collect();
    let empty: Vec<u64> = vec![];
    // State index j: 0 = initial empty table, j = after writer op j-1.
    let state = |j: usize| if j == 0 { &empty } else { &wout.ops[j - 1].after };
    let mut sides_seen: HashSet<usize> = HashSet::new();
    for (_, snaps) in &routs {
        let mut last_gen: Option<u32> = None;
        for sn in snaps {
            m42.eval();
            m42.count("snapshots", 1);
            sides_seen.insert(sn.side);
            if let Some(b) = &sn.bad_entry {
                m42.violation("c42-snapshot-entry-differs-from-what-was-added", json!({"backend": label, "what": b, "ids": sn.ids}));
            }
            // lo: last op completed before the snapshot was called; hi: last op started before it returned.
            let lo = rets.partition_point(|&t| t < sn.call);
            let hi = calls.partition_point(|&t| t < sn.ret);
            let hit = (lo..=hi.max(lo)).find(|&j| state(j) == &sn.ids);
            if hi > lo {
                m42.count("snapshots_overlapping_a_writer_op", 1);
                if let Some(j) = hit {
                    m42.count(if j == lo { "overlap_snapshot_saw_old_state" } else { "overlap_snapshot_saw_new_state" }, 1);
                }
            }
            if let Some(g) = last_gen {
                if sn.generation < g { m42.count("generation_went_backwards_between_snapshots", 1); }
            }
            last_gen = Some(sn.generation);
            m42.nontrivial(hash_of(&(sn.ids.len(), hi - lo, hit.map(|j| j - lo), wout.ops.get(lo).map(|o| o.kind))));
            if hit.is_none() {
                m42.violation("c42-snapshot-is-no-state-the-writer-produced", json!({"backend": label, "reader": sn.reader, "snapshot_ids": sn.ids, "generation": sn.generation, "call": sn.call, "ret": sn.ret,
                    "candidates": (lo..=hi.max(lo)).map(|j| json!({"state_index": j, "ids": state(j), "op": if j == 0 { "initial" } else { wout.ops[j - 1].kind }})).collect::<Vec<_>>(),
                    "note": "schedule-dependent: replay re-runs the seeded workload"}));
            }
        }
    }
    m42.max("max_reader_mapping_side_pairs_seen", sides_seen.len() as u64);
    m42.sample(|| json!({"backend": label, "writer_ops": wout.ops.iter().take(4).map(|o| json!({"op": o.kind, "call": o.call, "ret": o.ret, "ids_after": o.after})).collect::<Vec<_>>(),
        "snapshot": routs.iter().flat_map(|r| r.1.iter()).find(|s| !s.ids.is_empty()).map(|s| json!({"call": s.call, "ret": s.ret, "generation": s.generation, "ids": s.ids}))}));
}

// ===========================================================================
// C40: sequence numbers within one seal context
// ===========================================================================

fn run_seq<B: Backend>(args: &Args, m: &mut Monitor, label: &str) {
    let miri = is_miri(args);
    let readers = if miri { 2 } else { args.get_u64("readers", 6) as usize };
    let seals = if miri { args.n(3000, 8000) } else { args.n(600_000, 10_000_000) };
    let cap = 20usize;
    let seed = args.seed;
    let mut env = B::create(&format!("seq{seed}"), cap, seed);
    let w = env.writer();
    let krng = DetRng::new(mix2(seed, 0x40));
    // Four ballast channels sit in front of the readers' channels: removing one of them while no
    // churn channel exists moves a reader's (then last) channel into the freed slot, so live seal
    // contexts also see their channel change its index.
    let ballast0: Vec<LocalChannelId> = (0..4).map(|_| add_open::<B>(&w, &Pair::<B::CS>::new(&krng)).expect("add ballast")).collect();
    let pairs: Vec<Pair<B::CS>> = (0..readers).map(|_| Pair::new(&krng)).collect();
    let chans: Vec<(LocalChannelId, LocalChannelId)> = pairs.iter().map(|p| (add_seal::<B>(&w, p).expect("add seal"), add_open::<B>(&w, p).expect("add open"))).collect();
    let moved = AtomicU64::new(0);
    let wops = AtomicU64::new(0);
    let done = AtomicUsize::new(0);
    let views: Vec<B::Afc> = (0..readers).map(|_| env.reader()).collect();
    let msg_len = if miri { 8 } else { 64 };

    struct ROut { ok: u64, failed: [u64; 4], after_invalidation: u64, second_ctx_refused: u64, second_ctx_granted: u64, opened: u64, viol: Vec<(String, Value)> }

    let (wcount, routs) = std::thread::scope(|s| {
        let (wops, done, chans, moved) = (&wops, &done, &chans, &moved);
        let mut ballast = ballast0.clone();
        // Writer: churn OTHER channels so every reader's cached key is invalidated again and again.
        let wh = s.spawn(move || guarded(|| (), || {
            let mut rng = Rng::new(seed).fork(0x40_0001);
            let krng = DetRng::new(mix2(seed, 0x40_0002));
            let mut mine: Vec<LocalChannelId> = vec![];
            let mut n = 0u64;
            let mut errs = vec![];
            while done.load(Ordering::SeqCst) < readers {
                let room = cap - 2 * readers - 4;
                // spaced out, so that the readers have sealed in between (a context that has not
                // sealed yet cannot show a restarted sequence)
                let due = n > 1500 * (5 - ballast.len() as u64);
                if mine.is_empty() && !ballast.is_empty() && due && rng.chance(1, 3) {
                    // the last list entry is a reader's channel now: it moves into the ballast slot
                    let id = ballast.swap_remove(rng.usize(ballast.len()));
                    if let Err(e) = w.remove(id) { errs.push(format!("remove ballast: {e}")); }
                    moved.fetch_add(1, Ordering::Relaxed);
                } else if mine.len() < room && (mine.is_empty() || rng.chance(3, 5)) {
                    let p = Pair::<B::CS>::new(&krng);
                    match if rng.bool() { add_seal::<B>(&w, &p) } else { add_open::<B>(&w, &p) } {
                        Ok(id) => mine.push(id),
                        Err(e) => errs.push(format!("add: {e}")),
                    }
                } else if rng.chance(1, 6) {
                    let set: HashSet<LocalChannelId> = mine.drain(..).collect();
                    if let Err(e) = w.remove_if(|p| set.contains(&p.local_channel_id)) { errs.push(format!("remove_if: {e}")); }
                } else {
                    let id = mine.swap_remove(rng.usize(mine.len()));
                    if let Err(e) = w.remove(id) { errs.push(format!("remove: {e}")); }
                }
                n += 1;
                wops.store(n, Ordering::Relaxed);
                jitter(&mut rng, if miri { 2 } else { 4 });
                if n > 50_000_000 { break; }
            }
            (n, errs)
        }));
        let rhs: Vec<_> = views.into_iter().enumerate().map(|(r, afc)| s.spawn(move || guarded(|| { done.fetch_add(1, Ordering::SeqCst); }, || {
            let mut rng = Rng::new(seed).fork(0x40_1000 + r as u64);
            let client = Client::new(afc);
            let mut out = ROut { ok: 0, failed: [0; 4], after_invalidation: 0, second_ctx_refused: 0, second_ctx_granted: 0, opened: 0, viol: vec![] };
            let (sid, oid) = chans[r];
            let mut sctx = client.setup_seal_ctx(sid).expect("setup_seal_ctx");
            let mut octx = client.setup_open_ctx(oid).expect("setup_open_ctx");
            let ovh = Client::<B::Afc>::OVERHEAD;
            let mut dst = vec![0u8; msg_len + ovh];
            let mut pt_out = vec![0u8; msg_len];
            let mut expect = 0u64;
            let mut last_w = 0u64;
            let mut history: Vec<(u64, &'static str)> = vec![];
            for i in 0..seals {
                let n = rng.usize(msg_len + 1);
                let pt = rng.bytes(n);
                let wnow = wops.load(Ordering::Relaxed);
                let invalidated = wnow != last_w;
                last_w = wnow;
                let case = |what: &str, expect: u64, hist: &Vec<(u64, &'static str)>| json!({"backend": label, "reader": r, "iteration": i, "what": what, "expected_seq": expect, "recent": hist.iter().rev().take(12).map(|(s, k)| json!([s, k])).collect::<Vec<_>>(), "note": "schedule-dependent: replay re-runs the seeded workload"});
                // Injected failing seals; none may consume a sequence number.
                let inject = rng.below(100);
                if inject < 12 {
                    let kind = inject % 4;
                    let res: Result<(), AfcError> = match kind {
                        0 => { let cut = rng.usize(n + ovh); client.seal(&mut sctx, &mut dst[..cut], &pt).map(|_| ()) }
                        1 => {
                            let mut backing = vec![0u8; n + rng.usize(ovh)];
                            backing[..n].copy_from_slice(&pt);
                            let mut fb = FixedBuf::from_slice_mut(&mut backing, n).expect("FixedBuf");
                            client.seal_in_place(&mut sctx, &mut fb).map(|_| ())
                        }
                        2 => AfcState::seal(client.state(), &mut sctx, |_k, _l| Err::<(), _>(AfcError::InputTooLarge)).and_then(|x| x),
                        _ => AfcState::seal(client.state(), &mut sctx, |k, l| {
                            // The AEAD itself rejects an output buffer that is too small.
                            let mut small = vec![0u8; n + SealKey::<B::CS>::OVERHEAD - 1];
                            k.seal(&mut small, &pt, &AuthData { version: 0x6f54, label_id: l }).map(|_| ()).map_err(Into::into)
                        }).and_then(|x| x),
                    };
                    out.failed[kind as usize] += 1;
                    history.push((expect, ["fail:dst-too-small", "fail:buf-cannot-grow", "fail:closure-error", "fail:aead-dst-too-small"][kind as usize]));
                    if res.is_ok() {
                        out.viol.push(("c40-injected-failing-seal-succeeded".into(), case(&format!("failure kind {kind}"), expect, &history)));
                    }
                    continue;
                }
                let in_place = rng.chance(1, 4);
                let (res, ct): (Result<_, AfcError>, Vec<u8>) = if in_place {
                    let mut data = pt.clone();
                    let r = client.seal_in_place(&mut sctx, &mut data);
                    (r.map(|_| ()), data)
                } else {
                    let r = client.seal(&mut sctx, &mut dst, &pt);
                    (r.map(|_| ()), dst[..n + ovh].to_vec())
                };
                match res {
                    Err(e) => out.viol.push(("c40-seal-fails-on-live-channel".into(), case(&format!("{e:?}"), expect, &history))),
                    Ok(()) => {
                        out.ok += 1;
                        if invalidated { out.after_invalidation += 1; }
                        let got = trailer_seq(&ct);
                        history.push((got.unwrap_or(u64::MAX), if invalidated { "ok(after-table-change)" } else { "ok" }));
                        if got != Some(expect) {
                            let sig = match got { Some(g) if g < expect => "c40-sequence-number-repeated", Some(_) => "c40-sequence-number-gap", None => "c40-no-trailer" };
                            out.viol.push((sig.into(), case(&format!("got {got:?}"), expect, &history)));
                            expect = got.map_or(expect, |g| g);
                        }
                        expect += 1;
                        if i % 7 == 0 {
                            // The receiving end reports the same sequence number.
                            match client.open(&mut octx, &mut pt_out, &ct) {
                                Ok((_, s)) => {
                                    out.opened += 1;
                                    if Some(s.to_u64()) != got || pt_out[..n] != pt[..] {
                                        out.viol.push(("c40-open-reports-other-seq-or-data".into(), case(&format!("open seq {}", s.to_u64()), expect, &history)));
                                    }
                                }
                                Err(e) => out.viol.push(("c40-open-rejects-sealed-message".into(), case(&format!("{e:?}"), expect, &history))),
                            }
                        }
                    }
                }
                if history.len() > 64 { history.drain(..32); }
                // A second live seal context for the same channel.
                if i % 97 == 0 {
                    match client.setup_seal_ctx(sid) {
                        Err(_) => out.second_ctx_refused += 1,
                        Ok(_second) => {
                            out.second_ctx_granted += 1;
                            if B::SECOND_CTX_REFUSED {
                                out.viol.push(("c40-second-live-seal-context-handed-out".into(), case("setup_seal_ctx returned Ok while a context is live", expect, &history)));
                            }
                        }
                    }
                }
            }
            done.fetch_add(1, Ordering::SeqCst);
            out
        }))).collect();
        let routs: Vec<Result<ROut, PanicInfo>> = rhs.into_iter().map(|h| h.join().expect("reader")).collect();
        (wh.join().expect("writer"), routs)
    });
    let (wn, werrs) = match wcount {
        Ok(x) => x,
        Err(p) => {
            report_panic(m, "c40", "writer", label, &p);
            (0, vec![])
        }
    };
    let routs: Vec<ROut> = routs.into_iter().filter_map(|r| r.map_err(|p| report_panic(m, "c40", "reader", label, &p)).ok()).collect();
    for e in werrs.iter().take(2) {
        m.inconclusive(&format!("writer churn operation failed: {e}"));
    }
    m.count(&format!("writer_table_changes_{label}"), wn);
    m.count("removals_that_move_a_sealing_channel_to_another_slot", moved.load(Ordering::Relaxed));
    for (r, o) in routs.into_iter().enumerate() {
        m.evals(o.ok + o.failed.iter().sum::<u64>());
        m.count("successful_seals", o.ok);
        m.count("seals_after_table_change", o.after_invalidation);
        m.count("failed_seals_dst_too_small", o.failed[0]);
        m.count("failed_seals_buffer_cannot_grow", o.failed[1]);
        m.count("failed_seals_closure_error", o.failed[2]);
        m.count("failed_seals_aead_error", o.failed[3]);
        m.count("opened_and_compared", o.opened);
        m.count("second_ctx_refused", o.second_ctx_refused);
        m.count("second_ctx_granted_by_shm_state", if B::SECOND_CTX_REFUSED { 0 } else { o.second_ctx_granted });
        // distinct = (backend, reader, log2 bucket of seals after invalidation, failure kinds seen)
        m.nontrivial(hash_of(&(label, r, 64 - o.after_invalidation.leading_zeros(), o.failed.map(|x| x > 0))));
        if o.after_invalidation > 0 { m.nontrivial(hash_of(&(label, r, "invalidated"))); }
        for (sig, d) in o.viol { m.violation(&sig, d); }
    }
    m.sample(|| json!({"backend": label, "readers": readers, "seals_per_reader": seals, "writer_table_changes": wn}));
}

// ===========================================================================
// C44: loans are exclusive and freed exactly once (in-memory state)
// ===========================================================================

struct LoanChan {
    id: LocalChannelId,
    num: u64,
    live_ctx: AtomicU32,
    /// Stamp taken after a removal covering this channel returned (0 = none yet).
    removed_ret: AtomicU64,
    next_seq: AtomicU64,
}

fn run_loans<CS: CipherSuite + 'static>(args: &Args, m: &mut Monitor, round: &str) -> (u64, u64)
where
    memory::State<CS>: Send + Sync,
{
    let miri = is_miri(args);
    let threads = if miri { 3 } else { args.get_u64("threads", 6) as usize };
    let ops = if miri { args.n(3000, 8000) } else { args.n(500_000, 4_000_000) };
    let slots_n = if miri { 2 } else { 4 };
    let seed = args.seed;
    let total = (threads as u64 * ops / 4 + 64) as usize;
    let state = memory::State::<CS>::new();
    let chans: Vec<OnceLock<LoanChan>> = (0..total).map(|_| OnceLock::new()).collect();
    let next = AtomicUsize::new(0);
    let slots: Vec<AtomicUsize> = (0..slots_n).map(|_| AtomicUsize::new(usize::MAX)).collect();
    let add = |krng: &DetRng| -> Option<usize> {
        let idx = next.fetch_add(1, Ordering::SeqCst);
        if idx >= total { return None; }
        let p = Pair::<CS>::new(krng);
        let id = state.add(Directed::SealOnly { seal: SealKey::from_raw(&p.seal, Seq::ZERO).expect("from_raw") }, p.label, p.peer).expect("add");
        let _ = chans[idx].set(LoanChan { id, num: id_u64(id), live_ctx: AtomicU32::new(0), removed_ret: AtomicU64::new(0), next_seq: AtomicU64::new(0) });
        Some(idx)
    };
    {
        let krng = DetRng::new(mix2(seed, 0x44));
        for s in &slots { s.store(add(&krng).unwrap(), Ordering::SeqCst); }
    }
    struct TOut { viol: Vec<(String, Value)>, c: HashMap<&'static str, u64> }
    let outs: Vec<Result<TOut, PanicInfo>> = std::thread::scope(|s| {
        let (state, chans, slots, add) = (&state, &chans, &slots, &add);
        let hs: Vec<_> = (0..threads).map(|t| s.spawn(move || guarded(|| (), || {
            let mut rng = Rng::new(seed).fork(0x44_1000 + t as u64);
            let krng = DetRng::new(mix2(seed, 0x44_2000 + t as u64));
            let client = Client::new(state.clone());
            let mut out = TOut { viol: vec![], c: HashMap::new() };
            let mut held: HashMap<usize, <memory::State<CS> as AfcState>::SealCtx> = HashMap::new();
            let mut dst = vec![0u8; 16 + Client::<memory::State<CS>>::OVERHEAD];
            let bump = |out: &mut TOut, k: &'static str| *out.c.entry(k).or_insert(0) += 1;
            for i in 0..ops {
                let slot = rng.usize(slots.len());
                let cur = slots[slot].load(Ordering::SeqCst);
                let note = "schedule-dependent: replay re-runs the seeded workload";
                match rng.weighted(&[22, 45, 10, 9, 2, 1, 11]) {
                    0 => {
                        // lend
                        let c = chans[cur].get().unwrap();
                        let already = held.contains_key(&cur);
                        match client.setup_seal_ctx(c.id) {
                            Ok(ctx) => {
                                let prev = c.live_ctx.fetch_add(1, Ordering::SeqCst);
                                if prev != 0 || already {
                                    out.viol.push(("c44-two-live-contexts-for-one-channel".into(), json!({"thread": t, "op": i, "channel_id": c.num, "live_before": prev, "same_thread_already_held_one": already, "note": note})));
                                }
                                bump(&mut out, "lend_ok");
                                if already {
                                    c.live_ctx.fetch_sub(1, Ordering::SeqCst);
                                    drop(ctx);
                                } else {
                                    held.insert(cur, ctx);
                                }
                            }
                            Err(_) => bump(&mut out, if already { "lend_refused_own_loan_live" } else { "lend_refused" }),
                        }
                    }
                    1 => {
                        // access through a held loan (possibly of a channel removed meanwhile)
                        let Some(&k) = held.keys().nth(rng.usize(held.len().max(1))) else { continue };
                        let c = chans[k].get().unwrap();
                        let ctx = held.get_mut(&k).unwrap();
                        let call = tick();
                        let r = client.seal(ctx, &mut dst, b"0123456789abcdef");
                        match r {
                            Ok(_) => {
                                bump(&mut out, "seal_ok");
                                let want = c.next_seq.fetch_add(1, Ordering::SeqCst);
                                let got = trailer_seq(&dst);
                                if got != Some(want) {
                                    out.viol.push(("c44-sequence-number-reused-across-loans".into(), json!({"thread": t, "op": i, "channel_id": c.num, "got": got, "want": want, "note": note})));
                                }
                                let rm = c.removed_ret.load(Ordering::SeqCst);
                                if rm != 0 && rm < call {
                                    out.viol.push(("c44-loan-still-has-access-after-remove-returned".into(), json!({"thread": t, "op": i, "channel_id": c.num, "remove_returned_at": rm, "seal_called_at": call, "note": note})));
                                }
                            }
                            Err(AfcError::NotFound(_)) => {
                                bump(&mut out, "seal_notfound_after_revocation");
                                if rng.bool() {
                                    c.live_ctx.fetch_sub(1, Ordering::SeqCst);
                                    held.remove(&k);
                                }
                            }
                            Err(e) => out.viol.push(("c44-seal-unexpected-error".into(), json!({"thread": t, "op": i, "channel_id": c.num, "err": format!("{e:?}")}))),
                        }
                    }
                    2 => {
                        // loan drop
                        let Some(&k) = held.keys().nth(rng.usize(held.len().max(1))) else { continue };
                        chans[k].get().unwrap().live_ctx.fetch_sub(1, Ordering::SeqCst);
                        drop(held.remove(&k));
                        bump(&mut out, "loan_dropped");
                    }
                    3 => {
                        // lender drop: remove(id)
                        let c = chans[cur].get().unwrap();
                        state.remove(c.id).expect("remove");
                        let _ = c.removed_ret.compare_exchange(0, tick(), Ordering::SeqCst, Ordering::SeqCst);
                        bump(&mut out, "remove");
                    }
                    4 => {
                        // lender drop: remove_if over one slot's current channel
                        let c = chans[cur].get().unwrap();
                        let id = c.id;
                        state.remove_if(|p| p.local_channel_id == id).expect("remove_if");
                        let _ = c.removed_ret.compare_exchange(0, tick(), Ordering::SeqCst, Ordering::SeqCst);
                        bump(&mut out, "remove_if");
                    }
                    5 => {
                        // lender drop: remove_all covers every channel whose add had returned before the call
                        let upto: Vec<usize> = slots.iter().map(|s| s.load(Ordering::SeqCst)).collect();
                        state.remove_all().expect("remove_all");
                        let t_ret = tick();
                        for k in upto {
                            let _ = chans[k].get().unwrap().removed_ret.compare_exchange(0, t_ret, Ordering::SeqCst, Ordering::SeqCst);
                        }
                        bump(&mut out, "remove_all");
                    }
                    _ => {
                        // re-add: a fresh channel takes over the slot
                        if let Some(idx) = add(&krng) {
                            slots[slot].store(idx, Ordering::SeqCst);
                            bump(&mut out, "re_add");
                        }
                    }
                }
                if miri && i % 3 == 0 { std::thread::yield_now(); }
            }
            // Drop the remaining loans in random order (some before, some after their lender).
            let mut rest: Vec<usize> = held.keys().copied().collect();
            rng.shuffle(&mut rest);
            for k in rest {
                chans[k].get().unwrap().live_ctx.fetch_sub(1, Ordering::SeqCst);
                drop(held.remove(&k));
                bump(&mut out, "loan_dropped_at_end");
            }
            out
        }))).collect();
        hs.into_iter().map(|h| h.join().expect("loan thread")).collect::<Vec<Result<TOut, PanicInfo>>>()
    });
    let outs: Vec<TOut> = outs.into_iter().filter_map(|r| r.map_err(|p| report_panic(m, "c44", "worker", round, &p)).ok()).collect();
    let mut evals = 0;
    let mut distinct = 0;
    for (t, o) in outs.into_iter().enumerate() {
        for (sig, d) in o.viol { m.violation(&sig, d); }
        for (k, v) in &o.c {
            m.count(k, *v);
            evals += *v;
            m.nontrivial(hash_of(&(round, t, *k, 64 - v.leading_zeros())));
            distinct += 1;
        }
    }
    m.evals(evals);
    drop(state);
    (evals, distinct)
}

fn c44<CS: CipherSuite + 'static>(args: &Args, m: &mut Monitor)
where
    memory::State<CS>: Send + Sync,
{
    // Warm-up round so lazily initialised runtime structures are not mistaken for leaks.
    let mut warm = m.worker();
    let mut wargs = args.clone();
    wargs.scale = (args.scale / 20).max(1);
    run_loans::<CS>(&wargs, &mut warm, "warmup");
    let (b0, y0) = (live_blocks(), live_bytes());
    let a0 = total_allocs();
    run_loans::<CS>(args, m, "main");
    let (b1, y1) = (live_blocks(), live_bytes());
    {
        // one actual case: the operation mix this round executed (summed over its threads)
        let ops: std::collections::BTreeMap<String, u64> = m.counters.iter().map(|(k, v)| (k.clone(), *v)).collect();
        m.sample(|| json!({"round": "main", "workload": "threads race lend/seal/loan-drop/remove/re-add on the in-memory state", "operation_counts": ops}));
    }
    m.count("allocations_during_round", total_allocs() - a0);
    // The monitor's own counters/sets allocate; measure them by the same yardstick.
    let own = m.counters.len() as i64 + m.distinct.len() as i64;
    m.count("live_blocks_delta_after_round", (b1 - b0).unsigned_abs());
    if b1 - b0 > own + 64 {
        m.violation("c44-allocations-not-returned-after-all-handles-dropped", json!({"live_blocks_before": b0, "live_blocks_after": b1, "live_bytes_before": y0, "live_bytes_after": y1, "monitor_own_allocations_upper_bound": own + 64}));
    }
}

// ===========================================================================

fn main() -> ExitCode {
    let mut args = Args::parse();
    if let Some(r) = args.replay_case() {
        // Interleavings cannot be replayed exactly; re-run the seeded workload of that run.
        if let Some(s) = r["seed"].as_u64() { args.seed = s; }
        if let Some(t) = r["tier"].as_str() { args.tier = if t == "thorough" { Tier::Thorough } else { Tier::Quick }; }
        args.replay = None;
        eprintln!("note: schedule-dependent finding; re-running the seeded workload (seed {})", args.seed);
    }
    let miri = is_miri(&args);
    // Natively a double free / use-after-free in the code under test aborts the process, which
    // no in-process capture survives: run the workload in a child and judge its exit status.
    if !miri && args.get("child").is_none() {
        return supervise(&args, &["C40", "C41", "C42", "C44"]);
    }
    let backend = args.get("backend").unwrap_or(if miri || args.engine == "tsan" { "mem" } else { "both" }).to_string();
    let use_noop = args.get("cs").map(|c| c == "noop").unwrap_or(miri);
    let want_b = |b: &str| backend == "both" || backend == b;

    let m40 = Monitor::new("C40", "R reader threads each seal continuously on their own context while a writer adds/removes other channels (every change invalidates the cached key); 12% injected failing seals of 4 kinds; every successful seal's trailer sequence number is compared with the per-context count; non-trivial = distinct (backend, reader, magnitude of seals that followed a table change, failure kinds hit)")
        .min(4)
        .require("seals_after_table_change", "seals that had to re-validate / re-derive the key after a writer change")
        .require("failed_seals_dst_too_small", "injected failures")
        .require("failed_seals_aead_error", "failures inside the AEAD call")
        .assume("schedules are sampled (OS scheduler natively, Miri's randomized scheduler under Miri)");
    let m40 = relax_for_miri(m40, &args);
    let m41 = Monitor::new("C41", "one writer (add / remove / remove_if(pure predicate) / remove_all, seeded delays) and R readers (setup, seal, open of valid ciphertexts, exists, contexts kept across removals); unique ids, one SeqCst logical clock stamped at call and return of every op; linear history check; non-trivial = distinct (regime after-removal/live/overlapping, op kind, outcome, removal kind, context state, backend)")
        .min(12)
        .require("checked_after_removal_returned", "ops that started after a covering removal returned")
        .require("checked_on_live_channel", "ops on channels no removal covers")
        .require("overlapping_a_removal", "ops overlapping the removal of their channel (either outcome allowed)")
        .assume("schedules are sampled; shm variant only under the OS scheduler (Miri cannot mmap)");
    let m41 = relax_for_miri(m41, &args);
    let mut m42 = Monitor::new("C42", "same workload as C41 on the shm state: readers take verif_snapshot()s (hook H3, under the list lock) stamped with the logical clock, the writer logs the id set after every op; snapshot must equal a state in its stamp window; quiescent checks of both sides + exists() on both views; id monotonicity; OutOfSpace iff full; non-trivial = distinct (snapshot size, window width, which state matched, writer op kind)")
        .min(12)
        .require("snapshots", "reader snapshots")
        .require("snapshots_overlapping_a_writer_op", "snapshots taken while a writer op was in flight")
        .require("quiescent_checks", "both-sides comparisons")
        .require("writer_out_of_space", "add on a full table")
        .assume("schedules are sampled under the OS scheduler; a second process mapping the file is not exercised in the quick tier");
    let m44 = Monitor::new("C44", "T threads race lend (setup_seal_ctx), access (seal), loan drop, lender drop (remove / remove_if / remove_all) and re-add on a few slots of the in-memory state; per-channel live-context counter, per-channel sequence continuity across loans, removal stamps; counting allocator compared with a post-warm-up baseline; non-trivial = distinct (thread, op class, magnitude)")
        .min(8)
        .require("lend_refused", "lend attempts while another loan was live")
        .require("seal_notfound_after_revocation", "accesses through a loan whose lender was dropped")
        .require("loan_dropped", "loan drops")
        .require("remove", "lender drops")
        .assume("schedules are sampled; under Miri the aliasing model, data-race detector and leak checker are the primary oracle");
    let m44 = relax_for_miri(m44, &args);
    let (mut m40, mut m41, mut m44) = (m40, m41, m44);

    macro_rules! per_cs {
        ($f:ident, $($a:expr),*) => {
            if use_noop {
                if want_b("mem") { $f::<Mem<NoopCs>>($($a),*, "mem"); }
                if want_b("shm") && !miri { $f::<Shm<NoopCs>>($($a),*, "shm"); }
            } else {
                if want_b("mem") { $f::<Mem<RealCs>>($($a),*, "mem"); }
                if want_b("shm") && !miri { $f::<Shm<RealCs>>($($a),*, "shm"); }
            }
        };
    }
    if args.wants("C40") {
        per_cs!(run_seq, &args, &mut m40);
    }
    if args.wants("C41") || args.wants("C42") {
        // C42 needs hook H3, which only the shm state has.
        if args.wants("C41") || !want_b("shm") {
            per_cs!(run_history, &args, &mut m41, &mut m42);
        } else if use_noop {
            run_history::<Shm<NoopCs>>(&args, &mut m41, &mut m42, "shm");
        } else {
            run_history::<Shm<RealCs>>(&args, &mut m41, &mut m42, "shm");
        }
    }
    if args.wants("C44") {
        if use_noop { c44::<NoopCs>(&args, &mut m44) } else { c44::<RealCs>(&args, &mut m44) }
    }
    // Return from main (instead of process::exit) so that Miri runs its leak check.
    let code = finish_all_code(&args, vec![m40, m41, m42, m44]);
    ExitCode::from(code as u8)
}
