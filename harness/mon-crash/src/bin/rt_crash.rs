//! C15: file-backed graph storage survives crashes (fault enumeration over recorded I/O).
//!
//! 1. Record a real multi-commit workload on the libc FileManager with hook H1 (every pwrite
//!    chunk, fdatasync, fsync, fallocate, plus a marker after each completed commit).
//! 2. Disk model: writes since the last barrier are volatile; a barrier makes all earlier writes
//!    durable. For every crash point (after every event) enumerate which volatile writes
//!    survived (none, all, each single one dropped, each single one kept, every in-order prefix,
//!    the whole power set when small, seeded random subsets otherwise), optionally torn.
//! 3. Materialise each image, reopen it with the real FileManager / LinearStorageProvider and
//!    compare with the states recorded at the commits.

use std::{
    collections::{BTreeMap, BTreeSet},
    io::{Seek, SeekFrom, Write as _},
    path::Path,
};

use aranya_runtime::{linear::libc::verif::{self, IoEvent}, Prior, Priority};
use graphkit::{audit::*, dag::*, r#gen::*, model::*, replica::*};
use vcore::*;

#[derive(Clone, PartialEq, Eq, Debug)]
struct Snap {
    heads: Vec<(Id, u64)>,
    cmds: BTreeMap<Id, (Vec<Id>, Vec<u8>)>,
    facts: Facts,
}

fn snap<M: aranya_runtime::linear::IoManager>(rep: &mut Replica<M>) -> Result<Snap, String> {
    let heads = rep.heads().map_err(|e| format!("heads: {e}"))?;
    let w = rep.walk().map_err(|e| format!("walk: {e}"))?;
    let facts = rep.facts().map_err(|e| format!("facts: {e}"))?;
    Ok(Snap { heads, cmds: w.into_iter().map(|(k, v)| (k, (v.parents.iter().map(|p| p.0).collect(), v.data))).collect(), facts })
}

struct Recording {
    events: Vec<IoEvent>,
    snaps: Vec<Snap>,
    init: Id,
    file_name: String,
    summary: Value,
}

fn record(cs: u64, big: bool) -> Option<Recording> {
    let mut rng = Rng::new(cs);
    let mut cfg = GenCfg::small(&mut rng);
    cfg.n = if big { rng.urange(120, 260) } else { rng.urange(12, 45) };
    cfg.p_quiet = 300;
    cfg.max_ops = if big { 6 } else { 3 };
    let mut model = DagGen::new(cfg, &mut rng).build();
    let init = model.node(0).id;
    let dir = Scratch::new("crash-rec");
    verif::start();
    let mut rep = FileReplica::new_file(dir.path(), &init);
    let hcfg = HistCfg { order: *rng.pick(&[Order::Creation, Order::RandomTopo, Order::DepthFirst]), max_batch: *rng.pick(&[1, 3, 8]), p_flush: 150, p_commit: if big { 60 } else { 250 }, p_dup: 0 };
    let steps = history(&model, &|_| true, &hcfg, &mut rng);
    let mut snaps = vec![];
    let mut trx = rep.trx();
    let mut first = true;
    let mut actions = 0;
    let mut reopens = 0;
    let mut delivered: Vec<usize> = vec![];
    for st in &steps {
        match st {
            Step::Add(batch) => {
                delivered.extend(batch.iter().copied());
                let wires: Vec<WireCmd> = batch.iter().map(|&v| wire(&model.dag, v)).collect();
                if rep.add(&mut trx, &wires).is_err() {
                    verif::take();
                    return None;
                }
                if first {
                    // graph creation commits the init segment inside the first add_commands
                    first = false;
                    snaps.push(snap(&mut rep).ok()?);
                    verif::mark(snaps.len() as u64 - 1);
                }
            }
            Step::Flush => {
                let _ = rep.flush(&mut trx);
            }
            Step::Commit => {
                let t = std::mem::replace(&mut trx, rep.trx());
                if rep.commit(t).is_err() {
                    verif::take();
                    return None;
                }
                snaps.push(snap(&mut rep).ok()?);
                verif::mark(snaps.len() as u64 - 1);
                if rng.chance(1, 2) {
                    // Process restart: reopen the graph file with a fresh manager. The next append
                    // is then the first one after `open` (which re-derives its allocation state).
                    drop(trx);
                    drop(rep);
                    rep = FileReplica::new_file(dir.path(), &init);
                    reopens += 1;
                    trx = rep.trx();
                    if rng.chance(2, 3) && !delivered.is_empty() {
                        // a sync that brings only commands we already hold: a commit that appends
                        // nothing but the head-set record
                        let k = rng.urange(1, 3);
                        let dups: Vec<WireCmd> = (0..k).map(|_| wire(&model.dag, *rng.pick(&delivered))).collect();
                        if rep.add(&mut trx, &dups).is_err() {
                            verif::take();
                            return None;
                        }
                        let t = std::mem::replace(&mut trx, rep.trx());
                        if rep.commit(t).is_err() {
                            verif::take();
                            return None;
                        }
                        snaps.push(snap(&mut rep).ok()?);
                        verif::mark(snaps.len() as u64 - 1);
                    }
                }
                if rng.chance(1, 4) {
                    // an action (collapses heads, writes merge segments, commits)
                    let act = ActionScript { dump: false, observe: vec![], publish: vec![PubSpec { prio: Some(Prio::Basic(1)), script: Script { tag: 0x1500_0000 + actions, quiet: false, ops: vec![Op::Put { n: 0, k: vec![b"act".to_vec(), vec![actions as u8]], v: vec![9; 1 + (actions as usize % 40)] }] } }], fail_after: None, nonce: cs ^ actions as u64 };
                    actions += 1;
                    if rep.action(&act).is_ok() {
                        // keep the model in step so later deliveries stay valid
                        if let Ok(w) = rep.walk() {
                            let _ = graphkit::driver::adopt(&mut model, &w);
                        }
                        snaps.push(snap(&mut rep).ok()?);
                        verif::mark(snaps.len() as u64 - 1);
                        trx = rep.trx();
                    }
                }
            }
        }
    }
    let events = verif::take();
    let file_name = aranya_runtime::GraphId::transmute(cmd_id(&init)).to_string();
    let writes = events.iter().filter(|e| matches!(e, IoEvent::Write { .. })).count();
    let barriers = events.iter().filter(|e| matches!(e, IoEvent::Fdatasync | IoEvent::Fsync)).count();
    let max_end = events.iter().filter_map(|e| if let IoEvent::Write { offset, data } = e { Some(*offset + data.len() as i64) } else { None }).max().unwrap_or(0);
    let summary = json!({"case_seed": cs, "commands": model.len(), "commits": snaps.len(), "actions": actions, "reopens": reopens, "io_events": events.len(), "writes": writes, "barriers": barriers, "max_write_end": max_end});
    drop(rep);
    Some(Recording { events, snaps, init, file_name, summary })
}

#[derive(Clone, Debug)]
struct Pending {
    offset: i64,
    data: Vec<u8>,
}

/// Which volatile writes survive: (index -> Some(len kept)) ; None = dropped.
type Choice = Vec<Option<usize>>;

fn choices(p: &[Pending], rng: &mut Rng, exhaustive_upto: usize, random: usize) -> Vec<(Choice, &'static str)> {
    let n = p.len();
    let full = |i: usize| Some(p[i].data.len());
    let mut out: Vec<(Choice, &'static str)> = vec![];
    out.push(((0..n).map(|_| None).collect(), "none"));
    if n == 0 {
        return out;
    }
    out.push(((0..n).map(full).collect(), "all"));
    if n <= exhaustive_upto {
        for mask in 1..(1u32 << n) - 1 {
            out.push(((0..n).map(|i| if mask >> i & 1 == 1 { full(i) } else { None }).collect(), "powerset"));
        }
    } else {
        for d in 0..n {
            out.push(((0..n).map(|i| if i == d { None } else { full(i) }).collect(), "one-dropped"));
            out.push(((0..n).map(|i| if i == d { full(i) } else { None }).collect(), "one-kept"));
        }
        for k in 1..n {
            out.push(((0..n).map(|i| if i < k { full(i) } else { None }).collect(), "prefix"));
            out.push(((0..n).map(|i| if i >= k { full(i) } else { None }).collect(), "suffix"));
        }
        for _ in 0..random {
            out.push(((0..n).map(|i| if rng.bool() { full(i) } else { None }).collect(), "random-subset"));
        }
    }
    // torn variants: the last kept write (and a random kept one) cut at 1, n/2, n-1 bytes
    let base: Vec<Choice> = out.iter().take(3.min(out.len())).map(|c| c.0.clone()).chain(out.iter().rev().take(2).map(|c| c.0.clone())).collect();
    for c in base {
        let kept: Vec<usize> = (0..n).filter(|&i| c[i].is_some()).collect();
        if let Some(&last) = kept.last() {
            for &t in &[last, *rng.pick(&kept)] {
                let len = p[t].data.len();
                for cut in [1usize, len / 2, len.saturating_sub(1)] {
                    if cut > 0 && cut < len {
                        let mut c2 = c.clone();
                        c2[t] = Some(cut);
                        out.push((c2, "torn"));
                    }
                }
            }
        }
    }
    out
}

struct CheckCtx<'a> {
    rec: &'a Recording,
    dir: &'a Path,
    /// second directory for the images of a crash during the continuation after a recovery
    dir2: &'a Path,
}

/// Materialise an image and check what reopening it yields. Returns a finding on violation.
fn check_image(ctx: &CheckCtx, image: &[u8], size: i64, completed: usize, in_progress_exists: bool, label: &Value, m: &mut Monitor) {
    let path = ctx.dir.join(&ctx.rec.file_name);
    let _ = std::fs::remove_file(&path);
    {
        let mut f = std::fs::File::create(&path).expect("create image");
        f.write_all(image).expect("write image");
        let want = (size.max(image.len() as i64)) as u64;
        f.set_len(want).expect("set_len");
        f.seek(SeekFrom::Start(0)).ok();
    }
    m.eval();
    let rec = ctx.rec;
    let res = catch(|| {
        let mut rep = FileReplica::new_file(ctx.dir, &rec.init);
        match rep.storage() {
            Err(e) => Err(format!("{e}")),
            Ok(_) => Ok(snap(&mut rep)),
        }
    });
    let allowed: Vec<usize> = {
        let mut v = vec![];
        if completed > 0 {
            v.push(completed - 1);
        }
        if in_progress_exists {
            v.push(completed);
        }
        v
    };
    match res {
        Err(p) => m.violation(&format!("reopen-panic:{}", p.site()), json!({"image": label, "panic": p.what})),
        Ok(Err(e)) => {
            m.count("reopen_errors", 1);
            if completed > 0 {
                m.violation("reopen-fails-although-a-commit-had-completed", json!({"image": label, "err": e, "completed_commits": completed}));
            }
        }
        Ok(Ok(Err(e))) => {
            // opened, but a head / command / fact is unreadable
            m.violation("reopened-state-is-not-fully-readable", json!({"image": label, "err": e, "completed_commits": completed}));
        }
        Ok(Ok(Ok(s))) => {
            m.count("reopen_ok", 1);
            match allowed.iter().find(|&&k| rec.snaps[k] == s) {
                Some(&k) => {
                    if completed > 0 && k == completed {
                        m.count("recovered_in_progress_commit", 1);
                    } else {
                        m.count("recovered_last_completed_commit", 1);
                    }
                }
                None => {
                    let which = rec.snaps.iter().position(|x| *x == s);
                    m.violation(
                        if which.is_some() { "reopened-state-is-an-older-or-newer-commit-than-allowed" } else { "reopened-state-matches-no-committed-state" },
                        json!({"image": label, "matches_commit": which, "allowed": allowed, "heads": s.heads.len(), "commands": s.cmds.len()}),
                    );
                    return;
                }
            }
            // Continue the workload on the recovered storage: append + commit + reopen.
            if label["crash_after_event"].as_u64().unwrap_or(0) % 3 == 0 {
                // A second crash, inside the first commit after the recovery, for torn images and
                // a sample of the others: the recovery must leave the slot/offset bookkeeping in
                // a state from which the next commit is crash-safe again.
                let h = hash_of(&label.to_string());
                let second = if label["choice"] == "torn" { h % 6 == 0 } else { h % 96 == 0 };
                let r = catch(|| continue_and_reopen(ctx, &s, second));
                match r {
                    Err(p) => m.violation(&format!("continue-after-recovery-panic:{}", p.site()), json!({"image": label, "panic": p.what})),
                    Ok(Err(e)) if e.starts_with("second-crash:") => {
                        let sig = e.split('|').next().unwrap_or("second-crash").replace("second-crash:", "second-crash-");
                        m.violation(&sig, json!({"image": label, "why": e}));
                    }
                    Ok(Err(e)) => m.violation("continue-after-recovery-fails", json!({"image": label, "why": e})),
                    Ok(Ok(n)) => {
                        m.count("continued_after_recovery", 1);
                        if n > 0 {
                            m.count("recoveries_followed_by_a_second_crash", 1);
                            m.count("second_crash_images", n);
                        }
                    }
                }
            }
        }
    }
}

fn continue_and_reopen(ctx: &CheckCtx, recovered: &Snap, second_crash: bool) -> Result<u64, String> {
    let rec = ctx.rec;
    let path = ctx.dir.join(&rec.file_name);
    let base_image = if second_crash { std::fs::read(&path).map_err(|e| format!("read image: {e}"))? } else { vec![] };
    if second_crash {
        verif::start();
    }
    let new_id: Id = {
        let mut id = [0xC1u8; 32];
        id[..8].copy_from_slice(&(recovered.cmds.len() as u64).to_le_bytes());
        id
    };
    let after = {
        let mut rep = FileReplica::new_file(ctx.dir, &rec.init);
        rep.storage().map_err(|e| format!("reopen for continuation: {e}"))?;
        let (hid, hmc) = recovered.heads[0];
        let cmd = WireCmd {
            id: cmd_id(&new_id),
            prio: Priority::Basic(3),
            parent: Prior::Single(addr(&hid, hmc)),
            policy: None,
            data: Script { tag: 0x0c00_0000, quiet: false, ops: vec![Op::Put { n: 1, k: vec![b"cont".to_vec()], v: vec![7, 7, 7] }] }.encode(),
        };
        let mut t = rep.trx();
        rep.add(&mut t, &[cmd]).map_err(|e| format!("add after recovery: {e}"))?;
        rep.commit(t).map_err(|e| format!("commit after recovery: {e}"))?;
        snap(&mut rep)?
    };
    let events = if second_crash { verif::take() } else { vec![] };
    if second_crash && std::env::var("RT_DBG").is_ok() {
        eprintln!("[c15] base image {} bytes; continuation events:", base_image.len());
        for (i, e) in events.iter().enumerate() {
            match e {
                IoEvent::Write { offset, data } => eprintln!("[c15]  {i}: write off {offset} len {} {:02x?}", data.len(), &data[..data.len().min(24)]),
                other => eprintln!("[c15]  {i}: {other:?}"),
            }
        }
    }
    // state = recovered + the new command (nothing of a stale tail becomes visible)
    let mut want_cmds: BTreeSet<Id> = recovered.cmds.keys().copied().collect();
    want_cmds.insert(new_id);
    let got_cmds: BTreeSet<Id> = after.cmds.keys().copied().collect();
    if got_cmds != want_cmds {
        return Err(format!("after continuation the graph has {} commands, expected {}", got_cmds.len(), want_cmds.len()));
    }
    if recovered.heads.len() == 1 {
        let mut wf = recovered.facts.clone();
        // model of the continuation command on a single-head state
        let mut seq = wf.get(&(SEQ.to_string(), vec![])).cloned().unwrap_or_default();
        seq.extend_from_slice(&0x0c00_0000u32.to_le_bytes());
        wf.insert((SEQ.to_string(), vec![]), seq);
        wf.insert((NAMES[1].to_string(), vec![b"cont".to_vec()]), vec![7, 7, 7]);
        if after.facts != wf {
            return Err("facts after continuation differ from recovered facts + new command".into());
        }
    }
    // reopen once more: the continued state must itself be durable and identical
    let mut rep2 = FileReplica::new_file(ctx.dir, &rec.init);
    rep2.storage().map_err(|e| format!("second reopen: {e}"))?;
    let again = snap(&mut rep2)?;
    if again != after {
        return Err("state after a clean reopen differs from the state before it".into());
    }
    drop(rep2);
    // Second crash: every crash point inside the continuation commit, on top of the recovered
    // image. Reopening must give the recovered state or the continued state, never an error.
    let mut images = 0u64;
    if second_crash {
        let mut rng = Rng::new(hash_of(&(base_image.len(), recovered.cmds.len())));
        let mut durable = base_image.clone();
        let mut pending: Vec<Pending> = vec![];
        let apply = |img: &mut Vec<u8>, off: i64, data: &[u8]| {
            let end = off as usize + data.len();
            if img.len() < end {
                img.resize(end, 0);
            }
            img[off as usize..end].copy_from_slice(data);
        };
        let path2 = ctx.dir2.join(&rec.file_name);
        // file size: a volatile fallocate may or may not have extended the file (as in the
        // first-level enumeration)
        let mut durable_size = base_image.len() as i64;
        let mut pending_size = durable_size;
        for i in 0..=events.len() {
            for (c, kind) in choices(&pending, &mut rng.fork(i as u64), 4, 2) {
                let mut img = durable.clone();
                let mut kept = 0;
                for (k, keep) in c.iter().enumerate() {
                    if let Some(len) = keep {
                        apply(&mut img, pending[k].offset, &pending[k].data[..*len]);
                        kept += 1;
                    }
                }
                let size = if kept == c.len() { durable_size.max(pending_size) } else { durable_size };
                let _ = std::fs::remove_file(&path2);
                {
                    let mut f = std::fs::File::create(&path2).map_err(|e| format!("create second image: {e}"))?;
                    f.write_all(&img).map_err(|e| format!("write second image: {e}"))?;
                    f.set_len((size.max(img.len() as i64)) as u64).map_err(|e| format!("set_len second image: {e}"))?;
                }
                images += 1;
                let mut rep3 = FileReplica::new_file(ctx.dir2, &rec.init);
                let what = format!("crash after event {i} of the continuation commit, {kind}, mask {:?}", c.iter().map(|x| x.map(|l| l as i64).unwrap_or(-1)).collect::<Vec<_>>());
                // The root record is written as two chunks (4-byte length, then the body). An image in
                // which the new length is on disk without its body pairs it with whatever body an
                // earlier, abandoned commit left in that slot: its own signature (known finding).
                let prefix_only = {
                    let kept: Vec<usize> = (0..c.len()).filter(|&k| c[k].is_some()).collect();
                    kept.len() == 1 && pending[kept[0]].data.len() == 4 && c[kept[0]] == Some(4) && (pending[kept[0]].offset == 4096 || pending[kept[0]].offset == 8192)
                };
                let tag = if prefix_only { ":root-length-durable-without-its-body" } else { "" };
                match rep3.storage() {
                    Err(e) => return Err(format!("second-crash:reopen-fails-after-a-crash-in-the-commit-that-followed-a-recovery{tag}|{e}; {what}")),
                    Ok(_) => {}
                }
                match snap(&mut rep3) {
                    Err(e) => return Err(format!("second-crash:reopened-state-is-not-fully-readable{tag}|{e}; {what}")),
                    Ok(s2) => {
                        if s2 != *recovered && s2 != after {
                            return Err(format!("second-crash:reopened-state-is-neither-the-recovered-nor-the-continued-state{tag}|{what}"));
                        }
                    }
                }
            }
            if i == events.len() {
                break;
            }
            match &events[i] {
                IoEvent::Write { offset, data } => pending.push(Pending { offset: *offset, data: data.clone() }),
                IoEvent::Fallocate { offset, len } => pending_size = pending_size.max(offset + len),
                IoEvent::Mark(_) => {}
                IoEvent::Fdatasync | IoEvent::Fsync => {
                    for p in pending.drain(..) {
                        apply(&mut durable, p.offset, &p.data);
                        durable_size = durable_size.max(p.offset + p.data.len() as i64);
                    }
                    durable_size = durable_size.max(pending_size);
                }
            }
        }
    }
    Ok(images)
}

fn enumerate(rec: &Recording, args: &Args, m: &mut Monitor, shard: usize, shards: usize) {
    let dir = Scratch::new("crash-img");
    let dir2 = Scratch::new("crash-img2");
    let ctx = CheckCtx { rec, dir: dir.path(), dir2: dir2.path() };
    let mut rng = Rng::new(mix2(args.seed, 0xc15));
    let exhaustive_upto = args.tier.pick(7, 11);
    let random = args.tier.pick(12, 200);
    // replay the event log
    let mut durable: Vec<u8> = vec![];
    let mut durable_size: i64 = 0;
    let mut pending: Vec<Pending> = vec![];
    let mut pending_size: i64 = 0;
    let mut marks = 0usize;
    let total_marks = rec.snaps.len();
    let apply = |img: &mut Vec<u8>, off: i64, data: &[u8]| {
        let end = off as usize + data.len();
        if img.len() < end {
            img.resize(end, 0);
        }
        img[off as usize..end].copy_from_slice(data);
    };
    for i in 0..=rec.events.len() {
        // crash point: after events[..i]
        if i % shards == shard {
            let ch = choices(&pending, &mut rng.fork(i as u64), exhaustive_upto, random);
            for (c, kind) in ch {
                let mut img = durable.clone();
                let mut sz = durable_size;
                let mut kept = 0;
                for (k, keep) in c.iter().enumerate() {
                    if let Some(len) = keep {
                        apply(&mut img, pending[k].offset, &pending[k].data[..*len]);
                        sz = sz.max(pending[k].offset + *len as i64);
                        kept += 1;
                    }
                }
                // a volatile fallocate may or may not have extended the file
                let sz = if kept == c.len() { sz.max(pending_size) } else { sz };
                let label = json!({"case_seed": rec.summary["case_seed"], "crash_after_event": i, "volatile_writes": pending.len(), "kept": kept, "choice": kind, "mask": c.iter().map(|x| x.map(|l| l as i64).unwrap_or(-1)).collect::<Vec<_>>()});
                if !pending.is_empty() {
                    m.nontrivial(hash_of(&(i, &c.iter().map(|x| x.unwrap_or(usize::MAX)).collect::<Vec<_>>())));
                }
                m.count(&format!("images_{kind}"), 1);
                m.max("max_volatile_writes_at_a_crash_point", pending.len() as u64);
                check_image(&ctx, &img, sz, marks, marks < total_marks, &label, m);
            }
            m.count("crash_points", 1);
        }
        if i == rec.events.len() {
            break;
        }
        match &rec.events[i] {
            IoEvent::Write { offset, data } => pending.push(Pending { offset: *offset, data: data.clone() }),
            IoEvent::Fallocate { offset, len } => pending_size = pending_size.max(offset + len),
            IoEvent::Fdatasync | IoEvent::Fsync => {
                for p in pending.drain(..) {
                    apply(&mut durable, p.offset, &p.data);
                    durable_size = durable_size.max(p.offset + p.data.len() as i64);
                }
                durable_size = durable_size.max(pending_size);
            }
            IoEvent::Mark(_) => marks += 1,
        }
    }
}

fn main() {
    let args = Args::parse();
    let mut m = Monitor::new("C15", "recorded workloads on the real libc FileManager (generated DAG delivered in batches with flushes, multi-segment transactions, merges, actions, 8-40 commits); crash point after every recorded I/O event; for each, every persistence choice of the volatile writes: none, all, full power set when <=7 (quick) / <=11 (thorough) writes, else each single dropped, each single kept, every in-order prefix and suffix, seeded random subsets; plus torn variants (1, n/2, n-1 bytes) of kept writes; each image reopened with the real storage: Ok => state equals the last completed or the in-progress commit, all heads/commands/facts readable, and (every third crash point) append+commit+reopen yields recovered+new; Err only before the first commit completed. non-trivial = image at a crash point with >=1 volatile write; distinct by (crash point, choice)")
        .level("fault_enumeration")
        .min(200)
        .require("recovered_in_progress_commit", "images where the in-progress commit became durable")
        .require("recovered_last_completed_commit", "images that fall back to the last completed commit")
        .require("continued_after_recovery", "continuation after recovery must be exercised")
        .assume("writes become durable at the next fdatasync/fsync at the latest; before that any subset may persist, each possibly cut short")
        .assume("directory-entry durability of the graph file and media corruption of durable data are not modelled");
    if let Some(r) = args.replay_case() {
        let c = &r["case"]["image"];
        let cs = c["case_seed"].as_u64().expect("case_seed");
        let big = r["case"]["big"].as_bool().unwrap_or(false);
        if let Some(rec) = record(cs, big) {
            // re-enumerate only the crash point in question
            let i = c["crash_after_event"].as_u64().unwrap() as usize;
            let one = Recording { events: rec.events.clone(), snaps: rec.snaps.clone(), init: rec.init, file_name: rec.file_name.clone(), summary: rec.summary.clone() };
            let shards = one.events.len() + 2;
            enumerate(&one, &args, &mut m, i % shards, shards);
        }
        finish_all(&args, vec![m]);
    }
    let n_small = args.n(6, 40);
    let n_big = args.n(0, 3);
    for w in 0..(n_small + n_big) {
        let big = w >= n_small;
        let cs = mix2(args.seed ^ 0xc0a5, w);
        // recording is thread-local: record here, enumerate in parallel
        let Some(rec) = record(cs, big) else {
            m.inconclusive("workload could not be recorded");
            continue;
        };
        m.count("workloads", 1);
        m.count("commits_recorded", rec.snaps.len() as u64);
        m.count("io_events_recorded", rec.events.len() as u64);
        let s = rec.summary.clone();
        m.sample(|| s);
        struct S(Monitor);
        unsafe impl Send for S {}
        struct R<'a>(&'a Recording);
        unsafe impl Sync for R<'_> {}
        let rr = R(&rec);
        let threads = cores();
        let parts = par_shards(threads, |sh, tot| {
            let mut w = m.worker();
            let r = &rr;
            if let Err(p) = catch(|| enumerate(r.0, &args, &mut w, sh, tot)) {
                w.inconclusive(&format!("harness panic during enumeration: {}", p.what));
            }
            S(w)
        });
        for p in parts {
            m.absorb(p.0);
        }
    }
    finish_all(&args, vec![m]);
}
