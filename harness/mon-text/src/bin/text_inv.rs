//! C32: Text and identifier values always satisfy their invariants.
//!
//! Every producer of `Text` / `Identifier` reachable through the public API is driven with
//! generated inputs; whatever comes out must contain no NUL (Text) / match
//! `[a-zA-Z][a-zA-Z0-9_]*` (Identifier). Eq/Ord/Hash are compared with `str` over all pairs of
//! a pool holding static, inline and heap representations.
use std::{
    cmp::Ordering,
    ffi::{CStr, CString},
    str::FromStr,
};

use aranya_policy_text::{Identifier, Text, ident, text};
use rkyv::{Archived, rancor::Error as RErr, util::AlignedVec};
use vcore::*;

/// `repr.rs`: `MAX_INLINE = 3 * size_of::<usize>() - 2`.
const MAX_INLINE: usize = 3 * size_of::<usize>() - 2;
/// rkyv's `ArchivedString` stores up to 8 bytes inline.
const RKYV_INLINE: usize = 8;

// ---------------------------------------------------------------------------
// Oracles (independent of the crate's validators)
// ---------------------------------------------------------------------------

fn text_inv(s: &str) -> bool {
    !s.as_bytes().contains(&0)
}

fn ident_inv(s: &str) -> bool {
    let b = s.as_bytes();
    match b.first() {
        Some(c) if c.is_ascii_alphabetic() => {}
        _ => return false,
    }
    b[1..].iter().all(|c| matches!(c, b'a'..=b'z' | b'A'..=b'Z' | b'0'..=b'9' | b'_'))
}

#[derive(Clone, Copy, PartialEq, Eq, Debug)]
enum Kind {
    Text,
    Ident,
}

impl Kind {
    fn inv(self, s: &str) -> bool {
        match self {
            Kind::Text => text_inv(s),
            Kind::Ident => ident_inv(s),
        }
    }
    fn name(self) -> &'static str {
        match self {
            Kind::Text => "text",
            Kind::Ident => "ident",
        }
    }
}

/// Where the string bytes of a value live, observed from outside: inside the value itself
/// (inline representation) or elsewhere (static or heap).
fn stored_inline<T>(v: &T, s: &str) -> bool {
    let base = std::ptr::from_ref(v) as usize;
    let p = s.as_ptr() as usize;
    !s.is_empty() && p >= base && p + s.len() <= base + size_of::<T>()
}

struct Ctx<'a> {
    m: &'a mut Monitor,
    /// Replayable description of the input that is being processed.
    case: Value,
}

impl Ctx<'_> {
    fn viol(&mut self, sig: &str, extra: Value) {
        let case = self.case.clone();
        self.m.violation(sig, json!({"case": case, "info": extra}));
    }

    /// A producer returned a value: check the invariant (and the expected content if known).
    fn produced(&mut self, kind: Kind, producer: &str, got: &str, want: Option<&str>) {
        self.m.eval();
        self.m.count(&format!("ok_{}_{producer}", kind.name()), 1);
        if !kind.inv(got) {
            self.viol(
                &format!("{}-invariant-broken-by:{producer}", kind.name()),
                json!({"value_hex": hex(got.as_bytes())}),
            );
        }
        if let Some(w) = want {
            if w != got {
                self.viol(
                    &format!("{}-content-changed-by:{producer}", kind.name()),
                    json!({"value_hex": hex(got.as_bytes()), "want_hex": hex(w.as_bytes())}),
                );
            }
        }
    }

    /// A producer refused the input. Only recorded; rejecting is always allowed by the property,
    /// but rejecting an input that satisfies the invariant is counted so that it is visible.
    fn refused(&mut self, kind: Kind, producer: &str, input_valid: Option<bool>) {
        self.m.eval();
        self.m.count(&format!("err_{}_{producer}", kind.name()), 1);
        if input_valid == Some(true) {
            self.m.count("valid_input_refused", 1);
            self.m.seen("valid_input_refused_by", &format!("{}:{producer}", kind.name()));
        }
    }

    fn panicked(&mut self, producer: &str, p: &PanicInfo) {
        self.m.eval();
        self.viol(&format!("text-producer-panic:{producer}:{}", p.site()), json!({"panic": p.what}));
    }
}

/// Run one producer under `catch` and feed the outcome to the oracle.
/// `f` returns `Ok(string content)` or `Err(())`.
fn drive(
    cx: &mut Ctx<'_>,
    kind: Kind,
    producer: &str,
    want: Option<&str>,
    input_valid: Option<bool>,
    f: impl FnOnce() -> Result<String, ()>,
) -> bool {
    match catch(f) {
        Ok(Ok(got)) => {
            cx.produced(kind, producer, &got, want);
            true
        }
        Ok(Err(())) => {
            cx.refused(kind, producer, input_valid);
            false
        }
        Err(p) => {
            cx.panicked(producer, &p);
            false
        }
    }
}

// ---------------------------------------------------------------------------
// Producers driven per input
// ---------------------------------------------------------------------------

fn text_of<E>(r: Result<Text, E>) -> Result<String, ()> {
    r.map(|t| t.as_str().to_owned()).map_err(|_| ())
}

fn ident_of<E>(r: Result<Identifier, E>) -> Result<String, ()> {
    r.map(|t| t.as_str().to_owned()).map_err(|_| ())
}

fn json_all_escaped(s: &str) -> String {
    let mut out = String::with_capacity(s.len() * 6 + 2);
    out.push('"');
    for u in s.encode_utf16() {
        out.push_str(&format!("\\u{u:04x}"));
    }
    out.push('"');
    out
}

fn postcard_str_frame(bytes: &[u8]) -> Vec<u8> {
    let mut v = Vec::with_capacity(bytes.len() + 5);
    let mut n = bytes.len() as u64;
    loop {
        let b = (n & 0x7f) as u8;
        n >>= 7;
        if n == 0 {
            v.push(b);
            break;
        }
        v.push(b | 0x80);
    }
    v.extend_from_slice(bytes);
    v
}

fn aligned(bytes: &[u8]) -> AlignedVec {
    let mut v = AlignedVec::with_capacity(bytes.len());
    v.extend_from_slice(bytes);
    v
}

/// Archive of a string whose content bytes are `bytes` (possibly not UTF-8 / not a valid text):
/// what a hostile peer could hand to `rkyv::access`.
fn hostile_archive(bytes: &[u8]) -> Option<AlignedVec> {
    if bytes.len() <= RKYV_INLINE {
        // Inline form: content padded with 0xff. A content byte 0xff would end the string early,
        // which only makes it a different (shorter) hostile string.
        let mut b = [0xffu8; RKYV_INLINE];
        b[..bytes.len()].copy_from_slice(bytes);
        return Some(aligned(&b));
    }
    let filler = "a".repeat(bytes.len());
    let mut ar = rkyv::to_bytes::<RErr>(&filler).ok()?;
    if ar.len() < bytes.len() || &ar[..bytes.len()] != filler.as_bytes() {
        return None;
    }
    ar[..bytes.len()].copy_from_slice(bytes);
    Some(ar)
}

/// Checked access of `buf` as an archived Text and Identifier; every success is held against the
/// invariant, then deserialized (all three deserialize entry points) and held against it again.
/// Returns (text_ok, ident_ok).
fn access_archive(cx: &mut Ctx<'_>, buf: &[u8], tag: &str, want: Option<&str>) -> (bool, bool) {
    let valid_t = want.map(text_inv);
    let valid_i = want.map(ident_inv);
    let t = drive(cx, Kind::Text, &format!("rkyv-access-{tag}"), want, valid_t, || {
        let a = rkyv::access::<Archived<Text>, RErr>(buf).map_err(|_| ())?;
        Ok(a.as_str().to_owned())
    });
    if t {
        let changed = std::cell::Cell::new(false);
        drive(cx, Kind::Text, &format!("rkyv-deserialize-{tag}"), want, valid_t, || {
            let a = rkyv::access::<Archived<Text>, RErr>(buf).map_err(|_| ())?;
            let d = rkyv::deserialize::<Text, RErr>(a).map_err(|_| ())?;
            changed.set(d.as_str() != a.as_str());
            Ok(d.as_str().to_owned())
        });
        if changed.get() {
            cx.viol("text-rkyv-deserialize-differs-from-archived", json!(null));
        }
        drive(cx, Kind::Text, &format!("rkyv-from_bytes-{tag}"), want, valid_t, || {
            text_of(rkyv::from_bytes::<Text, RErr>(buf))
        });
    }
    let i = drive(cx, Kind::Ident, &format!("rkyv-access-{tag}"), want, valid_i, || {
        let a = rkyv::access::<Archived<Identifier>, RErr>(buf).map_err(|_| ())?;
        Ok(a.as_str().to_owned())
    });
    if i {
        drive(cx, Kind::Ident, &format!("rkyv-deserialize-{tag}"), want, valid_i, || {
            let a = rkyv::access::<Archived<Identifier>, RErr>(buf).map_err(|_| ())?;
            ident_of(rkyv::deserialize::<Identifier, RErr>(a))
        });
        drive(cx, Kind::Ident, &format!("rkyv-inherent-deserialize-{tag}"), want, valid_i, || {
            let a = rkyv::access::<Archived<Identifier>, RErr>(buf).map_err(|_| ())?;
            Ok(a.deserialize().as_str().to_owned())
        });
        drive(cx, Kind::Ident, &format!("rkyv-from_bytes-{tag}"), want, valid_i, || {
            ident_of(rkyv::from_bytes::<Identifier, RErr>(buf))
        });
    }
    (t, i)
}

fn corrupt(rng: &mut Rng, src: &[u8]) -> Vec<u8> {
    let mut v = src.to_vec();
    match rng.below(8) {
        0 if v.len() > 1 => {
            // truncate (multiples of 4 keep the root where the validator looks for it more often)
            let cut = if rng.bool() { 4 * rng.urange(1, 4) } else { rng.urange(1, v.len() - 1) };
            v.truncate(v.len().saturating_sub(cut).max(1));
        }
        1 => v.extend(rng.bytes(4 * rng.urange(1, 3))),
        2 | 3 if !v.is_empty() => {
            // corrupt the root object (last 8 bytes: length/offset or inline bytes)
            let n = v.len();
            let i = n - 1 - rng.usize(n.min(8));
            v[i] = *rng.pick(&[0u8, 0xff, 0x80, 0x7f, 1, rng.u64() as u8]);
        }
        4 if !v.is_empty() => {
            let i = rng.usize(v.len());
            v[i] = 0; // plant a NUL in content
        }
        5 if !v.is_empty() => {
            let i = rng.usize(v.len());
            v[i] ^= 1 << rng.below(8);
        }
        _ if !v.is_empty() => {
            for _ in 0..rng.urange(1, 3) {
                let i = rng.usize(v.len());
                v[i] = rng.u64() as u8;
            }
        }
        _ => {}
    }
    v
}

fn check_archive_case(cx: &mut Ctx<'_>, buf: &[u8], tag: &str) {
    let a = aligned(buf);
    let (t, i) = access_archive(cx, &a, tag, None);
    cx.m.count(if t || i { "rkyv_corrupt_accepted" } else { "rkyv_corrupt_rejected" }, 1);
}

/// Drive every producer with one input. `mutations`: number of corrupted archives derived from it.
fn check_input(m: &mut Monitor, bytes: &[u8], rng: &mut Rng, mutations: usize) {
    let mut cx = Ctx { m, case: json!({"kind": "input", "hex": hex(bytes)}) };
    let cx = &mut cx;
    let utf8 = std::str::from_utf8(bytes).ok();
    let tv = utf8.map(text_inv);
    let iv = utf8.map(ident_inv);

    if let Some(s) = utf8 {
        cx.m.count("inputs_utf8", 1);
        let t_ok = drive(cx, Kind::Text, "from_str", Some(s), tv, || text_of(Text::from_str(s)));
        drive(cx, Kind::Text, "try_from-String", Some(s), tv, || text_of(Text::try_from(s.to_owned())));
        let i_ok = drive(cx, Kind::Ident, "from_str", Some(s), iv, || ident_of(Identifier::from_str(s)));
        drive(cx, Kind::Ident, "try_from-String", Some(s), iv, || ident_of(Identifier::try_from(s.to_owned())));
        if t_ok {
            cx.m.count(if s.len() <= MAX_INLINE { "text_len_le_inline" } else { "text_len_gt_inline" }, 1);
            if s.len() == MAX_INLINE || s.len() == MAX_INLINE + 1 {
                cx.m.count("text_at_inline_threshold", 1);
            }
            drive(cx, Kind::Ident, "try_from-Text", Some(s), iv, || {
                ident_of(Identifier::try_from(Text::from_str(s).map_err(|_| ())?))
            });
            drive(cx, Kind::Text, "clone", Some(s), tv, || {
                let t = Text::from_str(s).map_err(|_| ())?;
                let c = t.clone();
                drop(t);
                Ok(c.as_str().to_owned())
            });
            // The representation chosen must be the one the length implies.
            if let Ok(t) = Text::from_str(s) {
                if !s.is_empty() && stored_inline(&t, t.as_str()) != (s.len() <= MAX_INLINE) {
                    cx.m.count("repr_not_as_expected", 1);
                }
            }
        }
        if i_ok {
            drive(cx, Kind::Text, "from-Identifier", Some(s), tv, || {
                Ok(Text::from(Identifier::from_str(s).map_err(|_| ())?).as_str().to_owned())
            });
            drive(cx, Kind::Ident, "clone", Some(s), iv, || {
                let t = Identifier::from_str(s).map_err(|_| ())?;
                let c = t.clone();
                drop(t);
                Ok(c.as_str().to_owned())
            });
        }

        // serde_json: borrowed (no escapes), escaped, every char escaped, Value, reader.
        let plain = serde_json::to_string(s).expect("json string");
        let escaped = json_all_escaped(s);
        for (tag, doc) in [("json", &plain), ("json-escaped", &escaped)] {
            let ok = drive(cx, Kind::Text, tag, Some(s), tv, || text_of(serde_json::from_str::<Text>(doc)));
            if !ok && tv == Some(false) {
                cx.m.count("json_nul_rejected", 1);
            }
            let ok = drive(cx, Kind::Ident, tag, Some(s), iv, || ident_of(serde_json::from_str::<Identifier>(doc)));
            if !ok && iv == Some(false) {
                cx.m.count("json_bad_ident_rejected", 1);
            }
        }
        drive(cx, Kind::Text, "json-value", Some(s), tv, || {
            text_of(serde_json::from_value::<Text>(Value::String(s.to_owned())))
        });
        drive(cx, Kind::Ident, "json-value", Some(s), iv, || {
            ident_of(serde_json::from_value::<Identifier>(Value::String(s.to_owned())))
        });
        drive(cx, Kind::Text, "json-reader", Some(s), tv, || {
            text_of(serde_json::from_reader::<_, Text>(plain.as_bytes()))
        });
        drive(cx, Kind::Ident, "json-reader", Some(s), iv, || {
            ident_of(serde_json::from_reader::<_, Identifier>(plain.as_bytes()))
        });
    } else {
        cx.m.count("inputs_not_utf8", 1);
    }

    // Raw bytes between quotes (NUL / control bytes / invalid UTF-8 reach the JSON string parser).
    {
        let mut doc = Vec::with_capacity(bytes.len() + 2);
        doc.push(b'"');
        doc.extend_from_slice(bytes);
        doc.push(b'"');
        drive(cx, Kind::Text, "json-raw-bytes", None, None, || text_of(serde_json::from_slice::<Text>(&doc)));
        drive(cx, Kind::Ident, "json-raw-bytes", None, None, || ident_of(serde_json::from_slice::<Identifier>(&doc)));
    }

    // postcard: length-prefixed bytes, valid UTF-8 or not.
    {
        let frame = postcard_str_frame(bytes);
        let ok = drive(cx, Kind::Text, "postcard", utf8, tv, || text_of(postcard::from_bytes::<Text>(&frame)));
        if utf8.is_none() {
            cx.m.count("postcard_invalid_utf8", 1);
            if ok {
                cx.viol("text-postcard-accepted-invalid-utf8", json!(null));
            }
        } else if !ok && tv == Some(false) {
            cx.m.count("postcard_nul_rejected", 1);
        }
        let ok = drive(cx, Kind::Ident, "postcard", utf8, iv, || ident_of(postcard::from_bytes::<Identifier>(&frame)));
        if ok && utf8.is_none() {
            cx.viol("ident-postcard-accepted-invalid-utf8", json!(null));
        }
        // Truncated frame (length says more than there is).
        if !bytes.is_empty() {
            let cut = &frame[..frame.len() - 1];
            drive(cx, Kind::Text, "postcard-truncated", None, None, || text_of(postcard::from_bytes::<Text>(cut)));
        }
    }

    // &CStr: content up to the first NUL.
    {
        let mut z = bytes.to_vec();
        z.push(0);
        let c: &CStr = CStr::from_bytes_until_nul(&z).expect("has nul");
        let prefix = c.to_bytes();
        let want = std::str::from_utf8(prefix).ok();
        let ok = drive(cx, Kind::Text, "try_from-CStr", want, want.map(text_inv), || text_of(Text::try_from(c)));
        match want {
            None => {
                cx.m.count("cstr_invalid_utf8", 1);
                if ok {
                    cx.viol("text-cstr-accepted-invalid-utf8", json!(null));
                }
            }
            Some(_) if ok => cx.m.count("cstr_ok", 1),
            _ => {}
        }
        if let Ok(owned) = CString::new(bytes) {
            let w = owned.to_str().ok();
            drive(cx, Kind::Text, "try_from-CString", w, w.map(text_inv), || text_of(Text::try_from(owned.as_c_str())));
        }
    }

    // rkyv: honest archive of a Text / Identifier, hostile archive of arbitrary bytes, corruptions.
    let mut sources: Vec<AlignedVec> = vec![];
    if let Some(s) = utf8 {
        if let Ok(t) = Text::from_str(s) {
            match catch(|| rkyv::to_bytes::<RErr>(&t)) {
                Ok(Ok(ar)) => {
                    let (a, _) = access_archive(cx, &ar, "honest", Some(s));
                    if !a {
                        cx.viol("text-rkyv-own-archive-refused", json!(null));
                    }
                    sources.push(ar);
                }
                Ok(Err(e)) => cx.viol("text-rkyv-serialize-failed", json!(e.to_string())),
                Err(p) => cx.panicked("rkyv-serialize", &p),
            }
        }
        if let Ok(t) = Identifier::from_str(s) {
            if let Ok(Ok(ar)) = catch(|| rkyv::to_bytes::<RErr>(&t)) {
                let (_, i) = access_archive(cx, &ar, "honest-ident", Some(s));
                if !i {
                    cx.viol("ident-rkyv-own-archive-refused", json!(null));
                }
            }
        }
    }
    if let Some(ar) = hostile_archive(bytes) {
        // Expected content is only known when no 0xff terminates an inline string early.
        let want = if bytes.len() > RKYV_INLINE || !bytes.contains(&0xff) { utf8 } else { None };
        let (t, i) = access_archive(cx, &ar, "hostile", want);
        if utf8.is_none() && bytes.len() > RKYV_INLINE {
            cx.m.count("rkyv_hostile_invalid_utf8", 1);
            if t || i {
                cx.viol("rkyv-access-accepted-invalid-utf8", json!(null));
            }
        }
        if tv == Some(false) {
            cx.m.count(if t { "rkyv_hostile_nul_accepted" } else { "rkyv_hostile_nul_rejected" }, 1);
        }
        if iv == Some(false) && !i {
            cx.m.count("rkyv_hostile_bad_ident_rejected", 1);
        }
        sources.push(ar);
    }
    for k in 0..mutations {
        if sources.is_empty() {
            break;
        }
        let src = &sources[k % sources.len()];
        let bad = corrupt(rng, src);
        let saved = std::mem::replace(&mut cx.case, json!({"kind": "archive", "hex": hex(&bad)}));
        check_archive_case(cx, &bad, "corrupt");
        cx.case = saved;
    }
}
