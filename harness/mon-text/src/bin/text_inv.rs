//! C32: Text and identifier values always satisfy their invariants.
//!
//! Every producer of `Text` / `Identifier` reachable through the public API is driven with
//! generated inputs; whatever comes out must contain no NUL (Text) / match
//! `[a-zA-Z][a-zA-Z0-9_]*` (Identifier). Eq/Ord/Hash are compared with `str` over all pairs of
//! a pool holding static, inline and heap representations.
use std::{
    cmp::Ordering,
    ffi::{CStr, CString},
    str::FromStr,
};

use aranya_policy_text::{Identifier, Text, ident, text};
use rkyv::{Archived, rancor::Error as RErr, util::AlignedVec};
use vcore::*;

/// `repr.rs`: `MAX_INLINE = 3 * size_of::<usize>() - 2`.
const MAX_INLINE: usize = 3 * size_of::<usize>() - 2;
/// rkyv's `ArchivedString` stores up to 8 bytes inline.
const RKYV_INLINE: usize = 8;

// ---------------------------------------------------------------------------
// Oracles (independent of the crate's validators)
// ---------------------------------------------------------------------------

fn text_inv(s: &str) -> bool {
    !s.as_bytes().contains(&0)
}

fn ident_inv(s: &str) -> bool {
    let b = s.as_bytes();
    match b.first() {
        Some(c) if c.is_ascii_alphabetic() => {}
        _ => return false,
    }
    b[1..].iter().all(|c| matches!(c, b'a'..=b'z' | b'A'..=b'Z' | b'0'..=b'9' | b'_'))
}

#[derive(Clone, Copy, PartialEq, Eq, Debug)]
enum Kind {
    Text,
    Ident,
}

impl Kind {
    fn inv(self, s: &str) -> bool {
        match self {
            Kind::Text => text_inv(s),
            Kind::Ident => ident_inv(s),
        }
    }
    fn name(self) -> &'static str {
        match self {
            Kind::Text => "text",
            Kind::Ident => "ident",
        }
    }
}

/// Where the string bytes of a value live, observed from outside: inside the value itself
/// (inline representation) or elsewhere (static or heap).
fn stored_inline<T>(v: &T, s: &str) -> bool {
    let base = std::ptr::from_ref(v) as usize;
    let p = s.as_ptr() as usize;
    !s.is_empty() && p >= base && p + s.len() <= base + size_of::<T>()
}

/// Replayable description of what is being processed; only rendered to JSON on a violation.
#[derive(Clone)]
enum Case<'a> {
    Input(&'a [u8]),
    Archive(&'a [u8]),
    Add(&'a str, &'a str, bool),
}

impl Case<'_> {
    fn to_json(&self) -> Value {
        match self {
            Case::Input(b) => json!({"kind": "input", "hex": hex(b)}),
            Case::Archive(b) => json!({"kind": "archive", "hex": hex(b)}),
            Case::Add(a, b, st) => json!({"kind": "add", "a_hex": hex(a.as_bytes()), "b_hex": hex(b.as_bytes()), "a_static": st}),
        }
    }
}

/// Outcome counters per (type, producer, tag, ok); turned into named counters once per shard.
#[derive(Default)]
struct Tally(Vec<(Kind, &'static str, &'static str, bool, u64)>);

impl Tally {
    fn hit(&mut self, kind: Kind, producer: &'static str, tag: &'static str, ok: bool) {
        for e in &mut self.0 {
            if e.0 == kind && e.3 == ok && std::ptr::eq(e.1, producer) && std::ptr::eq(e.2, tag) {
                e.4 += 1;
                return;
            }
        }
        self.0.push((kind, producer, tag, ok, 1));
    }
    fn flush(&mut self, m: &mut Monitor) {
        for (kind, producer, tag, ok, n) in self.0.drain(..) {
            let sep = if tag.is_empty() { "" } else { "-" };
            m.count(&format!("{}_{}_{producer}{sep}{tag}", if ok { "ok" } else { "err" }, kind.name()), n);
        }
    }
}

struct Ctx<'a> {
    m: &'a mut Monitor,
    tally: &'a mut Tally,
    case: Case<'a>,
}

impl Ctx<'_> {
    fn viol(&mut self, sig: &str, extra: Value) {
        let case = self.case.to_json();
        self.m.violation(sig, json!({"case": case, "info": extra}));
    }

    /// A producer returned a value: check the invariant (and the expected content if known).
    fn produced(&mut self, kind: Kind, producer: &'static str, tag: &'static str, got: &str, want: Option<&str>) {
        self.m.eval();
        self.tally.hit(kind, producer, tag, true);
        if !kind.inv(got) {
            self.viol(
                &format!("{}-invariant-broken-by:{producer}{}{tag}", kind.name(), if tag.is_empty() { "" } else { "-" }),
                json!({"value_hex": hex(got.as_bytes())}),
            );
        }
        if let Some(w) = want {
            if w != got {
                self.viol(
                    &format!("{}-content-changed-by:{producer}{}{tag}", kind.name(), if tag.is_empty() { "" } else { "-" }),
                    json!({"value_hex": hex(got.as_bytes()), "want_hex": hex(w.as_bytes())}),
                );
            }
        }
    }

    /// A producer refused the input. Only recorded; rejecting is always allowed by the property,
    /// but rejecting an input that satisfies the invariant is counted so that it is visible.
    fn refused(&mut self, kind: Kind, producer: &'static str, tag: &'static str, input_valid: Option<bool>) {
        self.m.eval();
        self.tally.hit(kind, producer, tag, false);
        if input_valid == Some(true) {
            self.m.count("valid_input_refused", 1);
            self.m.seen("valid_input_refused_by", &format!("{}:{producer}{}{tag}", kind.name(), if tag.is_empty() { "" } else { "-" }));
        }
    }

    fn panicked(&mut self, producer: &str, p: &PanicInfo) {
        self.m.eval();
        self.viol(&format!("text-producer-panic:{producer}:{}", p.site()), json!({"panic": p.what}));
    }
}

/// Run one producer under `catch` and feed the outcome to the oracle.
/// `f` returns `Ok(string content)` or `Err(())`.
fn drive(
    cx: &mut Ctx<'_>,
    kind: Kind,
    producer: &'static str,
    tag: &'static str,
    want: Option<&str>,
    input_valid: Option<bool>,
    f: impl FnOnce() -> Result<String, ()>,
) -> bool {
    match catch(f) {
        Ok(Ok(got)) => {
            cx.produced(kind, producer, tag, &got, want);
            true
        }
        Ok(Err(())) => {
            cx.refused(kind, producer, tag, input_valid);
            false
        }
        Err(p) => {
            cx.panicked(producer, &p);
            false
        }
    }
}

// ---------------------------------------------------------------------------
// Producers driven per input
// ---------------------------------------------------------------------------

fn text_of<E>(r: Result<Text, E>) -> Result<String, ()> {
    r.map(|t| t.as_str().to_owned()).map_err(|_| ())
}

fn ident_of<E>(r: Result<Identifier, E>) -> Result<String, ()> {
    r.map(|t| t.as_str().to_owned()).map_err(|_| ())
}

fn json_all_escaped(s: &str) -> String {
    let mut out = String::with_capacity(s.len() * 6 + 2);
    out.push('"');
    for u in s.encode_utf16() {
        out.push_str("\\u");
        for sh in [12, 8, 4, 0] {
            out.push(char::from_digit(((u >> sh) & 0xf) as u32, 16).unwrap());
        }
    }
    out.push('"');
    out
}

fn postcard_str_frame(bytes: &[u8]) -> Vec<u8> {
    let mut v = Vec::with_capacity(bytes.len() + 5);
    let mut n = bytes.len() as u64;
    loop {
        let b = (n & 0x7f) as u8;
        n >>= 7;
        if n == 0 {
            v.push(b);
            break;
        }
        v.push(b | 0x80);
    }
    v.extend_from_slice(bytes);
    v
}

fn aligned(bytes: &[u8]) -> AlignedVec {
    let mut v = AlignedVec::with_capacity(bytes.len());
    v.extend_from_slice(bytes);
    v
}

/// Archive of a string whose content bytes are `bytes` (possibly not UTF-8 / not a valid text):
/// what a hostile peer could hand to `rkyv::access`.
fn hostile_archive(bytes: &[u8]) -> Option<AlignedVec> {
    if bytes.len() <= RKYV_INLINE {
        // Inline form: content padded with 0xff. A content byte 0xff would end the string early,
        // which only makes it a different (shorter) hostile string.
        let mut b = [0xffu8; RKYV_INLINE];
        b[..bytes.len()].copy_from_slice(bytes);
        return Some(aligned(&b));
    }
    let filler = "a".repeat(bytes.len());
    let mut ar = rkyv::to_bytes::<RErr>(&filler).ok()?;
    if ar.len() < bytes.len() || &ar[..bytes.len()] != filler.as_bytes() {
        return None;
    }
    ar[..bytes.len()].copy_from_slice(bytes);
    Some(ar)
}

/// Checked access of `buf` as an archived Text and Identifier; every success is held against the
/// invariant, then deserialized (all three deserialize entry points) and held against it again.
/// Returns (text_ok, ident_ok).
fn access_archive(cx: &mut Ctx<'_>, buf: &[u8], tag: &'static str, want: Option<&str>) -> (bool, bool) {
    let valid_t = want.map(text_inv);
    let valid_i = want.map(ident_inv);
    let t = drive(cx, Kind::Text, "rkyv-access", tag, want, valid_t, || {
        let a = rkyv::access::<Archived<Text>, RErr>(buf).map_err(|_| ())?;
        Ok(a.as_str().to_owned())
    });
    if t {
        let changed = std::cell::Cell::new(false);
        drive(cx, Kind::Text, "rkyv-deserialize", tag, want, valid_t, || {
            let a = rkyv::access::<Archived<Text>, RErr>(buf).map_err(|_| ())?;
            let d = rkyv::deserialize::<Text, RErr>(a).map_err(|_| ())?;
            changed.set(d.as_str() != a.as_str());
            Ok(d.as_str().to_owned())
        });
        if changed.get() {
            cx.viol("text-rkyv-deserialize-differs-from-archived", json!(null));
        }
        drive(cx, Kind::Text, "rkyv-from_bytes", tag, want, valid_t, || {
            text_of(rkyv::from_bytes::<Text, RErr>(buf))
        });
    }
    let i = drive(cx, Kind::Ident, "rkyv-access", tag, want, valid_i, || {
        let a = rkyv::access::<Archived<Identifier>, RErr>(buf).map_err(|_| ())?;
        Ok(a.as_str().to_owned())
    });
    if i {
        drive(cx, Kind::Ident, "rkyv-deserialize", tag, want, valid_i, || {
            let a = rkyv::access::<Archived<Identifier>, RErr>(buf).map_err(|_| ())?;
            ident_of(rkyv::deserialize::<Identifier, RErr>(a))
        });
        drive(cx, Kind::Ident, "rkyv-inherent-deserialize", tag, want, valid_i, || {
            let a = rkyv::access::<Archived<Identifier>, RErr>(buf).map_err(|_| ())?;
            Ok(a.deserialize().as_str().to_owned())
        });
        drive(cx, Kind::Ident, "rkyv-from_bytes", tag, want, valid_i, || {
            ident_of(rkyv::from_bytes::<Identifier, RErr>(buf))
        });
    }
    (t, i)
}

fn corrupt(rng: &mut Rng, src: &[u8]) -> Vec<u8> {
    let mut v = src.to_vec();
    match rng.below(8) {
        0 if v.len() > 1 => {
            // truncate (multiples of 4 keep the root where the validator looks for it more often)
            let cut = if rng.bool() { 4 * rng.urange(1, 4) } else { rng.urange(1, v.len() - 1) };
            v.truncate(v.len().saturating_sub(cut).max(1));
        }
        1 => {
            let n = 4 * rng.urange(1, 3);
            v.extend(rng.bytes(n));
        }
        2 | 3 if !v.is_empty() => {
            // corrupt the root object (last 8 bytes: length/offset or inline bytes)
            let n = v.len();
            let i = n - 1 - rng.usize(n.min(8));
            let r = rng.u64() as u8;
            v[i] = *rng.pick(&[0u8, 0xff, 0x80, 0x7f, 1, r]);
        }
        4 if !v.is_empty() => {
            let i = rng.usize(v.len());
            v[i] = 0; // plant a NUL in content
        }
        5 if !v.is_empty() => {
            let i = rng.usize(v.len());
            v[i] ^= 1 << rng.below(8);
        }
        _ if !v.is_empty() => {
            for _ in 0..rng.urange(1, 3) {
                let i = rng.usize(v.len());
                v[i] = rng.u64() as u8;
            }
        }
        _ => {}
    }
    v
}

fn check_archive_case(cx: &mut Ctx<'_>, buf: &[u8], tag: &'static str) {
    let a = aligned(buf);
    let (t, i) = access_archive(cx, &a, tag, None);
    cx.m.count(if t || i { "rkyv_corrupt_accepted" } else { "rkyv_corrupt_rejected" }, 1);
}

/// Drive every producer with one input. `mutations`: number of corrupted archives derived from it.
fn check_input(m: &mut Monitor, tally: &mut Tally, bytes: &[u8], rng: &mut Rng, mutations: usize) {
    let mut cx = Ctx { m, tally, case: Case::Input(bytes) };
    let cx = &mut cx;
    let utf8 = std::str::from_utf8(bytes).ok();
    let tv = utf8.map(text_inv);
    let iv = utf8.map(ident_inv);

    if let Some(s) = utf8 {
        cx.m.count("inputs_utf8", 1);
        let t_ok = drive(cx, Kind::Text, "from_str", "", Some(s), tv, || text_of(Text::from_str(s)));
        drive(cx, Kind::Text, "try_from-String", "", Some(s), tv, || text_of(Text::try_from(s.to_owned())));
        let i_ok = drive(cx, Kind::Ident, "from_str", "", Some(s), iv, || ident_of(Identifier::from_str(s)));
        drive(cx, Kind::Ident, "try_from-String", "", Some(s), iv, || ident_of(Identifier::try_from(s.to_owned())));
        if t_ok {
            cx.m.count(if s.len() <= MAX_INLINE { "text_len_le_inline" } else { "text_len_gt_inline" }, 1);
            if s.len() == MAX_INLINE || s.len() == MAX_INLINE + 1 {
                cx.m.count("text_at_inline_threshold", 1);
            }
            drive(cx, Kind::Ident, "try_from-Text", "", Some(s), iv, || {
                ident_of(Identifier::try_from(Text::from_str(s).map_err(|_| ())?))
            });
            drive(cx, Kind::Text, "clone", "", Some(s), tv, || {
                let t = Text::from_str(s).map_err(|_| ())?;
                let c = t.clone();
                drop(t);
                Ok(c.as_str().to_owned())
            });
            // The representation chosen must be the one the length implies.
            if let Ok(t) = Text::from_str(s) {
                if !s.is_empty() && stored_inline(&t, t.as_str()) != (s.len() <= MAX_INLINE) {
                    cx.m.count("repr_not_as_expected", 1);
                }
            }
        }
        if i_ok {
            drive(cx, Kind::Text, "from-Identifier", "", Some(s), tv, || {
                Ok(Text::from(Identifier::from_str(s).map_err(|_| ())?).as_str().to_owned())
            });
            drive(cx, Kind::Ident, "clone", "", Some(s), iv, || {
                let t = Identifier::from_str(s).map_err(|_| ())?;
                let c = t.clone();
                drop(t);
                Ok(c.as_str().to_owned())
            });
        }

        // serde_json: borrowed (no escapes), escaped, every char escaped, Value, reader.
        let plain = serde_json::to_string(s).expect("json string");
        let escaped = json_all_escaped(s);
        for (prod, doc) in [("json", &plain), ("json-escaped", &escaped)] {
            let ok = drive(cx, Kind::Text, prod, "", Some(s), tv, || text_of(serde_json::from_str::<Text>(doc)));
            if !ok && tv == Some(false) {
                cx.m.count("json_nul_rejected", 1);
            }
            let ok = drive(cx, Kind::Ident, prod, "", Some(s), iv, || ident_of(serde_json::from_str::<Identifier>(doc)));
            if !ok && iv == Some(false) {
                cx.m.count("json_bad_ident_rejected", 1);
            }
        }
        drive(cx, Kind::Text, "json-value", "", Some(s), tv, || {
            text_of(serde_json::from_value::<Text>(Value::String(s.to_owned())))
        });
        drive(cx, Kind::Ident, "json-value", "", Some(s), iv, || {
            ident_of(serde_json::from_value::<Identifier>(Value::String(s.to_owned())))
        });
        drive(cx, Kind::Text, "json-reader", "", Some(s), tv, || {
            text_of(serde_json::from_reader::<_, Text>(plain.as_bytes()))
        });
        drive(cx, Kind::Ident, "json-reader", "", Some(s), iv, || {
            ident_of(serde_json::from_reader::<_, Identifier>(plain.as_bytes()))
        });
    } else {
        cx.m.count("inputs_not_utf8", 1);
    }

    // Raw bytes between quotes (NUL / control bytes / invalid UTF-8 reach the JSON string parser).
    {
        let mut doc = Vec::with_capacity(bytes.len() + 2);
        doc.push(b'"');
        doc.extend_from_slice(bytes);
        doc.push(b'"');
        drive(cx, Kind::Text, "json-raw-bytes", "", None, None, || text_of(serde_json::from_slice::<Text>(&doc)));
        drive(cx, Kind::Ident, "json-raw-bytes", "", None, None, || ident_of(serde_json::from_slice::<Identifier>(&doc)));
    }

    // postcard: length-prefixed bytes, valid UTF-8 or not.
    {
        let frame = postcard_str_frame(bytes);
        let ok = drive(cx, Kind::Text, "postcard", "", utf8, tv, || text_of(postcard::from_bytes::<Text>(&frame)));
        if utf8.is_none() {
            cx.m.count("postcard_invalid_utf8", 1);
            if ok {
                cx.viol("text-postcard-accepted-invalid-utf8", json!(null));
            }
        } else if !ok && tv == Some(false) {
            cx.m.count("postcard_nul_rejected", 1);
        }
        let ok = drive(cx, Kind::Ident, "postcard", "", utf8, iv, || ident_of(postcard::from_bytes::<Identifier>(&frame)));
        if ok && utf8.is_none() {
            cx.viol("ident-postcard-accepted-invalid-utf8", json!(null));
        }
        // Truncated frame (length says more than there is).
        if !bytes.is_empty() {
            let cut = &frame[..frame.len() - 1];
            drive(cx, Kind::Text, "postcard-truncated", "", None, None, || text_of(postcard::from_bytes::<Text>(cut)));
        }
    }

    // &CStr: content up to the first NUL.
    {
        let mut z = bytes.to_vec();
        z.push(0);
        let c: &CStr = CStr::from_bytes_until_nul(&z).expect("has nul");
        let prefix = c.to_bytes();
        let want = std::str::from_utf8(prefix).ok();
        let ok = drive(cx, Kind::Text, "try_from-CStr", "", want, want.map(text_inv), || text_of(Text::try_from(c)));
        match want {
            None => {
                cx.m.count("cstr_invalid_utf8", 1);
                if ok {
                    cx.viol("text-cstr-accepted-invalid-utf8", json!(null));
                }
            }
            Some(_) if ok => cx.m.count("cstr_ok", 1),
            _ => {}
        }
        if let Ok(owned) = CString::new(bytes) {
            let w = owned.to_str().ok();
            drive(cx, Kind::Text, "try_from-CString", "", w, w.map(text_inv), || text_of(Text::try_from(owned.as_c_str())));
        }
    }

    // rkyv: honest archive of a Text / Identifier, hostile archive of arbitrary bytes, corruptions.
    let mut sources: Vec<AlignedVec> = vec![];
    if let Some(s) = utf8 {
        if let Ok(t) = Text::from_str(s) {
            match catch(|| rkyv::to_bytes::<RErr>(&t)) {
                Ok(Ok(ar)) => {
                    let (a, _) = access_archive(cx, &ar, "honest", Some(s));
                    if !a {
                        cx.viol("text-rkyv-own-archive-refused", json!(null));
                    }
                    sources.push(ar);
                }
                Ok(Err(e)) => cx.viol("text-rkyv-serialize-failed", json!(e.to_string())),
                Err(p) => cx.panicked("rkyv-serialize", &p),
            }
        }
        if let Ok(t) = Identifier::from_str(s) {
            if let Ok(Ok(ar)) = catch(|| rkyv::to_bytes::<RErr>(&t)) {
                let (_, i) = access_archive(cx, &ar, "honest-ident", Some(s));
                if !i {
                    cx.viol("ident-rkyv-own-archive-refused", json!(null));
                }
            }
        }
    }
    if let Some(ar) = hostile_archive(bytes) {
        // Expected content is only known when no 0xff terminates an inline string early.
        let want = if bytes.len() > RKYV_INLINE || !bytes.contains(&0xff) { utf8 } else { None };
        let (t, i) = access_archive(cx, &ar, "hostile", want);
        if utf8.is_none() && bytes.len() > RKYV_INLINE {
            cx.m.count("rkyv_hostile_invalid_utf8", 1);
            if t || i {
                cx.viol("rkyv-access-accepted-invalid-utf8", json!(null));
            }
        }
        if tv == Some(false) {
            cx.m.count(if t { "rkyv_hostile_nul_accepted" } else { "rkyv_hostile_nul_rejected" }, 1);
        }
        if iv == Some(false) && !i {
            cx.m.count("rkyv_hostile_bad_ident_rejected", 1);
        }
        sources.push(ar);
    }
    for k in 0..mutations {
        if sources.is_empty() {
            break;
        }
        let src = &sources[k % sources.len()];
        let bad = corrupt(rng, src);
        let mut sub = Ctx { m: &mut *cx.m, tally: &mut *cx.tally, case: Case::Archive(&bad) };
        check_archive_case(&mut sub, &bad, "corrupt");
    }
}

// ---------------------------------------------------------------------------
// Input generator
// ---------------------------------------------------------------------------

const EDGE_LENS: &[usize] = &[1, 2, 7, 8, 9, 15, 16, 21, 22, 23, 24, 25, 31, 32, 33, 44, 45, 46, 63, 64, 255, 256, 257];

fn gen_len(rng: &mut Rng, small: bool) -> usize {
    match rng.below(4) {
        0 if small => *rng.pick(&EDGE_LENS[..12]),
        0 => *rng.pick(EDGE_LENS),
        1 => rng.urange(MAX_INLINE - 2, MAX_INLINE + 2),
        _ => rng.urange(0, 48),
    }
}

fn gen_ident(rng: &mut Rng, len: usize) -> String {
    const HEAD: &[u8] = b"abcdefghijklmnopqrstuvwxyzABCDEFGHIJKLMNOPQRSTUVWXYZ";
    const TAIL: &[u8] = b"abcdefghijklmnopqrstuvwxyzABCDEFGHIJKLMNOPQRSTUVWXYZ0123456789_";
    let len = len.max(1);
    let mut s = String::with_capacity(len);
    s.push(*rng.pick(HEAD) as char);
    for _ in 1..len {
        s.push(*rng.pick(TAIL) as char);
    }
    s
}

fn gen_ascii(rng: &mut Rng, len: usize) -> String {
    (0..len).map(|_| (0x20 + rng.below(0x5f) as u8) as char).collect()
}

fn gen_char(rng: &mut Rng) -> char {
    match rng.below(10) {
        0 => *rng.pick(&['é', 'ß', 'ñ', 'Ω', 'ж']),
        1 => *rng.pick(&['€', '\u{2028}', '\u{feff}', '中', '\u{ffff}', '\u{fffd}']),
        2 => *rng.pick(&['😀', '\u{10000}', '\u{10ffff}']),
        3 => *rng.pick(&['"', '\\', '/', '\n', '\t', '\r', '\u{1}', '\u{7f}', '\u{80}', '\u{ff}']),
        4 => char::from_u32(rng.below(0x11_0000) as u32).unwrap_or('x'),
        _ => (0x20 + rng.below(0x5f) as u8) as char,
    }
}

/// Unicode string of exactly `len` bytes when possible (pads with ASCII).
fn gen_unicode(rng: &mut Rng, len: usize) -> String {
    let mut s = String::with_capacity(len + 4);
    while s.len() < len {
        let c = gen_char(rng);
        if c != '\0' && s.len() + c.len_utf8() <= len {
            s.push(c);
        } else if c != '\0' {
            s.push('x');
        }
    }
    s
}

fn insert_at(rng: &mut Rng, s: &str, what: &str, place: u64) -> String {
    let mut idx = match place {
        0 => 0,
        1 => s.len(),
        _ => rng.usize(s.len() + 1),
    };
    while !s.is_char_boundary(idx) {
        idx -= 1;
    }
    format!("{}{what}{}", &s[..idx], &s[idx..])
}

fn gen_input(rng: &mut Rng, max_long: usize) -> (&'static str, Vec<u8>) {
    // `small` (Miri): interpretation cost grows with length, the thresholds are all below 26.
    let small = max_long <= 256;
    let len = gen_len(rng, small);
    match rng.weighted(&[1, 8, 10, 10, 10, 6, 6, 10, 1, 5]) {
        0 => ("empty", vec![]),
        1 => ("ascii", gen_ascii(rng, len).into_bytes()),
        2 => ("ident", gen_ident(rng, len).into_bytes()),
        3 => {
            // near-identifier
            let base = gen_ident(rng, len);
            let s = match rng.below(9) {
                0 => format!("{}{}", rng.below(10), &base[1..]),
                1 => format!("_{}", &base[1..]),
                2 => {
                    let w = *rng.pick(&["é", "ａ", "Ω", "\u{200b}", "😀"]);
                    insert_at(rng, &base, w, 2)
                }
                3 => {
                    let w = *rng.pick(&["-", " ", ".", "$", "\n", "\u{7f}", "@"]);
                    insert_at(rng, &base, w, 2)
                }
                4 => {
                    let pl = rng.below(3);
                    insert_at(rng, &base, "\0", pl)
                }
                5 => format!("{base}{}", *rng.pick(&[" ", "-", "\0", "é", "\n"])),
                6 => format!("{}{}", *rng.pick(&["é", "Ａ", " ", "-", "\0"]), base),
                7 => rng.pick(&["_", "0", "9a", "__a", "a\0", "\0a", "a b", "A_0", "Z", "z9_"]).to_string(),
                _ => base.to_uppercase(),
            };
            ("near-ident", s.into_bytes())
        }
        4 => {
            // NUL placement
            let base = if rng.bool() { gen_unicode(rng, len) } else { gen_ascii(rng, len) };
            let s = match rng.below(6) {
                0 => insert_at(rng, &base, "\0", 0),
                1 => insert_at(rng, &base, "\0", 1),
                2 => insert_at(rng, &base, "\0", 2),
                3 => "\0".repeat(rng.urange(1, 30)),
                4 => {
                    let t = insert_at(rng, &base, "\0", 2);
                    insert_at(rng, &t, "\0", 2)
                }
                // NUL exactly at / next to the inline threshold
                _ => {
                    let mut b = gen_ascii(rng, MAX_INLINE + 2).into_bytes();
                    let i = rng.urange(MAX_INLINE - 2, MAX_INLINE + 1);
                    b[i] = 0;
                    b.truncate(rng.urange(i + 1, MAX_INLINE + 2));
                    String::from_utf8(b).unwrap()
                }
            };
            ("nul", s.into_bytes())
        }
        5 => {
            let n = rng.urange(1, 40);
            ("random-bytes", rng.bytes(n))
        }
        6 => {
            // valid UTF-8 broken by one bad sequence
            let mut b = gen_unicode(rng, len).into_bytes();
            let bad: &[u8] = *rng.pick(&[&[0xffu8][..], &[0xc0, 0x80], &[0xe2, 0x82], &[0xed, 0xa0, 0x80], &[0xf8], &[0x80], &[0xc0, 0x00]]);
            let at = match rng.below(3) {
                0 => 0,
                1 => b.len(),
                _ => rng.usize(b.len() + 1),
            };
            b.splice(at..at, bad.iter().copied());
            ("broken-utf8", b)
        }
        7 => ("unicode", gen_unicode(rng, len).into_bytes()),
        8 => {
            let n = rng.urange(max_long / 4, max_long).max(64);
            let mut s = match rng.below(3) {
                0 => gen_ident(rng, n),
                1 => gen_ascii(rng, n),
                _ => gen_unicode(rng, n),
            };
            if rng.chance(1, 3) {
                let pl = rng.below(3);
                s = insert_at(rng, &s, "\0", pl);
            }
            ("long", s.into_bytes())
        }
        _ => {
            // JSON-sensitive text: escapes spelled out literally, quotes, backslashes.
            let base = gen_ascii(rng, len.min(40));
            let what = *rng.pick(&["\\u0000", "\\\\u0000", "\"", "\\", "\\ud800", "\\n", "\\x00", "\\0"]);
            ("json-sensitive", insert_at(rng, &base, what, 2).into_bytes())
        }
    }
}

// ---------------------------------------------------------------------------
// Eq / Ord / Hash across representations
// ---------------------------------------------------------------------------

/// Literals that become `Static` representations through `text!`. L22 + "a" == L23 so that a
/// static, an inline+Add-made heap and a parsed heap value of identical content meet.
macro_rules! text_lits {
    ($($l:literal),* $(,)?) => { vec![$(($l, text!($l))),*] };
}
macro_rules! ident_lits {
    ($($l:literal),* $(,)?) => { vec![$(($l, ident!($l))),*] };
}

static STATIC_SHORT: Text = text!("static short");
static STATIC_LONG: Text = text!("a static text that is longer than the inline capacity");
const CONST_IDENT: Identifier = ident!("const_identifier_longer_than_inline_cap");

fn static_texts() -> Vec<(&'static str, Text)> {
    let mut v = text_lits![
        "", "a", "b", "ab", "abcdefg", "abcdefgh", "abcdefghi",
        "abcdefghijklmnopqrstu", "abcdefghijklmnopqrstuv", "abcdefghijklmnopqrstuva",
        "abcdefghijklmnopqrstuvb", "abcdefghijklmnopqrstuvwx", "abcdefghijklmnopqrstuw",
        "ééééééééééé", "éééééééééééa", "ééééééééééé€", "zz", "Z", "~", "\u{10ffff}",
        "the quick brown fox jumps over the lazy dog", "the quick brown fox jumps over the lazy doh",
        "static short", "a static text that is longer than the inline capacity",
    ];
    v.push(("", text!()));
    v.push(("", Text::new()));
    v.push(("", Text::default()));
    v.push(("static short", STATIC_SHORT.clone()));
    v.push(("a static text that is longer than the inline capacity", STATIC_LONG.clone()));
    v
}

fn static_idents() -> Vec<(&'static str, Identifier)> {
    let mut v = ident_lits![
        "a", "b", "A", "ab", "a_", "a0", "abcdefgh", "abcdefghi",
        "abcdefghijklmnopqrstu", "abcdefghijklmnopqrstuv", "abcdefghijklmnopqrstuva",
        "abcdefghijklmnopqrstuvb", "abcdefghijklmnopqrstuw", "Abcdefghijklmnopqrstuv",
        "a_very_long_identifier_0123456789_ABCDEFGHIJKLMNOPQRSTUVWXYZ",
        "a_very_long_identifier_0123456789_ABCDEFGHIJKLMNOPQRSTUVWXYz",
        "const_identifier_longer_than_inline_cap",
    ];
    v.push(("const_identifier_longer_than_inline_cap", CONST_IDENT));
    v
}

struct Entry<T> {
    v: T,
    /// "static" | "inline" | "heap", known by construction (literal vs parsed, length).
    repr: &'static str,
    how: &'static str,
}

fn parsed_repr(s: &str) -> &'static str {
    if s.len() <= MAX_INLINE { "inline" } else { "heap" }
}

trait Val: Clone + Eq + Ord + std::hash::Hash + PartialEq<str> + for<'a> PartialEq<&'a str> {
    fn s(&self) -> &str;
    fn ceq(&self, o: &Self) -> bool;
}
impl Val for Text {
    fn s(&self) -> &str { self.as_str() }
    fn ceq(&self, o: &Self) -> bool { self.const_eq(o) }
}
impl Val for Identifier {
    fn s(&self) -> &str { self.as_str() }
    fn ceq(&self, o: &Self) -> bool { self.const_eq(o) }
}

fn related(a: &str, b: &str) -> bool {
    let common = a.bytes().zip(b.bytes()).take_while(|(x, y)| x == y).count();
    common + 1 >= a.len().min(b.len())
}

fn check_pairs<T: Val>(m: &mut Monitor, kind: Kind, pool: &[Entry<T>], case: &Value) {
    let hashes: Vec<u64> = pool.iter().map(|e| hash_of(&e.v)).collect();
    for e in pool {
        m.count(&format!("pool_{}_{}", kind.name(), e.repr), 1);
        if !kind.inv(e.v.s()) {
            m.violation(&format!("{}-invariant-broken-in-pool:{}", kind.name(), e.how),
                json!({"case": case, "value_hex": hex(e.v.s().as_bytes())}));
        }
        if hash_of(&e.v) != hash_of(&e.v.s()) {
            m.count("hash_differs_from_str_hash", 1);
        }
    }
    for (i, a) in pool.iter().enumerate() {
        for (j, b) in pool.iter().enumerate() {
            let (sa, sb) = (a.v.s(), b.v.s());
            m.eval();
            let r = catch(|| {
                let mut bad: Vec<&'static str> = vec![];
                if (a.v == b.v) != (sa == sb) || (a.v != b.v) != (sa != sb) { bad.push("eq"); }
                if a.v.cmp(&b.v) != sa.cmp(sb) { bad.push("cmp"); }
                if a.v.partial_cmp(&b.v) != Some(sa.cmp(sb)) { bad.push("partial_cmp"); }
                if (a.v < b.v) != (sa < sb) || (a.v >= b.v) != (sa >= sb) { bad.push("lt-ge"); }
                if a.v.ceq(&b.v) != (sa == sb) { bad.push("const_eq"); }
                if (a.v == *sb) != (sa == sb) { bad.push("eq-str"); }
                if (a.v == sb) != (sa == sb) { bad.push("eq-ref-str"); }
                if sa == sb && hashes[i] != hashes[j] { bad.push("hash"); }
                bad
            });
            let pair = || json!({"case": case, "a_hex": hex(sa.as_bytes()), "a_repr": a.repr, "a_how": a.how,
                                 "b_hex": hex(sb.as_bytes()), "b_repr": b.repr, "b_how": b.how});
            match r {
                Ok(bad) => {
                    for what in bad {
                        let (x, y) = if a.repr <= b.repr { (a.repr, b.repr) } else { (b.repr, a.repr) };
                        m.violation(&format!("{}-{what}-disagrees-with-str:{x}-vs-{y}", kind.name()), pair());
                    }
                }
                Err(p) => m.violation(&format!("text-compare-panic:{}", p.site()), json!({"pair": pair(), "panic": p.what})),
            }
            if a.repr != b.repr {
                let (x, y) = if a.repr <= b.repr { (a.repr, b.repr) } else { (b.repr, a.repr) };
                if sa == sb {
                    m.count(&format!("pairs_equal_{x}_{y}"), 1);
                } else {
                    m.count(&format!("pairs_differ_{x}_{y}"), 1);
                }
                if related(sa, sb) {
                    m.nontrivial(hash_of(&("pair", kind.name(), a.repr, b.repr, sa, sb)));
                }
            } else if sa == sb && i != j {
                m.count(&format!("pairs_equal_{}_{}", a.repr, b.repr), 1);
            }
            let _ = Ordering::Equal;
        }
    }
}

fn variants(rng: &mut Rng, s: &str, ident: bool) -> Vec<String> {
    let mut out = vec![s.to_owned()];
    out.push(format!("{s}a"));
    out.push(format!("{s}{}", if ident { "_" } else { "~" }));
    if s.len() > 1 && s.is_char_boundary(s.len() - 1) {
        out.push(s[..s.len() - 1].to_owned());
        out.push(format!("{}{}", &s[..s.len() - 1], if ident { 'Q' } else { '!' }));
    }
    if !s.is_empty() && rng.bool() {
        let pad = if ident { gen_ident(rng, MAX_INLINE) } else { gen_ascii(rng, MAX_INLINE) };
        out.push(format!("{s}{pad}"));
    }
    out
}

/// One pool round: statics + parsed twins + neighbours + random values + Add / serde / rkyv made
/// values, then the all-pairs oracle for Text and for Identifier.
/// Keep a window of `cap` entries around a static entry in content order: equal contents and
/// near neighbours (prefix, last byte differs) are adjacent there, so the interesting
/// cross-representation pairs survive the cut. Even rounds centre on a long (heap twin) static,
/// odd rounds on a short (inline twin) one.
fn window<T: Val>(rng: &mut Rng, pool: &mut Vec<Entry<T>>, cap: usize, round: u64) {
    if cap == 0 || pool.len() <= cap {
        return;
    }
    pool.sort_by(|a, b| a.v.s().cmp(b.v.s()));
    let want_long = round % 2 == 0;
    let centres: Vec<usize> = pool.iter().enumerate()
        .filter(|(_, e)| e.repr == "static" && (e.v.s().len() > MAX_INLINE) == want_long && !e.v.s().is_empty())
        .map(|(i, _)| i)
        .collect();
    let c = if centres.is_empty() { rng.usize(pool.len()) } else { *rng.pick(&centres) };
    let lo = c.saturating_sub(cap / 2).min(pool.len() - cap);
    pool.drain(..lo);
    pool.truncate(cap);
}

fn pool_round(m: &mut Monitor, seed: u64, round: u64, cap: usize) {
    let mut rng = Rng::new(seed).fork(0x9001).fork(round);
    let case = json!({"kind": "pool", "seed": seed, "round": round, "cap": cap});
    let mut tp: Vec<Entry<Text>> = vec![];
    let mut ip: Vec<Entry<Identifier>> = vec![];
    let mut tstr: Vec<String> = vec![];
    let mut istr: Vec<String> = vec![];
    for (s, t) in static_texts() {
        tp.push(Entry { v: t, repr: "static", how: "text!" });
        tstr.extend(variants(&mut rng, s, false));
    }
    for (s, t) in static_idents() {
        tp.push(Entry { v: Text::from(t.clone()), repr: "static", how: "Text::from(ident!)" });
        ip.push(Entry { v: t, repr: "static", how: "ident!" });
        istr.extend(variants(&mut rng, s, true));
    }
    for _ in 0..12 {
        let n = rng.urange(MAX_INLINE - 3, MAX_INLINE + 3);
        let base = gen_ident(&mut rng, n);
        istr.extend(variants(&mut rng, &base, true));
        let base = if rng.bool() { gen_unicode(&mut rng, n) } else { gen_ascii(&mut rng, n) };
        tstr.extend(variants(&mut rng, &base, false));
    }
    tstr.extend(istr.iter().take(20).cloned());
    for s in &tstr {
        let Ok(t) = Text::from_str(s) else { continue };
        let repr = parsed_repr(s);
        match rng.below(5) {
            0 => {
                if let Ok(x) = serde_json::from_str::<Text>(&serde_json::to_string(s).unwrap()) {
                    tp.push(Entry { v: x, repr, how: "serde_json" });
                }
            }
            1 => {
                if let Ok(x) = rkyv::to_bytes::<RErr>(&t).and_then(|b| rkyv::from_bytes::<Text, RErr>(&b)) {
                    tp.push(Entry { v: x, repr, how: "rkyv" });
                }
            }
            2 if s.len() > 2 => {
                let mut cut = rng.urange(1, s.len() - 1);
                while !s.is_char_boundary(cut) { cut -= 1; }
                if let (Ok(a), Ok(b)) = (Text::from_str(&s[..cut]), Text::from_str(&s[cut..])) {
                    tp.push(Entry { v: &a + &b, repr, how: "add" });
                }
            }
            3 => tp.push(Entry { v: t.clone(), repr, how: "clone" }),
            _ => {}
        }
        tp.push(Entry { v: t, repr, how: "from_str" });
    }
    for s in &istr {
        let Ok(t) = Identifier::from_str(s) else { continue };
        let repr = parsed_repr(s);
        match rng.below(4) {
            0 => {
                if let Ok(x) = postcard::from_bytes::<Identifier>(&postcard_str_frame(s.as_bytes())) {
                    ip.push(Entry { v: x, repr, how: "postcard" });
                }
            }
            1 => {
                if let Ok(x) = rkyv::to_bytes::<RErr>(&t).and_then(|b| rkyv::from_bytes::<Identifier, RErr>(&b)) {
                    ip.push(Entry { v: x, repr, how: "rkyv" });
                }
            }
            2 => {
                if let Ok(x) = Identifier::try_from(Text::from_str(s).unwrap()) {
                    ip.push(Entry { v: x, repr, how: "try_from-Text" });
                }
            }
            _ => {}
        }
        ip.push(Entry { v: t, repr, how: "from_str" });
    }
    window(&mut rng, &mut tp, cap, round);
    window(&mut rng, &mut ip, cap, round);
    // The representation assumed by construction is confirmed from outside where that is possible.
    for e in &tp {
        if !e.v.is_empty() {
            let inl = stored_inline(&e.v, e.v.as_str());
            if inl != (e.repr == "inline") {
                m.count("repr_not_as_expected", 1);
            } else {
                m.count(if inl { "repr_inline_confirmed" } else { "repr_out_of_line_confirmed" }, 1);
            }
        }
    }
    check_pairs(m, Kind::Text, &tp, &case);
    check_pairs(m, Kind::Ident, &ip, &case);
    m.sample(|| json!({"pool_round": round, "texts": tp.len(), "idents": ip.len(),
        "example": tp.iter().rev().take(3).map(|e| json!({"s": e.v.as_str(), "repr": e.repr, "how": e.how})).collect::<Vec<_>>()}));
}

// ---------------------------------------------------------------------------
// Concatenation
// ---------------------------------------------------------------------------

fn check_add(m: &mut Monitor, tally: &mut Tally, a: &str, b: &str, a_static: Option<&Text>) {
    let mut cx = Ctx { m, tally, case: Case::Add(a, b, a_static.is_some()) };
    let (Ok(ta), Ok(tb)) = (Text::from_str(a), Text::from_str(b)) else { return };
    let ta = a_static.cloned().unwrap_or(ta);
    let want = format!("{a}{b}");
    let ok = drive(&mut cx, Kind::Text, "add", "", Some(&want), Some(true), || {
        let z = &ta + &tb;
        // operands stay intact
        if ta.as_str() != a || tb.as_str() != b { return Err(()); }
        Ok(z.as_str().to_owned())
    });
    if !ok {
        cx.viol("text-add-failed-or-changed-operand", json!(null));
    }
    if a.len() <= MAX_INLINE && b.len() <= MAX_INLINE && want.len() > MAX_INLINE {
        cx.m.count("add_inline_to_heap", 1);
    }
    if want.len() <= MAX_INLINE {
        cx.m.count("add_stays_inline", 1);
    }
    cx.m.nontrivial(mix2(hash_of(&a), hash_of(&b)));
}

// ---------------------------------------------------------------------------
// Driver
// ---------------------------------------------------------------------------

const SHARDS: u64 = 32;

fn run_shard(m: &mut Monitor, seed: u64, shard: u64, inputs: u64, max_long: usize, mutations: usize) {
    let mut rng = Rng::new(seed).fork(32).fork(shard);
    let mut prev: Vec<String> = vec![];
    let mut tally = Tally::default();
    let tally = &mut tally;
    // Shard 0 starts with a fixed list that touches every branch of the oracle once, so that even
    // the small Miri slice covers all producers on both sides of both thresholds.
    let fixed: &[&[u8]] = if shard == 0 {
        &[
            b"", b"a", b"abcdefgh", b"abcdefghi", b"abcdefghijklmnopqrstuv", b"abcdefghijklmnopqrstuvw",
            b"a\0b", b"\0", b"abcdefghijklmnopqrstuv\0", b"\0abcdefghijklmnopqrstuvwxyz", b"9abc", b"_a",
            "\u{e9}t\u{e9}".as_bytes(), b"a_long_identifier_0123456789_xyz", b"ab\\u0000cd", b"not an identifier, but text",
            b"\xff\xfe", b"abcdefghijkl\xc0\x80mnopqrstuvwxyz", b"ab\xffcd", b"id\0entifier_with_nul_inside_it",
        ]
    } else {
        &[]
    };
    for n in 0..inputs + fixed.len() as u64 {
        let (class, bytes) = match fixed.get(n as usize) {
            Some(b) => ("fixed", b.to_vec()),
            None => gen_input(&mut rng, max_long),
        };
        m.count(&format!("class_{class}"), 1);
        check_input(m, tally, &bytes, &mut rng, mutations);
        let utf8 = std::str::from_utf8(&bytes).ok();
        if !bytes.is_empty() && utf8.is_some() {
            // valid UTF-8: acceptance / rejection was decided by the validators, not by decoding
            m.nontrivial(hash_of(&bytes));
        }
        if let Some(s) = utf8 {
            if text_inv(s) && s.len() <= 300 {
                if let Some(p) = prev.get(rng.usize(prev.len().max(1))) {
                    check_add(m, tally, p, s, None);
                    check_add(m, tally, s, p, None);
                }
                if prev.len() < 16 { prev.push(s.to_owned()); } else { let i = rng.usize(16); prev[i] = s.to_owned(); }
                if n % 64 == 0 {
                    check_add(m, tally, STATIC_SHORT.as_str(), s, Some(&STATIC_SHORT));
                    check_add(m, tally, STATIC_LONG.as_str(), s, Some(&STATIC_LONG));
                    check_add(m, tally, "", s, Some(&Text::new()));
                }
            }
        }
        if shard == 0 && n < 3 {
            m.sample(|| json!({"class": class, "input_hex": hex(&bytes[..bytes.len().min(64)]), "len": bytes.len()}));
        }
    }
    tally.flush(m);
}

fn replay(m: &mut Monitor, r: &Value, seed: u64) {
    // violation detail is {"case": {...}, "info": ...}; replay file wraps it in "case" again.
    let mut c = &r["case"];
    while c["case"].is_object() {
        c = &c["case"];
    }
    if c["pair"]["case"].is_object() {
        c = &c["pair"]["case"];
    }
    let bytes = |k: &str| unhex(c[k].as_str().unwrap_or("")).unwrap_or_default();
    let mut tally = Tally::default();
    match c["kind"].as_str() {
        Some("input") => check_input(m, &mut tally, &bytes("hex"), &mut Rng::new(seed), 0),
        Some("archive") => {
            let b = bytes("hex");
            let mut cx = Ctx { m, tally: &mut tally, case: Case::Archive(&b) };
            check_archive_case(&mut cx, &b, "corrupt");
        }
        Some("pool") => pool_round(m, c["seed"].as_u64().unwrap_or(seed), c["round"].as_u64().unwrap_or(0), c["cap"].as_u64().unwrap_or(0) as usize),
        Some("add") => {
            let (a, b) = (bytes("a_hex"), bytes("b_hex"));
            let (a, b) = (String::from_utf8_lossy(&a).into_owned(), String::from_utf8_lossy(&b).into_owned());
            let st = if c["a_static"].as_bool() == Some(true) {
                [&STATIC_SHORT, &STATIC_LONG].into_iter().find(|t| t.as_str() == a).cloned().or(Some(Text::new()))
            } else {
                None
            };
            check_add(m, &mut tally, &a, &b, st.as_ref());
        }
        other => panic!("unknown replay case kind {other:?}"),
    }
    tally.flush(m);
}

fn main() {
    let args = Args::parse();
    let mut m = Monitor::new(
        "C32",
        "inputs = generated byte strings (empty, ASCII, identifiers, near-identifiers with leading digit/underscore/unicode/NUL, NUL at start/middle/end, random bytes, broken UTF-8, unicode, long, JSON-sensitive; lengths biased to the 22-byte inline and 8-byte rkyv-inline thresholds) pushed through FromStr, TryFrom<String>/<Text>/<&CStr>, From<Identifier>, Clone, serde_json (plain, all-escaped, Value, reader, raw bytes), postcard (valid and invalid UTF-8, truncated), rkyv access/deserialize/from_bytes on honest, hostile (String archive read as Text/Identifier) and corrupted archives, and Add; plus pools of static (text!/ident!), inline and heap values compared pairwise (eq, cmp, const_eq, PartialEq<str>, hash) against str. non-trivial = distinct valid-UTF-8 non-empty input (outcome decided by the validator), distinct Add operand pair, or distinct cross-representation pair with related contents (equal / prefix / last byte differs)",
    )
    .min(if cfg!(miri) { 40 } else { 200 })
    .require("ok_text_from_str", "Text accepted")
    .require("err_text_from_str", "Text with NUL refused")
    .require("ok_ident_from_str", "Identifier accepted")
    .require("err_ident_from_str", "Identifier refused")
    .require("json_nul_rejected", "escaped NUL reached the Text deserializer")
    .require("postcard_nul_rejected", "NUL through postcard")
    .require("postcard_invalid_utf8", "invalid UTF-8 through postcard")
    .require("cstr_ok", "CStr conversion")
    .require("cstr_invalid_utf8", "CStr with invalid UTF-8")
    .require("rkyv_hostile_nul_rejected", "archive of a string with NUL accessed as Text")
    .require("rkyv_hostile_bad_ident_rejected", "archive of a non-identifier accessed as Identifier")
    .require("rkyv_corrupt_accepted", "some corrupted archives still validate (invariant checked on them)")
    .require("rkyv_corrupt_rejected", "some corrupted archives are refused")
    .require("ok_text_rkyv-deserialize-honest", "rkyv deserialize")
    .require("add_inline_to_heap", "concatenation crossing the inline threshold")
    .require("pairs_equal_inline_static", "equal content, static vs inline")
    .require("pairs_equal_heap_static", "equal content, static vs heap")
    .require("pairs_differ_heap_inline", "different content, inline vs heap")
    .require("text_at_inline_threshold", "lengths 22/23");
    if let Some(r) = args.replay_case() {
        replay(&mut m, &r, args.seed);
        finish_all(&args, vec![m]);
    }
    // Under Miri (scale 1) the defaults come to 20 fixed + 32 generated inputs of at most 256 bytes,
    // one corrupted archive per input and 2 pool rounds cut to a 12-entry window; `--set inputs= / pool_rounds= /
    // pool_cap=` override. Miri is there for the unsafe paths (inline slice, ArcStr alloc/dealloc,
    // archive casts), which every input exercises; the bulk sampling is the native engines' job.
    let miri = cfg!(miri);
    let inputs = args.get_u64("inputs", args.n(200_000, 3_000_000) / if miri { 64 } else { 1 });
    let per_shard = (inputs / SHARDS).max(1);
    let max_long = if miri { 256 } else { args.n(100_000, 1_000_000) as usize };
    let mutations = if miri { 1 } else { 3 };
    let rounds = args.get_u64("pool_rounds", args.n(24, 240).max(2));
    let cap = args.get_u64("pool_cap", if miri { 12 } else { 0 }) as usize;
    let threads = cores().min(SHARDS as usize);
    let parts = par_shards(threads, |i, n| {
        let mut w = m.worker();
        let mut shard = i as u64;
        while shard < SHARDS {
            run_shard(&mut w, args.seed, shard, per_shard, max_long, mutations);
            shard += n as u64;
        }
        let mut round = i as u64;
        while round < rounds {
            pool_round(&mut w, args.seed, round, cap);
            round += n as u64;
        }
        w
    });
    for p in parts {
        m.absorb(p);
    }
    if m.counters.get("repr_not_as_expected").copied().unwrap_or(0) > 0 {
        m.inconclusive("a value was not stored in the representation its length implies: the static/inline/heap labels of the pair oracle cannot be trusted");
    }
    finish_all(&args, vec![m]);
}
