//! C33: Shared text storage is memory safe across threads.
//!
//! Real threads clone, read and drop heap-backed `Text` / `Identifier` values that share one
//! reference-counted allocation (`repr.rs` `arc::ArcStr`). Three workloads:
//!   * `barrier`: N handles to one allocation are released behind a `Barrier`, some threads
//!     cloning from their own handle while the others perform what may be the last drop;
//!   * `pipeline`: values travel through channels between workers, every hop reads, stashes
//!     clones and drops older clones in another thread than the one that made them;
//!   * `shared_ref`: threads clone from one `&Text` concurrently (same counter, same handle).
//! Oracles: content read by every thread equals the original string; natively the counting
//! global allocator must be back at its baseline (count and bytes) once a workload has joined;
//! under Miri / TSan / ASan the engine's own reports are the oracle.
use std::{
    alloc::{GlobalAlloc, Layout, System},
    str::FromStr,
    sync::{
        Arc, Barrier,
        atomic::{AtomicBool, AtomicI64, AtomicU64, Ordering},
        mpsc,
    },
};

use aranya_policy_text::{Identifier, Text};
use vcore::*;

const MAX_INLINE: usize = 3 * size_of::<usize>() - 2;

// ---------------------------------------------------------------------------
// Counting allocator
// ---------------------------------------------------------------------------

struct Counting;

static TRACK: AtomicBool = AtomicBool::new(false);
/// `--set tsan_acquire_hint=1` (TSan step only). ThreadSanitizer does not model
/// `atomic::fence(Acquire)`, which is how `ArcStr::drop` orders the other owners' last reads before
/// the free (std's `Arc` swaps the fence for an acquire load under TSan for the same reason). With
/// the hint the allocator performs that acquire load on the first word of a block about to be
/// freed (for an `ArcStr` block this is its `strong` counter). TSan then sees the
/// release-decrement -> acquire edge when the decrement really is `Release`, and still reports the
/// free as a race when it is `Relaxed`. It cannot tell whether the fence itself is there (Miri can).
static TSAN_HINT: AtomicBool = AtomicBool::new(false);
static LIVE_COUNT: AtomicI64 = AtomicI64::new(0);
static LIVE_BYTES: AtomicI64 = AtomicI64::new(0);
static TOTAL_ALLOCS: AtomicU64 = AtomicU64::new(0);

// SAFETY: forwards to `System`; the counters do not allocate.
unsafe impl GlobalAlloc for Counting {
    unsafe fn alloc(&self, l: Layout) -> *mut u8 {
        // SAFETY: same contract as the caller's.
        let p = unsafe { System.alloc(l) };
        if !p.is_null() && TRACK.load(Ordering::Relaxed) {
            LIVE_COUNT.fetch_add(1, Ordering::Relaxed);
            LIVE_BYTES.fetch_add(l.size() as i64, Ordering::Relaxed);
            TOTAL_ALLOCS.fetch_add(1, Ordering::Relaxed);
        }
        p
    }
    unsafe fn dealloc(&self, p: *mut u8, l: Layout) {
        if TSAN_HINT.load(Ordering::Relaxed) && l.align() >= align_of::<usize>() && l.size() >= 4 * size_of::<usize>() {
            // SAFETY: the block is still allocated, large enough and aligned for a usize.
            let first = unsafe { &*p.cast::<std::sync::atomic::AtomicUsize>() };
            std::hint::black_box(first.load(Ordering::Acquire));
        }
        if TRACK.load(Ordering::Relaxed) {
            LIVE_COUNT.fetch_sub(1, Ordering::Relaxed);
            LIVE_BYTES.fetch_sub(l.size() as i64, Ordering::Relaxed);
        }
        // SAFETY: same contract as the caller's.
        unsafe { System.dealloc(p, l) }
    }
    unsafe fn alloc_zeroed(&self, l: Layout) -> *mut u8 {
        // SAFETY: same contract as the caller's.
        let p = unsafe { System.alloc_zeroed(l) };
        if !p.is_null() && TRACK.load(Ordering::Relaxed) {
            LIVE_COUNT.fetch_add(1, Ordering::Relaxed);
            LIVE_BYTES.fetch_add(l.size() as i64, Ordering::Relaxed);
            TOTAL_ALLOCS.fetch_add(1, Ordering::Relaxed);
        }
        p
    }
    unsafe fn realloc(&self, p: *mut u8, l: Layout, new: usize) -> *mut u8 {
        // SAFETY: same contract as the caller's.
        let q = unsafe { System.realloc(p, l, new) };
        if !q.is_null() && TRACK.load(Ordering::Relaxed) {
            LIVE_BYTES.fetch_add(new as i64 - l.size() as i64, Ordering::Relaxed);
        }
        q
    }
}

#[global_allocator]
static ALLOC: Counting = Counting;

#[derive(Clone, Copy, Debug, PartialEq, Eq)]
struct Live {
    count: i64,
    bytes: i64,
}

fn live() -> Live {
    Live { count: LIVE_COUNT.load(Ordering::SeqCst), bytes: LIVE_BYTES.load(Ordering::SeqCst) }
}

// ---------------------------------------------------------------------------
// Values
// ---------------------------------------------------------------------------

#[derive(Clone)]
enum Val {
    T(Text),
    I(Identifier),
}

impl Val {
    fn s(&self) -> &str {
        match self {
            Val::T(t) => t.as_str(),
            Val::I(i) => i.as_str(),
        }
    }
    fn make(s: &str, ident: bool) -> Val {
        if ident {
            Val::I(Identifier::from_str(s).expect("generated identifier"))
        } else {
            Val::T(Text::from_str(s).expect("generated text"))
        }
    }
}

/// Plain-data result of a workload: nothing in here owns heap memory, so it can outlive the
/// allocation baseline comparison.
#[derive(Clone, Copy, Default, Debug)]
struct Stats {
    reads: u64,
    clones: u64,
    drops: u64,
    cross_thread_drops: u64,
    barrier_releases: u64,
    mismatches: u64,
    first_mismatch_len: u64,
    first_mismatch_phase: u64,
    max_sharers: u64,
    values: u64,
    shapes: u64,
}

impl Stats {
    fn add(&mut self, o: &Stats) {
        self.reads += o.reads;
        self.clones += o.clones;
        self.drops += o.drops;
        self.cross_thread_drops += o.cross_thread_drops;
        self.barrier_releases += o.barrier_releases;
        if self.mismatches == 0 && o.mismatches > 0 {
            self.first_mismatch_len = o.first_mismatch_len;
            self.first_mismatch_phase = o.first_mismatch_phase;
        }
        self.mismatches += o.mismatches;
        self.max_sharers = self.max_sharers.max(o.max_sharers);
        self.values += o.values;
        self.shapes ^= o.shapes;
    }
}

/// Read the value the ways the property names (as_str, compare, hash) and hold it against the
/// original string, which lives in storage the code under test never touches.
fn read_check(st: &mut Stats, v: &Val, want: &str, phase: u64) {
    st.reads += 1;
    let s = v.s();
    let ok = s == want
        && hash_of(&s) == hash_of(&want)
        && match v {
            Val::T(t) => *t == want && hash_of(t) == hash_of(&want) && t.cmp(t) == std::cmp::Ordering::Equal,
            Val::I(i) => *i == want && hash_of(i) == hash_of(&want) && i.cmp(i) == std::cmp::Ordering::Equal,
        };
    if !ok {
        if st.mismatches == 0 {
            st.first_mismatch_len = want.len() as u64;
            st.first_mismatch_phase = phase;
        }
        st.mismatches += 1;
    }
}

fn gen_content(rng: &mut Rng, ident: bool, max_len: usize) -> String {
    let len = match rng.below(4) {
        0 => MAX_INLINE + 1,
        1 => rng.urange(MAX_INLINE + 1, MAX_INLINE + 10),
        2 => rng.urange(MAX_INLINE + 1, 200.min(max_len).max(MAX_INLINE + 2)),
        _ => rng.urange(MAX_INLINE + 1, max_len.max(MAX_INLINE + 2)),
    };
    const TAIL: &[u8] = b"abcdefghijklmnopqrstuvwxyzABCDEFGHIJKLMNOPQRSTUVWXYZ0123456789_";
    let mut s = String::with_capacity(len + 4);
    s.push((b'a' + rng.below(26) as u8) as char);
    while s.len() < len {
        if !ident && rng.chance(1, 16) {
            s.push(*rng.pick(&['é', '€', ' ', '😀']));
        } else {
            s.push(*rng.pick(TAIL) as char);
        }
    }
    s
}

/// After a drop, occupy freshly freed blocks of that size with other bytes so that a stale read
/// would see different content (native runs; under Miri/ASan the engine reports the access itself).
fn churn(len: usize, fill: u8) {
    let v = vec![fill; len + size_of::<usize>()];
    std::hint::black_box(&v);
}

// ---------------------------------------------------------------------------
// Workload 1: release N handles of one allocation behind a barrier
// ---------------------------------------------------------------------------

struct BarrierRound {
    content: String,
    ident: bool,
    /// What each worker does once the barrier opens.
    modes: Vec<u8>,
    main_mode: u8,
}

const MODES: u64 = 6;

fn after_barrier(st: &mut Stats, v: Val, want: &str, mode: u8, scratch: &mut Rng) {
    match mode {
        // plain drop: candidate for the last drop
        0 => drop(v),
        1 => {
            read_check(st, &v, want, 1);
            drop(v);
        }
        // clone from the own handle while the other handles are being dropped
        2 => {
            let c = v.clone();
            st.clones += 1;
            drop(v);
            st.drops += 1;
            read_check(st, &c, want, 1);
            drop(c);
        }
        3 => {
            let k = scratch.urange(2, 5);
            let mut cs: Vec<Val> = (0..k).map(|_| v.clone()).collect();
            st.clones += k as u64;
            drop(v);
            st.drops += 1;
            scratch.shuffle(&mut cs);
            while let Some(c) = cs.pop() {
                read_check(st, &c, want, 1);
                drop(c);
                st.drops += 1;
            }
            st.drops -= 1;
        }
        // Identifier -> Text moves the same storage into the other type
        4 => {
            let t = match v {
                Val::I(i) => Text::from(i),
                Val::T(t) => t,
            };
            let c = t.clone();
            st.clones += 1;
            drop(t);
            st.drops += 1;
            read_check(st, &Val::T(c), want, 1);
        }
        // clone/drop churn on the own handle, then release
        _ => {
            for _ in 0..scratch.urange(1, 6) {
                let c = v.clone();
                st.clones += 1;
                std::hint::black_box(c.s().len());
                drop(c);
                st.drops += 1;
            }
            drop(v);
        }
    }
    st.drops += 1;
    churn(want.len(), 0xAA);
}

fn wl_barrier(seed: u64, threads: usize, plan: &[BarrierRound]) -> Stats {
    let barrier = Barrier::new(threads + 1);
    let mut total = Stats::default();
    std::thread::scope(|sc| {
        let mut txs = vec![];
        let mut hs = vec![];
        for w in 0..threads {
            let (tx, rx) = mpsc::channel::<(Val, Arc<str>, u8)>();
            txs.push(tx);
            let barrier = &barrier;
            hs.push(sc.spawn(move || {
                let mut st = Stats::default();
                let mut scratch = Rng::new(seed).fork(0xb000 + w as u64);
                while let Ok((v, want, mode)) = rx.recv() {
                    // The handle arrived through the channel: made by main, owned here.
                    read_check(&mut st, &v, &want, 1);
                    barrier.wait();
                    st.barrier_releases += 1;
                    after_barrier(&mut st, v, &want, mode, &mut scratch);
                    st.cross_thread_drops += 1;
                }
                st
            }));
        }
        let mut scratch = Rng::new(seed).fork(0xb0ff);
        for r in plan {
            let v = Val::make(&r.content, r.ident);
            let want: Arc<str> = Arc::from(r.content.as_str());
            for (w, tx) in txs.iter().enumerate() {
                tx.send((v.clone(), want.clone(), r.modes[w])).expect("worker alive");
                total.clones += 1;
            }
            total.values += 1;
            total.max_sharers = total.max_sharers.max(threads as u64 + 1);
            barrier.wait();
            after_barrier(&mut total, v, &want, r.main_mode, &mut scratch);
        }
        drop(txs);
        for h in hs {
            let st = h.join().expect("barrier worker panicked");
            total.add(&st);
        }
    });
    total
}

// ---------------------------------------------------------------------------
// Workload 2: values travelling through channels, stashed clones dropped elsewhere
// ---------------------------------------------------------------------------

struct PipeItem {
    content: String,
    ident: bool,
    ttl: u32,
    first: usize,
}

enum Msg {
    Item { v: Val, want: Arc<str>, ttl: u32, from: usize },
    Stop,
}

fn wl_pipeline(seed: u64, threads: usize, stash_cap: usize, plan: &[PipeItem]) -> Stats {
    let mut total = Stats::default();
    std::thread::scope(|sc| {
        let mut txs = vec![];
        let mut rxs = vec![];
        for _ in 0..threads {
            let (tx, rx) = mpsc::channel::<Msg>();
            txs.push(tx);
            rxs.push(rx);
        }
        let (done_tx, done_rx) = mpsc::channel::<()>();
        let mut hs = vec![];
        for (w, rx) in rxs.into_iter().enumerate() {
            let txs = txs.clone();
            let done_tx = done_tx.clone();
            hs.push(sc.spawn(move || {
                let mut st = Stats::default();
                let mut rng = Rng::new(seed).fork(0xc000 + w as u64);
                let mut stash: Vec<(Val, Arc<str>, usize)> = Vec::with_capacity(stash_cap + 1);
                while let Ok(msg) = rx.recv() {
                    let Msg::Item { v, want, ttl, from } = msg else { break };
                    read_check(&mut st, &v, &want, 2);
                    if rng.bool() {
                        stash.push((v.clone(), want.clone(), w));
                        st.clones += 1;
                        if stash.len() > stash_cap {
                            let i = rng.usize(stash.len());
                            let (old, owant, maker) = stash.swap_remove(i);
                            read_check(&mut st, &old, &owant, 2);
                            drop(old);
                            st.drops += 1;
                            let _ = maker;
                            churn(owant.len(), 0xBB);
                        }
                    }
                    if ttl == 0 {
                        drop(v);
                        st.drops += 1;
                        if from != w {
                            st.cross_thread_drops += 1;
                        }
                        churn(want.len(), 0xCC);
                        done_tx.send(()).expect("main alive");
                        continue;
                    }
                    let to = rng.usize(txs.len());
                    let fwd = if rng.bool() {
                        v
                    } else {
                        // hand a fresh clone on, release the handle that came in
                        let c = v.clone();
                        st.clones += 1;
                        drop(v);
                        st.drops += 1;
                        if from != w {
                            st.cross_thread_drops += 1;
                        }
                        c
                    };
                    txs[to].send(Msg::Item { v: fwd, want, ttl: ttl - 1, from: w }).expect("peer alive");
                }
                for (old, owant, _) in stash.drain(..) {
                    read_check(&mut st, &old, &owant, 2);
                    drop(old);
                    st.drops += 1;
                }
                st
            }));
        }
        drop(done_tx);
        for it in plan {
            let v = Val::make(&it.content, it.ident);
            let want: Arc<str> = Arc::from(it.content.as_str());
            // main keeps a handle until the item has been injected, then lets go concurrently
            let keep = v.clone();
            total.clones += 1;
            txs[it.first % threads].send(Msg::Item { v, want: want.clone(), ttl: it.ttl, from: usize::MAX }).expect("worker alive");
            read_check(&mut total, &keep, &want, 2);
            drop(keep);
            total.drops += 1;
            total.values += 1;
        }
        for _ in plan {
            done_rx.recv().expect("item finished");
        }
        for tx in &txs {
            tx.send(Msg::Stop).expect("worker alive");
        }
        drop(txs);
        for h in hs {
            let st = h.join().expect("pipeline worker panicked");
            total.add(&st);
        }
        total.max_sharers = total.max_sharers.max(threads as u64);
    });
    total
}

// ---------------------------------------------------------------------------
// Workload 3: concurrent clones from one shared reference
// ---------------------------------------------------------------------------

fn wl_shared_ref(seed: u64, threads: usize, iters: u64, contents: &[(String, bool)]) -> Stats {
    let mut total = Stats::default();
    for (content, ident) in contents {
        let v = Val::make(content, *ident);
        let barrier = Barrier::new(threads);
        std::thread::scope(|sc| {
            let hs: Vec<_> = (0..threads)
                .map(|w| {
                    let (v, barrier) = (&v, &barrier);
                    sc.spawn(move || {
                        let mut st = Stats::default();
                        let mut rng = Rng::new(seed).fork(0xd000 + w as u64);
                        barrier.wait();
                        let mut held: Vec<Val> = vec![];
                        for _ in 0..iters {
                            let c = v.clone();
                            st.clones += 1;
                            read_check(&mut st, &c, content, 3);
                            if rng.bool() {
                                held.push(c);
                            } else {
                                drop(c);
                                st.drops += 1;
                            }
                            if held.len() > 3 {
                                let i = rng.usize(held.len());
                                drop(held.swap_remove(i));
                                st.drops += 1;
                            }
                        }
                        st.drops += held.len() as u64;
                        st
                    })
                })
                .collect();
            for h in hs {
                let st = h.join().expect("shared_ref worker panicked");
                total.add(&st);
            }
        });
        read_check(&mut total, &v, content, 3);
        drop(v);
        total.drops += 1;
        total.values += 1;
        total.max_sharers = total.max_sharers.max(threads as u64 + 1);
    }
    total
}

// ---------------------------------------------------------------------------
// Driver
// ---------------------------------------------------------------------------

/// Live allocations after a workload has joined all its threads. Thread exit may still be
/// releasing thread-local storage for a moment, so wait (bounded) for the counters to reach the
/// baseline; a real leak or double free never converges.
fn settle(base: Live) -> (Live, u64) {
    let mut waited = 0;
    loop {
        let now = live();
        if now == base || waited >= 200 {
            return (now, waited);
        }
        std::thread::sleep(std::time::Duration::from_millis(5));
        waited += 1;
    }
}

struct Run<'a> {
    m: &'a mut Monitor,
    track: bool,
    params: Value,
}

impl Run<'_> {
    fn measured(&mut self, name: &str, enforce: bool, f: impl FnOnce() -> Stats) {
        let base = live();
        let t0 = std::time::Instant::now();
        let r = catch(f);
        let ms = t0.elapsed().as_millis() as u64;
        let st = match r {
            Ok(st) => st,
            Err(p) => {
                if enforce {
                    self.m.violation(&format!("text-threads-panic:{name}:{}", p.site()),
                        json!({"workload": name, "params": self.params, "panic": p.what}));
                }
                return;
            }
        };
        if !enforce {
            return;
        }
        let (after, waited) = if self.track { settle(base) } else { (base, 0) };
        let m = &mut *self.m;
        m.evals(st.reads + st.clones + st.drops);
        m.count(&format!("{name}_values"), st.values);
        m.count(&format!("{name}_wall_ms"), ms);
        m.count("reads_verified", st.reads);
        m.count("clones", st.clones);
        m.count("drops", st.drops);
        m.count("cross_thread_drops", st.cross_thread_drops);
        m.count("barrier_releases", st.barrier_releases);
        m.max("max_sharers", st.max_sharers);
        if st.mismatches > 0 {
            m.violation(&format!("text-content-changed-under-sharing:{name}"),
                json!({"workload": name, "params": self.params, "mismatches": st.mismatches,
                       "first_len": st.first_mismatch_len}));
        }
        if self.track {
            m.count("alloc_baseline_checks", 1);
            m.max("max_settle_waits", waited);
            let (dc, db) = (after.count - base.count, after.bytes - base.bytes);
            if dc != 0 || db != 0 {
                let sig = if dc > 0 || (dc == 0 && db > 0) { "leak" } else { "freed-more-than-allocated" };
                m.violation(&format!("text-live-allocations-{sig}:{name}"),
                    json!({"workload": name, "params": self.params, "delta_count": dc, "delta_bytes": db,
                           "baseline": {"count": base.count, "bytes": base.bytes}}));
            }
        }
    }
}

struct Plans {
    barrier: Vec<BarrierRound>,
    pipe: Vec<PipeItem>,
    shared: Vec<(String, bool)>,
}

fn make_plans(seed: u64, threads: usize, rounds: u64, items: u64, shared: u64, max_len: usize) -> Plans {
    let mut rng = Rng::new(seed).fork(33);
    let barrier = (0..rounds)
        .map(|_| {
            let ident = rng.chance(1, 3);
            BarrierRound {
                content: gen_content(&mut rng, ident, max_len),
                ident,
                modes: (0..threads).map(|_| rng.below(MODES) as u8).collect(),
                main_mode: rng.below(MODES) as u8,
            }
        })
        .collect();
    let pipe = (0..items)
        .map(|_| {
            let ident = rng.chance(1, 3);
            PipeItem { content: gen_content(&mut rng, ident, max_len), ident, ttl: rng.below(7) as u32, first: rng.usize(threads) }
        })
        .collect();
    let shared = (0..shared)
        .map(|_| {
            let ident = rng.chance(1, 3);
            (gen_content(&mut rng, ident, max_len), ident)
        })
        .collect();
    Plans { barrier, pipe, shared }
}

fn main() {
    // Decide about tracking before anything else allocates memory that is freed later.
    let track = !std::env::args().any(|a| a == "alloc_track=0");
    TRACK.store(track, Ordering::SeqCst);
    TSAN_HINT.store(std::env::args().any(|a| a == "tsan_acquire_hint=1"), Ordering::SeqCst);
    let mut args = Args::parse();
    let mut m = Monitor::new(
        "C33",
        "heap-backed (len > 22) Text and Identifier values shared by real threads: (barrier) one allocation, threads+1 handles handed out through channels and released behind a Barrier with per-thread modes drop / read+drop / clone-then-drop / k clones dropped shuffled / Identifier->Text / clone-drop churn; (pipeline) values hop through mpsc channels with ttl 0..6, each hop reads, stashes clones that are dropped later by another thread, forwards the handle or a fresh clone; (shared_ref) threads clone from one &value concurrently. Every read (as_str, ==, hash, cmp) is compared with the original string; natively a counting global allocator must return to the baseline (count, bytes) after each workload. non-trivial = distinct (workload, content length, type, per-thread mode vector / ttl) of a value whose storage was shared by >= 2 threads",
    )
    .min(20)
    .require("reads_verified", "content read back in worker threads")
    .require("clones", "clones made")
    .require("cross_thread_drops", "handles dropped by a thread other than the one that made them")
    .require("barrier_releases", "simultaneous releases behind the barrier");
    if track {
        m = m.require("alloc_baseline_checks", "live-allocation baseline comparison (counting allocator)");
    } else {
        m = m.assume("counting allocator off (alloc_track=0): leak / double-free detection is left to the engine (LSan/ASan/Miri)");
    }
    if TSAN_HINT.load(Ordering::Relaxed) {
        m = m.assume("tsan_acquire_hint=1: the allocator does an acquire load on the first word of a block before freeing it, standing in for ArcStr::drop's acquire fence, which ThreadSanitizer does not model; the presence of the fence itself is checked by the Miri step only");
    }
    if let Some(r) = args.replay_case() {
        // Schedules cannot be replayed; re-run the workload with the recorded parameters.
        let p = &r["case"]["params"];
        if let Some(s) = p["seed"].as_u64() { args.seed = s; }
        if let Some(s) = p["scale"].as_u64() { args.scale = s; }
        if let Some(s) = p["threads"].as_u64() { args.extra.insert("threads".into(), s.to_string()); }
    }
    let default_threads = if cfg!(miri) { 3 } else { (cores() as u64).clamp(4, args.tier.pick(6, 16)) };
    let threads = args.get_u64("threads", default_threads).max(2) as usize;
    // Miri interprets channel traffic very slowly: fewer pipeline items there, the scheduler seeds
    // (-Zmiri-many-seeds) supply the variety instead.
    let rounds = (args.n(6_000, 60_000) / if cfg!(miri) { 3 } else { 1 }).max(2);
    let items = (args.n(30_000, 300_000) / if cfg!(miri) { 10 } else { 1 }).max(4);
    let shared = args.n(300, 1_500);
    let iters = args.n(400, 1_000).max(6);
    let max_len = args.n(4_096, 65_536).max(64) as usize;
    let stash_cap = 8;
    let params = json!({"seed": args.seed, "scale": args.scale, "tier": args.tier.as_str(), "threads": threads,
        "tsan_acquire_hint": TSAN_HINT.load(Ordering::Relaxed), "rounds": rounds, "items": items, "shared": shared, "iters": iters, "max_len": max_len, "alloc_track": track});

    // Everything the workloads need is built before the baseline and freed after the last check.
    let warm = make_plans(args.seed ^ 0x77, threads, 2, 4, 1, 64);
    let plans = make_plans(args.seed, threads, rounds, items, shared, max_len);
    for r in &plans.barrier {
        m.nontrivial(hash_of(&("barrier", r.content.len(), r.ident, &r.modes, r.main_mode)));
    }
    for it in plans.pipe.iter().filter(|it| it.ttl > 0) {
        m.nontrivial(hash_of(&("pipe", it.content.len(), it.ident, it.ttl)));
    }
    for (c, i) in &plans.shared {
        m.nontrivial(hash_of(&("shared", c.len(), i)));
    }
    m.sample(|| json!({"params": params, "barrier_round": plans.barrier.first().map(|r| json!({"len": r.content.len(), "ident": r.ident, "modes": r.modes, "main_mode": r.main_mode}))}));
    m.sample(|| json!({"pipeline_item": plans.pipe.first().map(|r| json!({"len": r.content.len(), "ident": r.ident, "ttl": r.ttl}))}));
    let seed = args.seed;
    {
        let mut run = Run { m: &mut m, track, params: params.clone() };
        // Warm-up (not enforced, not counted): lets the main thread create its lazily allocated
        // thread-locals (channel context, panic hook) before a baseline is taken.
        {
            let (tx, rx) = mpsc::channel::<u8>();
            let h = std::thread::spawn(move || {
                std::thread::sleep(std::time::Duration::from_millis(20));
                let _ = tx.send(1);
            });
            let _ = rx.recv();
            let _ = h.join();
        }
        run.measured("warmup", false, || {
            let mut st = wl_barrier(seed, threads, &warm.barrier);
            st.add(&wl_pipeline(seed, threads, 2, &warm.pipe));
            st.add(&wl_shared_ref(seed, threads, 4, &warm.shared));
            st
        });
        run.measured("barrier", true, || wl_barrier(seed, threads, &plans.barrier));
        run.measured("pipeline", true, || wl_pipeline(seed, threads, stash_cap, &plans.pipe));
        run.measured("shared_ref", true, || wl_shared_ref(seed, threads, iters, &plans.shared));
    }
    m.count("total_allocations_seen", TOTAL_ALLOCS.load(Ordering::Relaxed));
    m.count("threads", threads as u64);
    drop(plans);
    drop(warm);
    finish_all(&args, vec![m]);
}
