//! Shared helpers for the crypto monitors (C34, C36, C37, C38, C45).
use std::cell::RefCell;

use aranya_crypto::{
    CipherSuite, Csprng,
    dangerous::spideroak_crypto::rust,
    default::{DefaultCipherSuite, DefaultEngine},
};
use vcore::*;

/// Deterministic `Csprng` driven by the harness PRNG, so that every key, nonce and id in a case is
/// a function of the case seed.
pub struct DetRng(RefCell<Rng>);

impl DetRng {
    pub fn new(rng: Rng) -> Self {
        Self(RefCell::new(rng))
    }
    pub fn from_seed(seed: u64) -> Self {
        Self::new(Rng::new(seed))
    }
}

impl Csprng for DetRng {
    fn fill_bytes(&self, dst: &mut [u8]) {
        self.0.borrow_mut().fill(dst);
    }
}

/// Second cipher suite: ECDSA P-256 signatures (variable length DER), HKDF-SHA-256.
pub struct EcdsaSuite;

impl CipherSuite for EcdsaSuite {
    type Aead = rust::Aes256Gcm;
    type Hash = rust::Sha256;
    type Kdf = rust::HkdfSha256;
    type Kem = <DefaultCipherSuite as CipherSuite>::Kem;
    type Mac = rust::HmacSha512;
    type Signer = rust::P256;
}

/// Cipher suites the monitors run on: any suite using AES-256-GCM (this pins the AEAD overhead so the
/// `Overhead + U64` bounds of the APQ topic-key API are satisfied in generic code).
pub trait Suite: CipherSuite<Aead = rust::Aes256Gcm> + 'static {}
impl<T: CipherSuite<Aead = rust::Aes256Gcm> + 'static> Suite for T {}

pub type Eng<'a, CS> = DefaultEngine<&'a DetRng, CS>;

pub fn engine<CS: CipherSuite>(rng: &DetRng) -> Eng<'_, CS> {
    DefaultEngine::<&DetRng, CS>::from_entropy(rng).0
}

/// Seed of case `k` of property stream `tag`.
pub fn case_seed(args: &Args, tag: u64, k: u64) -> u64 {
    mix2(mix2(args.seed, tag), k)
}

/// Runs `cases` cases over all cores; `f(monitor, k)` evaluates case `k`. Stops handing out new cases
/// after `cap_s` seconds (generous cap: the counters then show what was covered).
pub fn run_sharded(
    args: &Args,
    m: &mut Monitor,
    cases: u64,
    cap_s: f64,
    f: impl Fn(&mut Monitor, u64) + Sync,
) {
    let next = std::sync::atomic::AtomicU64::new(0);
    let parts = par_shards(cores(), |_, _| {
        let mut w = m.worker();
        loop {
            let k = next.fetch_add(1, std::sync::atomic::Ordering::Relaxed);
            if k >= cases {
                break;
            }
            if args.elapsed_s() > cap_s {
                w.count("cases_skipped_time_cap", 1);
                continue;
            }
            f(&mut w, k);
            if w.violations.len() >= w.max_violations {
                break;
            }
        }
        w
    });
    for p in parts {
        m.absorb(p);
    }
}

/// Positions to mutate in a buffer of `len` bytes: all of them when `len <= all_below`, otherwise
/// the first and last `edge` positions plus `extra` random ones.
pub fn positions(rng: &mut Rng, len: usize, all_below: usize, edge: usize, extra: usize) -> Vec<usize> {
    if len <= all_below {
        return (0..len).collect();
    }
    let mut v: Vec<usize> = (0..edge.min(len)).collect();
    v.extend(len.saturating_sub(edge)..len);
    for _ in 0..extra {
        v.push(rng.usize(len));
    }
    v.sort_unstable();
    v.dedup();
    v
}

pub fn flip(buf: &[u8], pos: usize, mask: u8) -> Vec<u8> {
    let mut v = buf.to_vec();
    v[pos] ^= mask;
    v
}

pub fn rand_mask(rng: &mut Rng) -> u8 {
    match rng.below(4) {
        0 => 0xff,
        1 => 0x01,
        2 => 0x80,
        _ => 1u8 << rng.usize(8),
    }
}
