//! C37: encryption round-trips and is bound to its context.
//!
//! Real code driven: `GroupKey::seal/open`, `EncryptionPublicKey::seal_group_key` /
//! `EncryptionKey::open_group_key`, `EncryptionKey::seal_psk_seed/open_psk_seed`,
//! `TopicKey::seal_message/open_message`, `ReceiverPublicKey::seal_topic_key` /
//! `ReceiverSecretKey::open_topic_key`.
use aranya_crypto::{
    CmdId, Context, Encap, EncryptedGroupKey, EncryptionKey, GroupKey, SigningKey, VerifyingKey,
    apq::{
        EncryptedTopicKey, ReceiverSecretKey, Sender, SenderSecretKey, SenderSigningKey, Topic,
        TopicKey, Version,
    },
    ctutils::CtEq as _,
    default::DefaultCipherSuite,
    id::IdExt as _,
    policy::GroupId,
    tls::{EncryptedPskSeed, PskSeed},
};
use mon_crypto::*;
use vcore::*;

const LENS: &[usize] = &[0, 1, 15, 16, 17, 31, 32, 33, 255, 4096];

fn gen_plain(rng: &mut Rng) -> Vec<u8> {
    let sel = rng.usize(16);
    let len = if sel < LENS.len() {
        LENS[sel]
    } else {
        rng.urange(0, 4096)
    };
    rng.bytes(len)
}

fn gen_label(rng: &mut Rng) -> String {
    match rng.below(6) {
        0 => String::new(),
        1 => "é中\u{1F600}".into(),
        _ => (0..rng.urange(1, 24))
            .map(|_| rng.range(0x21, 0x7e) as u8 as char)
            .collect(),
    }
}

struct Case<'a> {
    m: &'a mut Monitor,
    prim: &'static str,
    suite: &'static str,
    case_seed: u64,
}

impl Case<'_> {
    fn detail(&self, what: &str, extra: Value) -> Value {
        json!({"case_seed": self.case_seed, "suite": self.suite, "primitive": self.prim, "what": what, "extra": extra})
    }
    /// A mutated ciphertext / context must not open. `r` is Ok(description of what came out) when it opened.
    fn must_fail(&mut self, class: &str, what: &str, r: Result<Result<String, String>, PanicInfo>, extra: Value) {
        self.m.count("negatives_evaluated", 1);
        self.m.count(&format!("{}:{class}", self.prim), 1);
        match r {
            Ok(Err(_)) => {}
            Ok(Ok(out)) => {
                let d = self.detail(what, json!({"opened_to": out, "info": extra}));
                self.m.violation(&format!("{}-opens-after-{class}", self.prim), d);
            }
            Err(p) => {
                let d = self.detail(what, json!({"panic": p.what, "info": extra}));
                self.m.violation(&format!("{}-panic:{}", self.prim, p.site()), d);
            }
        }
    }
    fn broken(&mut self, what: &str, extra: Value) {
        let d = self.detail(what, extra);
        self.m.violation(&format!("{}-{what}", self.prim), d);
    }
}

fn flip32(rng: &mut Rng, id: &[u8; 32]) -> [u8; 32] {
    let mut b = *id;
    b[rng.usize(32)] ^= rand_mask(rng);
    b
}

fn gctx<'a, CS: Suite>(label: &'a str, parent: CmdId, author: &'a VerifyingKey<CS>) -> Context<'a, CS> {
    Context {
        label,
        parent,
        author_sign_pk: author,
    }
}

// ---------------------------------------------------------------------------
// Group key: seal / open of arbitrary plaintexts
// ---------------------------------------------------------------------------

fn group_key_case<CS: Suite>(m: &mut Monitor, case_seed: u64, suite: &'static str) {
    let mut rng = Rng::new(case_seed);
    let det = DetRng::new(rng.fork(1));
    let mut c = Case {
        m,
        prim: "groupkey",
        suite,
        case_seed,
    };
    c.m.eval();
    let key = GroupKey::<CS>::new(&det);
    let author = SigningKey::<CS>::new(&det).public().expect("public");
    let label = gen_label(&mut rng);
    let parent = CmdId::random(&det);
    let pt = gen_plain(&mut rng);
    let mut ct = vec![0u8; pt.len() + key.overhead()];
    if let Err(e) = key.seal(&det, &mut ct, &pt, gctx(&label, parent, &author)) {
        return c.broken("seal-fails", json!(e.to_string()));
    }
    let open = |key: &GroupKey<CS>, ct: &[u8], label: &str, parent: CmdId, a: &VerifyingKey<CS>| -> Result<Vec<u8>, String> {
        let mut out = vec![0xAAu8; ct.len().saturating_sub(key.overhead())];
        key.open(&mut out, ct, gctx(label, parent, a))
            .map(|()| out)
            .map_err(|e| e.to_string())
    };
    match catch(|| open(&key, &ct, &label, parent, &author)) {
        Ok(Ok(out)) if out == pt => {}
        Ok(Ok(out)) => return c.broken("roundtrip-plaintext-differs", json!({"want": hex(&pt), "got": hex(&out)})),
        Ok(Err(e)) => return c.broken("roundtrip-open-fails", json!({"len": pt.len(), "err": e})),
        Err(p) => return c.broken(&format!("open-panic:{}", p.site()), json!(p.what)),
    }
    c.m.count("groupkey_roundtrips", 1);
    c.m.seen("groupkey_plain_lens", &format!("{:05}", pt.len()));
    c.m.nontrivial(hash_of(&("groupkey", suite, &pt, &label, parent.as_bytes())));
    c.m.sample(|| json!({"primitive": "groupkey", "plain_len": pt.len(), "label": label, "ciphertext_len": ct.len()}));
    let info = json!({"plain_len": pt.len(), "label": label, "parent": parent.to_string(), "ciphertext": hex(&ct[..ct.len().min(96)])});
    let desc = |r: Result<Vec<u8>, String>| r.map(|o| format!("{} bytes, equal to plaintext: {}", o.len(), o == pt));

    // ciphertext bytes (nonce | ct | tag)
    for pos in positions(&mut rng, ct.len(), 160, 28, 24) {
        let mb = flip(&ct, pos, rand_mask(&mut rng));
        let r = catch(|| desc(open(&key, &mb, &label, parent, &author)));
        c.must_fail("ciphertext-byte", &format!("flip byte {pos} of {}", ct.len()), r, info.clone());
    }
    {
        let r = catch(|| desc(open(&key, &ct[..ct.len() - 1], &label, parent, &author)));
        c.must_fail("ciphertext-truncated", "drop last byte", r, info.clone());
        let r = catch(|| desc(open(&key, &ct[1..], &label, parent, &author)));
        c.must_fail("ciphertext-truncated", "drop first byte", r, info.clone());
        let mut e = ct.clone();
        e.push(0);
        let r = catch(|| desc(open(&key, &e, &label, parent, &author)));
        c.must_fail("ciphertext-extended", "append 0", r, info.clone());
    }
    // context: label
    let mut labels = vec![format!("{label}x"), format!("x{label}"), format!("{label}\0")];
    if !label.is_empty() {
        let mut ch: Vec<char> = label.chars().collect();
        labels.push(ch[..ch.len() - 1].iter().collect());
        labels.push(String::new());
        let i = rng.usize(ch.len());
        ch[i] = if ch[i] == 'a' { 'b' } else { 'a' };
        labels.push(ch.into_iter().collect());
    }
    for l2 in labels {
        if l2 == label {
            continue;
        }
        let r = catch(|| desc(open(&key, &ct, &l2, parent, &author)));
        c.must_fail("label", &format!("label {l2:?}"), r, info.clone());
    }
    // context: parent
    for _ in 0..4 {
        let p2 = CmdId::from_bytes(flip32(&mut rng, parent.as_array()));
        let r = catch(|| desc(open(&key, &ct, &label, p2, &author)));
        c.must_fail("parent", &format!("parent {p2}"), r, info.clone());
    }
    let r = catch(|| desc(open(&key, &ct, &label, CmdId::default(), &author)));
    c.must_fail("parent", "parent zero", r, info.clone());
    // context: author key
    let author2 = SigningKey::<CS>::new(&det).public().expect("public");
    let r = catch(|| desc(open(&key, &ct, &label, parent, &author2)));
    c.must_fail("author-key", "other author signing key", r, info.clone());
    // other group key
    let key2 = GroupKey::<CS>::new(&det);
    let r = catch(|| desc(open(&key2, &ct, &label, parent, &author)));
    c.must_fail("other-key", "other group key", r, info);
}

// ---------------------------------------------------------------------------
// Serialized (postcard) fixed-size ciphertext helpers
// ---------------------------------------------------------------------------

/// Mutates byte `pos` of the postcard form of `v`; None if the mutant does not decode or decodes to
/// the same logical value.
fn mutate_serde<T: serde::Serialize + serde::de::DeserializeOwned>(
    m: &mut Monitor,
    bytes: &[u8],
    pos: usize,
    mask: u8,
) -> Option<T> {
    let mb = flip(bytes, pos, mask);
    match postcard::from_bytes::<T>(&mb) {
        Err(_) => {
            m.count("mutants_undecodable", 1);
            None
        }
        Ok(v) => {
            if postcard::to_allocvec(&v).expect("serialize") == bytes {
                m.count("mutants_discarded_same_value", 1);
                None
            } else {
                Some(v)
            }
        }
    }
}

fn mutate_encap<CS: Suite>(m: &mut Monitor, enc: &[u8], pos: usize, mask: u8) -> Option<Encap<CS>> {
    let mb = flip(enc, pos, mask);
    match Encap::<CS>::from_bytes(&mb) {
        Err(_) => {
            m.count("mutants_undecodable", 1);
            m.count("encap_mutants_undecodable", 1);
            None
        }
        Ok(e) => {
            if e.as_bytes() == enc {
                m.count("mutants_discarded_same_value", 1);
                None
            } else {
                Some(e)
            }
        }
    }
}

// ---------------------------------------------------------------------------
// Sealed group key
// ---------------------------------------------------------------------------

fn sealed_group_key_case<CS: Suite>(m: &mut Monitor, case_seed: u64, suite: &'static str) {
    let mut rng = Rng::new(case_seed);
    let det = DetRng::new(rng.fork(1));
    let mut c = Case {
        m,
        prim: "sealed-groupkey",
        suite,
        case_seed,
    };
    c.m.eval();
    let sk = EncryptionKey::<CS>::new(&det);
    let pk = sk.public().expect("public");
    let gk = GroupKey::<CS>::new(&det);
    let group = GroupId::random(&det);
    let (enc, ct) = match pk.seal_group_key(&det, &gk, group) {
        Ok(x) => x,
        Err(e) => return c.broken("seal-fails", json!(e.to_string())),
    };
    let desc = |r: Result<GroupKey<CS>, aranya_crypto::Error>| {
        r.map(|k| format!("a group key, equal to the sealed one: {}", bool::from(k.ct_eq(&gk))))
            .map_err(|e| e.to_string())
    };
    match catch(|| sk.open_group_key(&enc, ct.clone(), group)) {
        Ok(Ok(k)) if bool::from(k.ct_eq(&gk)) && k.id().ok() == gk.id().ok() => {}
        Ok(Ok(_)) => return c.broken("roundtrip-key-differs", json!(null)),
        Ok(Err(e)) => return c.broken("roundtrip-open-fails", json!(e.to_string())),
        Err(p) => return c.broken(&format!("open-panic:{}", p.site()), json!(p.what)),
    }
    c.m.count("sealed_groupkey_roundtrips", 1);
    c.m.nontrivial(hash_of(&("sealed-groupkey", suite, group.as_bytes(), enc.as_bytes())));
    let ctb = postcard::to_allocvec(&ct).expect("serialize");
    let info = json!({"group": group.to_string(), "encap": hex(enc.as_bytes()), "ciphertext_postcard": hex(&ctb)});
    c.m.sample(|| json!({"primitive": "sealed-groupkey", "info": info}));

    for pos in 0..ctb.len() {
        if let Some(ct2) = mutate_serde::<EncryptedGroupKey<CS>>(c.m, &ctb, pos, rand_mask(&mut rng)) {
            let r = catch(|| desc(sk.open_group_key(&enc, ct2, group)));
            c.must_fail("ciphertext-byte", &format!("flip byte {pos} of the postcard form"), r, info.clone());
        }
    }
    let eb = enc.as_bytes().to_vec();
    for pos in positions(&mut rng, eb.len(), 0, 3, 8) {
        if let Some(e2) = mutate_encap::<CS>(c.m, &eb, pos, rand_mask(&mut rng)) {
            let r = catch(|| desc(sk.open_group_key(&e2, ct.clone(), group)));
            c.must_fail("encap-byte", &format!("flip byte {pos} of the encapsulation"), r, info.clone());
        }
    }
    for _ in 0..3 {
        let g2 = GroupId::from_bytes(flip32(&mut rng, group.as_array()));
        let r = catch(|| desc(sk.open_group_key(&enc, ct.clone(), g2)));
        c.must_fail("group", &format!("group {g2}"), r, info.clone());
    }
    let sk2 = EncryptionKey::<CS>::new(&det);
    let r = catch(|| desc(sk2.open_group_key(&enc, ct.clone(), group)));
    c.must_fail("recipient-key", "other recipient key", r, info.clone());
    // ciphertext of another sealing to the same key and group under this encapsulation
    if let Ok((enc_b, ct_b)) = pk.seal_group_key(&det, &GroupKey::<CS>::new(&det), group) {
        let r = catch(|| desc(sk.open_group_key(&enc, ct_b, group)));
        c.must_fail("ciphertext-swapped", "ciphertext of another sealing", r, info.clone());
        let r = catch(|| desc(sk.open_group_key(&enc_b, ct.clone(), group)));
        c.must_fail("encap-swapped", "encapsulation of another sealing", r, info);
    }
}

// ---------------------------------------------------------------------------
// Sealed PSK seed
// ---------------------------------------------------------------------------

fn sealed_psk_seed_case<CS: Suite>(m: &mut Monitor, case_seed: u64, suite: &'static str) {
    let mut rng = Rng::new(case_seed);
    let det = DetRng::new(rng.fork(1));
    let mut c = Case {
        m,
        prim: "sealed-pskseed",
        suite,
        case_seed,
    };
    c.m.eval();
    let send_sk = EncryptionKey::<CS>::new(&det);
    let send_pk = send_sk.public().expect("public");
    let recv_sk = EncryptionKey::<CS>::new(&det);
    let recv_pk = recv_sk.public().expect("public");
    let group = GroupId::random(&det);
    let seed = PskSeed::<CS>::new(&det, &group);
    let (enc, ct) = match send_sk.seal_psk_seed(&det, &seed, &recv_pk, &group) {
        Ok(x) => x,
        Err(e) => return c.broken("seal-fails", json!(e.to_string())),
    };
    let desc = |r: Result<PskSeed<CS>, aranya_crypto::Error>| {
        r.map(|s| format!("a PSK seed, equal to the sealed one: {}", bool::from(s.ct_eq(&seed))))
            .map_err(|e| e.to_string())
    };
    use aranya_crypto::Identified as _;
    match catch(|| recv_sk.open_psk_seed(&enc, ct.clone(), &send_pk, &group)) {
        Ok(Ok(s)) if bool::from(s.ct_eq(&seed)) && s.id().ok() == seed.id().ok() => {}
        Ok(Ok(_)) => return c.broken("roundtrip-seed-differs", json!(null)),
        Ok(Err(e)) => return c.broken("roundtrip-open-fails", json!(e.to_string())),
        Err(p) => return c.broken(&format!("open-panic:{}", p.site()), json!(p.what)),
    }
    c.m.count("sealed_pskseed_roundtrips", 1);
    c.m.nontrivial(hash_of(&("sealed-pskseed", suite, group.as_bytes(), enc.as_bytes())));
    let ctb = postcard::to_allocvec(&ct).expect("serialize");
    let info = json!({"group": group.to_string(), "encap": hex(enc.as_bytes()), "ciphertext_postcard": hex(&ctb)});
    c.m.sample(|| json!({"primitive": "sealed-pskseed", "info": info}));

    for pos in 0..ctb.len() {
        if let Some(ct2) = mutate_serde::<EncryptedPskSeed<CS>>(c.m, &ctb, pos, rand_mask(&mut rng)) {
            let r = catch(|| desc(recv_sk.open_psk_seed(&enc, ct2, &send_pk, &group)));
            c.must_fail("ciphertext-byte", &format!("flip byte {pos} of the postcard form"), r, info.clone());
        }
    }
    let eb = enc.as_bytes().to_vec();
    for pos in positions(&mut rng, eb.len(), 0, 3, 8) {
        if let Some(e2) = mutate_encap::<CS>(c.m, &eb, pos, rand_mask(&mut rng)) {
            let r = catch(|| desc(recv_sk.open_psk_seed(&e2, ct.clone(), &send_pk, &group)));
            c.must_fail("encap-byte", &format!("flip byte {pos} of the encapsulation"), r, info.clone());
        }
    }
    for _ in 0..3 {
        let g2 = GroupId::from_bytes(flip32(&mut rng, group.as_array()));
        let r = catch(|| desc(recv_sk.open_psk_seed(&enc, ct.clone(), &send_pk, &g2)));
        c.must_fail("group", &format!("group {g2}"), r, info.clone());
    }
    let other = EncryptionKey::<CS>::new(&det);
    let other_pk = other.public().expect("public");
    let r = catch(|| desc(recv_sk.open_psk_seed(&enc, ct.clone(), &other_pk, &group)));
    c.must_fail("sender-key", "other sender public key", r, info.clone());
    let r = catch(|| desc(recv_sk.open_psk_seed(&enc, ct.clone(), &recv_pk, &group)));
    c.must_fail("sender-key", "recipient's own public key as sender", r, info.clone());
    let r = catch(|| desc(other.open_psk_seed(&enc, ct.clone(), &send_pk, &group)));
    c.must_fail("recipient-key", "other recipient key", r, info.clone());
    let r = catch(|| desc(send_sk.open_psk_seed(&enc, ct.clone(), &recv_pk, &group)));
    c.must_fail("recipient-key", "sender opens its own sealing (roles swapped)", r, info);
}

// ---------------------------------------------------------------------------
// Topic keys: messages and sealed topic keys
// ---------------------------------------------------------------------------

fn topic_message_case<CS: Suite>(m: &mut Monitor, case_seed: u64, suite: &'static str) {
    let mut rng = Rng::new(case_seed);
    let det = DetRng::new(rng.fork(1));
    let mut c = Case {
        m,
        prim: "topickey-message",
        suite,
        case_seed,
    };
    c.m.eval();
    let version = Version::new(rng.u32());
    let topic = Topic::new(gen_label(&mut rng));
    let enc_pk = SenderSecretKey::<CS>::new(&det).public().expect("public");
    let sign_pk = SenderSigningKey::<CS>::new(&det).public().expect("public");
    let key = match TopicKey::<CS>::new(&det, version, &topic) {
        Ok(k) => k,
        Err(e) => return c.broken("TopicKey-new-fails", json!(e.to_string())),
    };
    let pt = gen_plain(&mut rng);
    let mut ct = vec![0u8; pt.len() + key.overhead()];
    let ident = Sender {
        enc_key: &enc_pk,
        sign_key: &sign_pk,
    };
    if let Err(e) = key.seal_message(&det, &mut ct, &pt, version, &topic, &ident) {
        return c.broken("seal-fails", json!(e.to_string()));
    }
    let open = |key: &TopicKey<CS>, ct: &[u8], v: Version, t: &Topic, id: &Sender<'_, CS>| -> Result<Vec<u8>, String> {
        let mut out = vec![0xAAu8; ct.len().saturating_sub(key.overhead())];
        key.open_message(&mut out, ct, v, t, id)
            .map(|()| out)
            .map_err(|e| e.to_string())
    };
    match catch(|| open(&key, &ct, version, &topic, &ident)) {
        Ok(Ok(out)) if out == pt => {}
        Ok(Ok(out)) => return c.broken("roundtrip-plaintext-differs", json!({"want": hex(&pt), "got": hex(&out)})),
        Ok(Err(e)) => return c.broken("roundtrip-open-fails", json!({"len": pt.len(), "err": e})),
        Err(p) => return c.broken(&format!("open-panic:{}", p.site()), json!(p.what)),
    }
    c.m.count("topic_message_roundtrips", 1);
    c.m.seen("topic_plain_lens", &format!("{:05}", pt.len()));
    c.m.nontrivial(hash_of(&("topic-message", suite, &pt, topic.as_bytes(), version.as_u32())));
    let info = json!({"plain_len": pt.len(), "version": version.as_u32(), "topic": hex(topic.as_bytes()),
                      "ciphertext": hex(&ct[..ct.len().min(96)])});
    let desc = |r: Result<Vec<u8>, String>| r.map(|o| format!("{} bytes, equal to plaintext: {}", o.len(), o == pt));

    for pos in positions(&mut rng, ct.len(), 160, 28, 24) {
        let mb = flip(&ct, pos, rand_mask(&mut rng));
        let r = catch(|| desc(open(&key, &mb, version, &topic, &ident)));
        c.must_fail("ciphertext-byte", &format!("flip byte {pos} of {}", ct.len()), r, info.clone());
    }
    let r = catch(|| desc(open(&key, &ct[..ct.len() - 1], version, &topic, &ident)));
    c.must_fail("ciphertext-truncated", "drop last byte", r, info.clone());
    let mut e = ct.clone();
    e.push(0);
    let r = catch(|| desc(open(&key, &e, version, &topic, &ident)));
    c.must_fail("ciphertext-extended", "append 0", r, info.clone());
    // context components
    let v2 = Version::new(version.as_u32() ^ (1 << rng.usize(32)));
    let r = catch(|| desc(open(&key, &ct, v2, &topic, &ident)));
    c.must_fail("version", "other version", r, info.clone());
    let mut tb = *topic.as_bytes();
    tb[rng.usize(16)] ^= rand_mask(&mut rng);
    let t2 = Topic::from(tb);
    let r = catch(|| desc(open(&key, &ct, version, &t2, &ident)));
    c.must_fail("topic", "other topic", r, info.clone());
    let enc_pk2 = SenderSecretKey::<CS>::new(&det).public().expect("public");
    let sign_pk2 = SenderSigningKey::<CS>::new(&det).public().expect("public");
    let r = catch(|| {
        desc(open(&key, &ct, version, &topic, &Sender {
            enc_key: &enc_pk2,
            sign_key: &sign_pk,
        }))
    });
    c.must_fail("sender-key", "other sender encryption key", r, info.clone());
    let r = catch(|| {
        desc(open(&key, &ct, version, &topic, &Sender {
            enc_key: &enc_pk,
            sign_key: &sign_pk2,
        }))
    });
    c.must_fail("sender-key", "other sender signing key", r, info.clone());
    if let Ok(key2) = TopicKey::<CS>::new(&det, version, &topic) {
        let r = catch(|| desc(open(&key2, &ct, version, &topic, &ident)));
        c.must_fail("other-key", "other topic key", r, info);
    }
}

fn sealed_topic_key_case<CS: Suite>(m: &mut Monitor, case_seed: u64, suite: &'static str) {
    let mut rng = Rng::new(case_seed);
    let det = DetRng::new(rng.fork(1));
    let mut c = Case {
        m,
        prim: "sealed-topickey",
        suite,
        case_seed,
    };
    c.m.eval();
    let version = Version::new(rng.u32());
    let topic = Topic::new(gen_label(&mut rng));
    let send_sk = SenderSecretKey::<CS>::new(&det);
    let send_pk = send_sk.public().expect("public");
    let recv_sk = ReceiverSecretKey::<CS>::new(&det);
    let recv_pk = recv_sk.public().expect("public");
    let tk = match TopicKey::<CS>::new(&det, version, &topic) {
        Ok(k) => k,
        Err(e) => return c.broken("TopicKey-new-fails", json!(e.to_string())),
    };
    let (enc, ct) = match recv_pk.seal_topic_key(&det, version, &topic, &send_sk, &tk) {
        Ok(x) => x,
        Err(e) => return c.broken("seal-fails", json!(e.to_string())),
    };
    let tk_id = tk.id().ok();
    let desc = |r: Result<TopicKey<CS>, aranya_crypto::Error>| {
        r.map(|k| format!("a topic key, same id as the sealed one: {}", k.id().ok() == tk_id))
            .map_err(|e| e.to_string())
    };
    match catch(|| recv_sk.open_topic_key(version, &topic, &send_pk, &enc, &ct)) {
        Ok(Ok(k)) if k.id().ok() == tk_id && tk_id.is_some() => {
            // the opened key must also decrypt what the original encrypted
            let sign_pk = SenderSigningKey::<CS>::new(&det).public().expect("public");
            let ident = Sender {
                enc_key: &send_pk,
                sign_key: &sign_pk,
            };
            let mut buf = vec![0u8; 5 + tk.overhead()];
            let mut out = vec![0u8; 5];
            if tk.seal_message(&det, &mut buf, b"probe", version, &topic, &ident).is_err()
                || k.open_message(&mut out, &buf, version, &topic, &ident).is_err()
                || out != b"probe"
            {
                return c.broken("roundtrip-key-behaves-differently", json!(null));
            }
        }
        Ok(Ok(_)) => return c.broken("roundtrip-key-differs", json!(null)),
        Ok(Err(e)) => return c.broken("roundtrip-open-fails", json!(e.to_string())),
        Err(p) => return c.broken(&format!("open-panic:{}", p.site()), json!(p.what)),
    }
    c.m.count("sealed_topickey_roundtrips", 1);
    c.m.nontrivial(hash_of(&("sealed-topickey", suite, topic.as_bytes(), enc.as_bytes())));
    let ctb = ct.as_bytes().to_vec();
    let info = json!({"version": version.as_u32(), "topic": hex(topic.as_bytes()), "encap": hex(enc.as_bytes()),
                      "ciphertext": hex(&ctb)});
    c.m.sample(|| json!({"primitive": "sealed-topickey", "info": info}));

    for pos in 0..ctb.len() {
        let mb = flip(&ctb, pos, rand_mask(&mut rng));
        let Ok(ct2) = EncryptedTopicKey::<CS>::from_bytes(&mb) else {
            c.m.count("mutants_undecodable", 1);
            continue;
        };
        let r = catch(|| desc(recv_sk.open_topic_key(version, &topic, &send_pk, &enc, &ct2)));
        c.must_fail("ciphertext-byte", &format!("flip byte {pos}"), r, info.clone());
    }
    let eb = enc.as_bytes().to_vec();
    for pos in positions(&mut rng, eb.len(), 0, 3, 8) {
        if let Some(e2) = mutate_encap::<CS>(c.m, &eb, pos, rand_mask(&mut rng)) {
            let r = catch(|| desc(recv_sk.open_topic_key(version, &topic, &send_pk, &e2, &ct)));
            c.must_fail("encap-byte", &format!("flip byte {pos} of the encapsulation"), r, info.clone());
        }
    }
    let v2 = Version::new(version.as_u32() ^ (1 << rng.usize(32)));
    let r = catch(|| desc(recv_sk.open_topic_key(v2, &topic, &send_pk, &enc, &ct)));
    c.must_fail("version", "other version", r, info.clone());
    let mut tb = *topic.as_bytes();
    tb[rng.usize(16)] ^= rand_mask(&mut rng);
    let t2 = Topic::from(tb);
    let r = catch(|| desc(recv_sk.open_topic_key(version, &t2, &send_pk, &enc, &ct)));
    c.must_fail("topic", "other topic", r, info.clone());
    let send_pk2 = SenderSecretKey::<CS>::new(&det).public().expect("public");
    let r = catch(|| desc(recv_sk.open_topic_key(version, &topic, &send_pk2, &enc, &ct)));
    c.must_fail("sender-key", "other sender public key", r, info.clone());
    let recv_sk2 = ReceiverSecretKey::<CS>::new(&det);
    let r = catch(|| desc(recv_sk2.open_topic_key(version, &topic, &send_pk, &enc, &ct)));
    c.must_fail("recipient-key", "other recipient key", r, info);
}

const PRIMS: &[&str] = &[
    "groupkey",
    "sealed-groupkey",
    "sealed-pskseed",
    "topickey-message",
    "sealed-topickey",
];

fn run_in<CS: Suite>(m: &mut Monitor, seed: u64, prim: &str, suite: &'static str) {
    match prim {
        "groupkey" => group_key_case::<CS>(m, seed, suite),
        "sealed-groupkey" => sealed_group_key_case::<CS>(m, seed, suite),
        "sealed-pskseed" => sealed_psk_seed_case::<CS>(m, seed, suite),
        "topickey-message" => topic_message_case::<CS>(m, seed, suite),
        "sealed-topickey" => sealed_topic_key_case::<CS>(m, seed, suite),
        other => panic!("unknown primitive {other}"),
    }
}

fn run(m: &mut Monitor, seed: u64, prim: &str, suite: &str) {
    match suite {
        "ecdsa-p256" => run_in::<EcdsaSuite>(m, seed, prim, "ecdsa-p256"),
        _ => run_in::<DefaultCipherSuite>(m, seed, prim, "default"),
    }
}

fn main() {
    let args = Args::parse();
    let mut m = Monitor::new(
        "C37",
        "case = one sealing with fresh keys for one of 5 primitives (group key messages, sealed group keys, sealed PSK seeds, \
         topic key messages, sealed topic keys); plaintext lengths cycle through 0/1/15/16/17/31/32/33/255/4096 plus random \
         0..4096; labels empty/ASCII/multi-byte. Positive: open(seal(p)) == p (sealed keys: same key material and id, and the \
         opened key interoperates). Negatives, each must fail to open: every ciphertext byte (messages > 160 bytes: 28 bytes at \
         each edge + 24 random; sealed keys: every byte of the postcard/byte form, 14 bytes of the encapsulation), truncation, \
         extension, swapped ciphertext/encapsulation, and each context component changed alone (label, parent, author key, \
         group, sender key, recipient key, version, topic, other key). Mutated encodings that do not decode count as failing; \
         ones decoding to the same value are discarded. non-trivial = distinct sealing whose positive check passed",
    )
    .min(args.n(600, 12_000))
    .require("groupkey_roundtrips", "group key messages")
    .require("sealed_groupkey_roundtrips", "sealed group keys")
    .require("sealed_pskseed_roundtrips", "sealed PSK seeds")
    .require("topic_message_roundtrips", "topic key messages")
    .require("sealed_topickey_roundtrips", "sealed topic keys")
    .require("groupkey:ciphertext-byte", "ciphertext flips")
    .require("groupkey:label", "label changes")
    .require("groupkey:parent", "parent changes")
    .require("groupkey:author-key", "author key changes")
    .require("sealed-groupkey:group", "group changes")
    .require("sealed-groupkey:recipient-key", "recipient key changes")
    .require("sealed-pskseed:sender-key", "sender key changes")
    .require("sealed-pskseed:group", "group changes")
    .require("sealed-topickey:sender-key", "sender key changes")
    .require("sealed-topickey:recipient-key", "recipient key changes");

    if let Some(r) = args.replay_case() {
        let c = &r["case"];
        run(
            &mut m,
            c["case_seed"].as_u64().expect("case_seed"),
            c["primitive"].as_str().expect("primitive"),
            c["suite"].as_str().unwrap_or("default"),
        );
        finish_all(&args, vec![m]);
    }

    let rounds = args.n(600, 12_000);
    let cap = args.tier.pick(70.0, 800.0);
    let np = PRIMS.len() as u64;
    run_sharded(&args, &mut m, rounds * np, cap, |m, k| {
        let round = k / np;
        run(m, case_seed(&args, 37, k), PRIMS[(k % np) as usize], if round % 5 == 4 { "ecdsa-p256" } else { "default" });
    });
    for l in [0usize, 1, 15, 16, 17, 4096] {
        for set in ["groupkey_plain_lens", "topic_plain_lens"] {
            if !m.sets.get(set).map(|s| s.contains(&format!("{l:05}"))).unwrap_or(false) {
                m.inconclusive(&format!("plaintext length {l} not exercised for {set}"));
            }
        }
    }
    finish_all(&args, vec![m]);
}
