//! C36: wrapped keys are authenticated and bound to their type.
//!
//! Real code driven: `Engine::wrap` / `Engine::unwrap` of `DefaultEngine` for every `UnwrappedKey`
//! implementation of aranya-crypto (Signing: IdentityKey, SigningKey, apq SenderSigningKey; Decap:
//! EncryptionKey, apq SenderSecretKey / ReceiverSecretKey, afc UniAuthorSecret; Seed: GroupKey; Prk:
//! PskSeed) plus two monitor-local key types built with the crate's own `unwrapped!` macro for the
//! AEAD and MAC kinds that no aranya-level key uses.
use aranya_crypto::{
    BaseId, CipherSuite, CmdId, Context, DeviceId, EncryptionKey, Engine, GroupKey, Identified,
    IdentityKey, SigningKey,
    afc::{AuthData, UniAuthorSecret, UniChannel, UniOpenKey, UniPeerEncap, UniSealKey, UniSecrets},
    apq::{ReceiverSecretKey, SenderSecretKey, SenderSigningKey, Topic, TopicKey, Version},
    ctutils::CtEq as _,
    dangerous::spideroak_crypto::{aead::Aead, keys::SecretKey, mac::Mac},
    default::{DefaultCipherSuite, WrappedKey},
    engine::UnwrappedKey,
    id::{IdError, IdExt as _},
    policy::{GroupId, LabelId, PolicyId},
    tls::{CipherSuiteId, PskSeed},
    unwrapped,
};
use mon_crypto::*;
use vcore::*;

// ---------------------------------------------------------------------------
// Key types for the AEAD and MAC kinds
// ---------------------------------------------------------------------------

pub struct RawAeadKey<CS: CipherSuite>(<CS::Aead as Aead>::Key);
pub struct RawMacKey<CS: CipherSuite>(<CS::Mac as Mac>::Key);

impl<CS: CipherSuite> Clone for RawAeadKey<CS> {
    fn clone(&self) -> Self {
        Self(self.0.clone())
    }
}
impl<CS: CipherSuite> Clone for RawMacKey<CS> {
    fn clone(&self) -> Self {
        Self(self.0.clone())
    }
}

impl<CS: CipherSuite> Identified for RawAeadKey<CS> {
    type Id = BaseId;
    fn id(&self) -> Result<BaseId, IdError> {
        let b = self.0.try_export_secret().expect("export aead key");
        Ok(BaseId::new::<CS>(b"mon-crypto RawAeadKey", [b.as_bytes()]))
    }
}
impl<CS: CipherSuite> Identified for RawMacKey<CS> {
    type Id = BaseId;
    fn id(&self) -> Result<BaseId, IdError> {
        let b = self.0.try_export_secret().expect("export mac key");
        Ok(BaseId::new::<CS>(b"mon-crypto RawMacKey", [b.as_bytes()]))
    }
}

unwrapped! {
    name: RawAeadKey;
    type: Aead;
    into: |k: Self| { k.0 };
    from: |k| { Self(k) };
}
unwrapped! {
    name: RawMacKey;
    type: Mac;
    into: |k: Self| { k.0 };
    from: |k| { Self(k) };
}

// ---------------------------------------------------------------------------
// Subjects
// ---------------------------------------------------------------------------

struct Env<'a, CS: CipherSuite> {
    det: &'a DetRng,
    eng: &'a Eng<'a, CS>,
}

trait Subject<CS: CipherSuite>: UnwrappedKey<CS> + Clone {
    const NAME: &'static str;
    type Aux;
    fn generate(env: &Env<'_, CS>) -> (Self, Self::Aux);
    /// `got` (the unwrapped key) must behave like `orig`.
    fn same(orig: &Self, got: &Self, aux: &Self::Aux, env: &Env<'_, CS>) -> Result<(), String>;
}

fn es<E: std::fmt::Display>(what: &'static str) -> impl Fn(E) -> String {
    move |e| format!("{what}: {e}")
}

impl<CS: CipherSuite> Subject<CS> for IdentityKey<CS> {
    const NAME: &'static str = "IdentityKey";
    type Aux = ();
    fn generate(env: &Env<'_, CS>) -> (Self, ()) {
        (Self::new(env.det), ())
    }
    fn same(orig: &Self, got: &Self, _: &(), _: &Env<'_, CS>) -> Result<(), String> {
        let sig = got.sign(b"probe message", b"ctx").map_err(es("sign"))?;
        orig.public()
            .map_err(es("public"))?
            .verify(b"probe message", b"ctx", &sig)
            .map_err(es("original public key rejects signature of unwrapped key"))?;
        let sig = orig.sign(b"m2", b"ctx").map_err(es("sign"))?;
        got.public()
            .map_err(es("public"))?
            .verify(b"m2", b"ctx", &sig)
            .map_err(es("unwrapped public key rejects signature of original key"))
    }
}

impl<CS: CipherSuite> Subject<CS> for SigningKey<CS> {
    const NAME: &'static str = "SigningKey";
    type Aux = ();
    fn generate(env: &Env<'_, CS>) -> (Self, ()) {
        (Self::new(env.det), ())
    }
    fn same(orig: &Self, got: &Self, _: &(), _: &Env<'_, CS>) -> Result<(), String> {
        let sig = got.sign(b"probe message", b"ctx").map_err(es("sign"))?;
        orig.public()
            .map_err(es("public"))?
            .verify(b"probe message", b"ctx", &sig)
            .map_err(es("original public key rejects signature of unwrapped key"))?;
        let parent = CmdId::default();
        let cmd = aranya_crypto::Cmd {
            data: b"data",
            name: "Probe",
            parent_id: &parent,
        };
        let (sig, id) = orig.sign_cmd(cmd).map_err(es("sign_cmd"))?;
        let got_id = got
            .public()
            .map_err(es("public"))?
            .verify_cmd(cmd, &sig)
            .map_err(es("unwrapped public key rejects command signature of original key"))?;
        if got_id != id {
            return Err("command id differs".into());
        }
        Ok(())
    }
}

impl<CS: CipherSuite> Subject<CS> for SenderSigningKey<CS> {
    const NAME: &'static str = "SenderSigningKey";
    type Aux = ();
    fn generate(env: &Env<'_, CS>) -> (Self, ()) {
        (Self::new(env.det), ())
    }
    fn same(orig: &Self, got: &Self, _: &(), _: &Env<'_, CS>) -> Result<(), String> {
        let topic = Topic::new("probe");
        let sig = got
            .sign(Version::new(1), &topic, b"record")
            .map_err(es("sign"))?;
        orig.public()
            .map_err(es("public"))?
            .verify(Version::new(1), &topic, b"record", &sig)
            .map_err(es("original public key rejects signature of unwrapped key"))
    }
}

impl<CS: CipherSuite> Subject<CS> for EncryptionKey<CS> {
    const NAME: &'static str = "EncryptionKey";
    type Aux = ();
    fn generate(env: &Env<'_, CS>) -> (Self, ()) {
        (Self::new(env.det), ())
    }
    fn same(orig: &Self, got: &Self, _: &(), env: &Env<'_, CS>) -> Result<(), String> {
        let gk = GroupKey::<CS>::new(env.det);
        let group = GroupId::random(env.det);
        let (enc, ct) = orig
            .public()
            .map_err(es("public"))?
            .seal_group_key(env.det, &gk, group)
            .map_err(es("seal_group_key"))?;
        let opened = got
            .open_group_key(&enc, ct, group)
            .map_err(es("unwrapped key cannot open what was sealed to the original"))?;
        if opened.id().map_err(es("id"))? != gk.id().map_err(es("id"))? {
            return Err("opened group key differs".into());
        }
        Ok(())
    }
}

fn topic_roundtrip<CS: Suite>(
    env: &Env<'_, CS>,
    send_sk: &SenderSecretKey<CS>,
    send_pk_of: &SenderSecretKey<CS>,
    recv_sk: &ReceiverSecretKey<CS>,
    recv_pk_of: &ReceiverSecretKey<CS>,
) -> Result<(), String> {
    let version = Version::new(3);
    let topic = Topic::new("probe topic");
    let tk = TopicKey::<CS>::new(env.det, version, &topic).map_err(es("TopicKey::new"))?;
    let (enc, ct) = recv_pk_of
        .public()
        .map_err(es("public"))?
        .seal_topic_key(env.det, version, &topic, send_sk, &tk)
        .map_err(es("seal_topic_key"))?;
    let got = recv_sk
        .open_topic_key(
            version,
            &topic,
            &send_pk_of.public().map_err(es("public"))?,
            &enc,
            &ct,
        )
        .map_err(es("open_topic_key"))?;
    if got.id().map_err(es("id"))? != tk.id().map_err(es("id"))? {
        return Err("opened topic key differs".into());
    }
    Ok(())
}

impl<CS: Suite> Subject<CS> for SenderSecretKey<CS> {
    const NAME: &'static str = "SenderSecretKey";
    type Aux = ();
    fn generate(env: &Env<'_, CS>) -> (Self, ()) {
        (Self::new(env.det), ())
    }
    fn same(orig: &Self, got: &Self, _: &(), env: &Env<'_, CS>) -> Result<(), String> {
        let recv = ReceiverSecretKey::<CS>::new(env.det);
        // sealed by the unwrapped key, authenticated against the original's public key
        topic_roundtrip(env, got, orig, &recv, &recv)
    }
}

impl<CS: Suite> Subject<CS> for ReceiverSecretKey<CS> {
    const NAME: &'static str = "ReceiverSecretKey";
    type Aux = ();
    fn generate(env: &Env<'_, CS>) -> (Self, ()) {
        (Self::new(env.det), ())
    }
    fn same(orig: &Self, got: &Self, _: &(), env: &Env<'_, CS>) -> Result<(), String> {
        let send = SenderSecretKey::<CS>::new(env.det);
        // sealed to the original's public key, opened by the unwrapped key
        topic_roundtrip(env, &send, &send, got, orig)
    }
}

struct UniAux<CS: CipherSuite> {
    parent: CmdId,
    label: LabelId,
    seal_id: DeviceId,
    open_id: DeviceId,
    author_sk: EncryptionKey<CS>,
    peer_sk: EncryptionKey<CS>,
    encap: Vec<u8>,
}

impl<CS: CipherSuite> Subject<CS> for UniAuthorSecret<CS> {
    const NAME: &'static str = "UniAuthorSecret";
    type Aux = UniAux<CS>;
    fn generate(env: &Env<'_, CS>) -> (Self, UniAux<CS>) {
        let author_sk = EncryptionKey::<CS>::new(env.det);
        let peer_sk = EncryptionKey::<CS>::new(env.det);
        let mut aux = UniAux {
            parent: CmdId::random(env.det),
            label: LabelId::random(env.det),
            seal_id: DeviceId::random(env.det),
            open_id: DeviceId::random(env.det),
            author_sk,
            peer_sk,
            encap: vec![],
        };
        let their_pk = aux.peer_sk.public().expect("public");
        let ch = UniChannel {
            parent_cmd_id: aux.parent,
            our_sk: &aux.author_sk,
            their_pk: &their_pk,
            seal_id: aux.seal_id,
            open_id: aux.open_id,
            label_id: aux.label,
        };
        let UniSecrets { author, peer } = UniSecrets::new(env.eng, &ch).expect("UniSecrets::new");
        aux.encap = peer.as_bytes().to_vec();
        (author, aux)
    }
    fn same(_orig: &Self, got: &Self, aux: &UniAux<CS>, _: &Env<'_, CS>) -> Result<(), String> {
        // The unwrapped secret must give the seal key whose messages the peer (who only has the
        // encapsulation made from the original secret) can open.
        let peer_pk = aux.peer_sk.public().map_err(es("public"))?;
        let author_pk = aux.author_sk.public().map_err(es("public"))?;
        let ch_a = UniChannel {
            parent_cmd_id: aux.parent,
            our_sk: &aux.author_sk,
            their_pk: &peer_pk,
            seal_id: aux.seal_id,
            open_id: aux.open_id,
            label_id: aux.label,
        };
        let ch_p = UniChannel {
            parent_cmd_id: aux.parent,
            our_sk: &aux.peer_sk,
            their_pk: &author_pk,
            seal_id: aux.seal_id,
            open_id: aux.open_id,
            label_id: aux.label,
        };
        let mut seal = UniSealKey::from_author_secret(&ch_a, got.clone())
            .map_err(es("from_author_secret"))?
            .into_key()
            .map_err(es("into_key"))?;
        let open = UniOpenKey::from_peer_encap(
            &ch_p,
            UniPeerEncap::from_bytes(&aux.encap).map_err(es("encap"))?,
        )
        .map_err(es("from_peer_encap"))?
        .into_key()
        .map_err(es("into_key"))?;
        let ad = AuthData {
            version: 1,
            label_id: aux.label,
        };
        let pt = b"probe";
        let mut ct = vec![0u8; pt.len() + aranya_crypto::afc::SealKey::<CS>::OVERHEAD];
        let seq = seal.seal(&mut ct, pt, &ad).map_err(es("seal"))?;
        let mut out = vec![0u8; pt.len()];
        open.open(&mut out, &ct, &ad, seq)
            .map_err(es("peer cannot open message sealed with the unwrapped author secret"))?;
        if out != pt {
            return Err("plaintext differs".into());
        }
        Ok(())
    }
}

impl<CS: CipherSuite> Subject<CS> for GroupKey<CS> {
    const NAME: &'static str = "GroupKey";
    type Aux = ();
    fn generate(env: &Env<'_, CS>) -> (Self, ()) {
        (Self::new(env.det), ())
    }
    fn same(orig: &Self, got: &Self, _: &(), env: &Env<'_, CS>) -> Result<(), String> {
        let author = SigningKey::<CS>::new(env.det).public().map_err(es("public"))?;
        let pt = b"group key probe";
        let mut ct = vec![0u8; pt.len() + orig.overhead()];
        let ctx = || Context {
            label: "probe",
            parent: CmdId::default(),
            author_sign_pk: &author,
        };
        orig.seal(env.det, &mut ct, pt, ctx()).map_err(es("seal"))?;
        let mut out = vec![0u8; pt.len()];
        got.open(&mut out, &ct, ctx())
            .map_err(es("unwrapped key cannot open what the original sealed"))?;
        if out != pt {
            return Err("plaintext differs".into());
        }
        Ok(())
    }
}

impl<CS: CipherSuite> Subject<CS> for PskSeed<CS> {
    const NAME: &'static str = "PskSeed";
    type Aux = GroupId;
    fn generate(env: &Env<'_, CS>) -> (Self, GroupId) {
        let g = GroupId::random(env.det);
        (Self::new(env.det, &g), g)
    }
    fn same(orig: &Self, got: &Self, group: &GroupId, _: &Env<'_, CS>) -> Result<(), String> {
        if !bool::from(orig.ct_eq(got)) {
            return Err("seed material differs".into());
        }
        let policy = PolicyId::default();
        let a: Vec<_> = orig
            .clone()
            .generate_psks(b"mon-crypto", *group, policy, CipherSuiteId::all().iter().copied())
            .collect();
        let b: Vec<_> = got
            .clone()
            .generate_psks(b"mon-crypto", *group, policy, CipherSuiteId::all().iter().copied())
            .collect();
        for (x, y) in a.into_iter().zip(b) {
            let (x, y) = (x.map_err(es("psk"))?, y.map_err(es("psk"))?);
            if x.raw_secret_bytes() != y.raw_secret_bytes()
                || x.identity().as_bytes() != y.identity().as_bytes()
            {
                return Err("derived PSKs differ".into());
            }
        }
        Ok(())
    }
}

impl<CS: CipherSuite> Subject<CS> for RawAeadKey<CS> {
    const NAME: &'static str = "RawAeadKey";
    type Aux = ();
    fn generate(env: &Env<'_, CS>) -> (Self, ()) {
        (Self(aranya_crypto::Random::random(env.det)), ())
    }
    fn same(orig: &Self, got: &Self, _: &(), _: &Env<'_, CS>) -> Result<(), String> {
        let pt = b"aead probe";
        let nonce = vec![7u8; <CS::Aead as Aead>::NONCE_SIZE];
        let mut ct = vec![0u8; pt.len() + <CS::Aead as Aead>::OVERHEAD];
        <CS::Aead as Aead>::new(&orig.0)
            .seal(&mut ct, &nonce, pt, b"ad")
            .map_err(es("seal"))?;
        let mut out = vec![0u8; pt.len()];
        <CS::Aead as Aead>::new(&got.0)
            .open(&mut out, &nonce, &ct, b"ad")
            .map_err(es("unwrapped AEAD key cannot open"))?;
        if out != pt {
            return Err("plaintext differs".into());
        }
        Ok(())
    }
}

impl<CS: CipherSuite> Subject<CS> for RawMacKey<CS> {
    const NAME: &'static str = "RawMacKey";
    type Aux = ();
    fn generate(env: &Env<'_, CS>) -> (Self, ()) {
        (Self(aranya_crypto::Random::random(env.det)), ())
    }
    fn same(orig: &Self, got: &Self, _: &(), _: &Env<'_, CS>) -> Result<(), String> {
        let mut a = <CS::Mac as Mac>::new(&orig.0);
        a.update(b"mac probe");
        let mut b = <CS::Mac as Mac>::new(&got.0);
        b.update(b"mac probe");
        if !bool::from(a.tag().ct_eq(&b.tag())) {
            return Err("MAC tags differ".into());
        }
        Ok(())
    }
}

/// Tries to unwrap `w` as every key type; returns (type, kind, unwrap succeeded).
fn cross_unwrap<CS: Suite>(
    eng: &Eng<'_, CS>,
    w: &WrappedKey<CS>,
) -> Vec<(&'static str, &'static str, bool)> {
    let mut v = vec![];
    macro_rules! t {
        ($($T:ident),*) => {$(
            v.push((
                stringify!($T),
                <$T<CS> as UnwrappedKey<CS>>::ID.name(),
                matches!(catch(|| eng.unwrap::<$T<CS>>(w)), Ok(Ok(_))),
            ));
        )*};
    }
    t!(
        IdentityKey,
        SigningKey,
        SenderSigningKey,
        EncryptionKey,
        SenderSecretKey,
        ReceiverSecretKey,
        UniAuthorSecret,
        GroupKey,
        PskSeed,
        RawAeadKey,
        RawMacKey
    );
    v
}

struct Layout {
    id: std::ops::Range<usize>,
    nonce: std::ops::Range<usize>,
    variant: usize,
    ct: std::ops::Range<usize>,
    tag: std::ops::Range<usize>,
}

impl Layout {
    /// postcard form of `WrappedKey`: len(32) id[32] nonce[N] variant ct[..] tag[T]
    fn of<CS: CipherSuite>(bytes: &[u8], id: &BaseId) -> Option<Self> {
        let n = <CS::Aead as Aead>::NONCE_SIZE;
        let t = <CS::Aead as Aead>::OVERHEAD;
        if bytes.len() < 33 + n + 1 + 16 + t || bytes[0] != 32 || &bytes[1..33] != id.as_bytes() {
            return None;
        }
        let end = bytes.len();
        Some(Self {
            id: 1..33,
            nonce: 33..33 + n,
            variant: 33 + n,
            ct: 34 + n..end - t,
            tag: end - t..end,
        })
    }
    fn field(&self, pos: usize) -> &'static str {
        if pos == 0 {
            "id-length-prefix"
        } else if self.id.contains(&pos) {
            "id"
        } else if self.nonce.contains(&pos) {
            "nonce"
        } else if pos == self.variant {
            "kind-tag"
        } else if self.ct.contains(&pos) {
            "ciphertext"
        } else {
            "tag"
        }
    }
}

fn run_subject<CS: Suite, T: Subject<CS>>(m: &mut Monitor, case_seed: u64, suite: &'static str) {
    let mut rng = Rng::new(case_seed);
    let det = DetRng::new(rng.fork(1));
    let eng = engine::<CS>(&det);
    let eng2 = engine::<CS>(&det);
    let env = Env {
        det: &det,
        eng: &eng,
    };
    let kind = T::ID.name();
    let tname = T::NAME;
    m.eval();
    let fail = |m: &mut Monitor, what: &str, extra: Value| {
        m.violation(
            &format!("{what}:{tname}"),
            json!({"case_seed": case_seed, "suite": suite, "type": tname, "kind": kind, "extra": extra}),
        );
    };

    let (key, aux) = T::generate(&env);
    let Ok(id0) = key.id() else {
        return fail(m, "key-id-fails", json!(null));
    };
    let id0: BaseId = *id0.as_ref();
    let w = match catch(|| eng.wrap(key.clone())) {
        Ok(Ok(w)) => w,
        Ok(Err(e)) => return fail(m, "wrap-fails", json!(e.to_string())),
        Err(p) => return fail(m, &format!("wrap-panic:{}", p.site()), json!(p.what)),
    };
    if w.id().ok() != Some(id0) {
        return fail(m, "wrapped-id-differs", json!(null));
    }
    // ---- positive
    let got: T = match catch(|| eng.unwrap::<T>(&w)) {
        Ok(Ok(k)) => k,
        Ok(Err(e)) => return fail(m, "unwrap-own-wrapped-key-fails", json!(e.to_string())),
        Err(p) => return fail(m, &format!("unwrap-panic:{}", p.site()), json!(p.what)),
    };
    match got.id() {
        Ok(i) if *i.as_ref() == id0 => {}
        other => return fail(m, "unwrapped-id-differs", json!(format!("{other:?}"))),
    }
    match catch(|| T::same(&key, &got, &aux, &env)) {
        Ok(Ok(())) => {}
        Ok(Err(e)) => return fail(m, "unwrapped-key-behaves-differently", json!(e)),
        Err(p) => return fail(m, &format!("behaviour-check-panic:{}", p.site()), json!(p.what)),
    }
    let bytes = postcard::to_allocvec(&w).expect("serialize wrapped key");
    match postcard::from_bytes::<WrappedKey<CS>>(&bytes).map(|w2| eng.unwrap::<T>(&w2)) {
        Ok(Ok(k)) if k.id().ok().map(|i| *i.as_ref()) == Some(id0) => {}
        _ => return fail(m, "serialized-wrapped-key-does-not-unwrap", json!(hex(&bytes))),
    }
    m.count("positive_ok", 1);
    m.count(&format!("type:{tname}"), 1);
    m.seen("kinds", kind);
    m.seen("suites", suite);
    m.nontrivial(hash_of(&(suite, tname, id0.as_bytes())));
    m.sample(|| json!({"suite": suite, "type": tname, "kind": kind, "id": id0.to_string(), "wrapped": hex(&bytes)}));

    let Some(lay) = Layout::of::<CS>(&bytes, &id0) else {
        m.inconclusive("harness: unexpected postcard layout of WrappedKey");
        return;
    };

    // Evaluates one mutated serialized form. Returns true if it was a real modification.
    let check_mutant = |m: &mut Monitor, what: &str, field: &str, mb: &[u8]| {
        match postcard::from_bytes::<WrappedKey<CS>>(mb) {
            Err(_) => {
                m.count("mutants_undecodable", 1);
                m.count(&format!("mut:{field}"), 1);
            }
            Ok(w2) => {
                let canon = postcard::to_allocvec(&w2).expect("serialize");
                if canon == bytes {
                    // same logical value (e.g. ignored trailing byte): not a modification
                    m.count("mutants_discarded_same_value", 1);
                    return;
                }
                m.count("mutants_unwrap_attempted", 1);
                m.count(&format!("mut:{field}"), 1);
                match catch(|| eng.unwrap::<T>(&w2)) {
                    Ok(Err(_)) => {}
                    Ok(Ok(k)) => m.violation(
                        &format!("unwrap-accepts-modified-{field}:{tname}"),
                        json!({"case_seed": case_seed, "suite": suite, "type": tname, "kind": kind, "mutation": what,
                               "field": field, "original": hex(&bytes), "mutated": hex(mb),
                               "unwrapped_id": k.id().ok().map(|i| i.to_string())}),
                    ),
                    Err(p) => m.violation(
                        &format!("unwrap-panic:{}", p.site()),
                        json!({"case_seed": case_seed, "suite": suite, "type": tname, "mutated": hex(mb), "panic": p.what}),
                    ),
                }
            }
        }
    };

    // ---- every byte position of the serialized form, two masks each
    for pos in 0..bytes.len() {
        let f = lay.field(pos);
        let bit = 1u8 << rng.usize(8);
        for mask in [bit, 0xff] {
            check_mutant(m, &format!("byte {pos} ^= {mask:#04x}"), f, &flip(&bytes, pos, mask));
        }
    }
    // ---- the kind discriminant relabelled to every other kind, then unwrapped as EVERY key type
    // (a changed wrapped form must not unwrap as anything, in particular not as the kind the
    // new label names)
    for tv in 0u8..16 {
        if tv == bytes[lay.variant] {
            continue;
        }
        let mut mb = bytes.clone();
        mb[lay.variant] = tv;
        if let Ok(w2) = postcard::from_bytes::<WrappedKey<CS>>(&mb) {
            m.count("kind_tag_relabels_decoded", 1);
            for (other, okind, ok) in cross_unwrap::<CS>(&eng, &w2) {
                if ok {
                    m.violation(
                        &format!("relabelled-kind-tag-unwraps:{kind}-as-{okind}"),
                        json!({"case_seed": case_seed, "suite": suite, "type": tname, "kind": kind, "unwrapped_as": other,
                               "as_kind": okind, "new_kind_tag": tv, "original": hex(&bytes), "mutated": hex(&mb)}),
                    );
                }
            }
        }
    }
    // truncation / extension
    check_mutant(m, "truncate 1", "truncated", &bytes[..bytes.len() - 1]);
    let mut ext = bytes.clone();
    ext.push(0);
    check_mutant(m, "append 0", "extended", &ext);

    // ---- splice each field from another wrapped key of the same type
    let (key_b, _) = T::generate(&env);
    if let Ok(Ok(wb)) = catch(|| eng.wrap(key_b)) {
        let bb = postcard::to_allocvec(&wb).expect("serialize");
        if bb.len() == bytes.len() {
            for (fname, r) in [
                ("id", lay.id.clone()),
                ("nonce", lay.nonce.clone()),
                ("ciphertext", lay.ct.clone()),
                ("tag", lay.tag.clone()),
            ] {
                let mut mb = bytes.clone();
                mb[r.clone()].copy_from_slice(&bb[r.clone()]);
                check_mutant(m, &format!("splice {fname} from another key"), &format!("splice-{fname}"), &mb);
                // and the complement: everything but this field from the other key
                let mut mb = bb.clone();
                mb[r.clone()].copy_from_slice(&bytes[r]);
                check_mutant(m, &format!("splice all but {fname} from another key"), &format!("splice-all-but-{fname}"), &mb);
            }
        }
    }

    // ---- another engine's key
    m.count("other_engine_attempts", 1);
    match catch(|| eng2.unwrap::<T>(&w)) {
        Ok(Err(_)) => {}
        Ok(Ok(_)) => fail(m, "unwrap-with-other-engine-key-succeeds", json!(hex(&bytes))),
        Err(p) => fail(m, &format!("unwrap-panic:{}", p.site()), json!(p.what)),
    }

    // ---- as every other algorithm kind
    for (other, okind, ok) in cross_unwrap::<CS>(&eng, &w) {
        if okind == kind {
            if other != tname && ok {
                // same algorithm kind, other key type: outside the statement, recorded only
                m.count("same_kind_other_type_unwrap_succeeded", 1);
            }
            continue;
        }
        m.count("other_kind_attempts", 1);
        m.seen("kind_pairs", &format!("{kind}->{okind}"));
        if ok {
            m.violation(
                &format!("unwrap-as-other-kind-succeeds:{kind}-as-{okind}"),
                json!({"case_seed": case_seed, "suite": suite, "type": tname, "kind": kind, "unwrapped_as": other,
                       "as_kind": okind, "wrapped": hex(&bytes)}),
            );
        }
    }
}

const TYPES: &[&str] = &[
    "IdentityKey",
    "SigningKey",
    "SenderSigningKey",
    "EncryptionKey",
    "SenderSecretKey",
    "ReceiverSecretKey",
    "UniAuthorSecret",
    "GroupKey",
    "PskSeed",
    "RawAeadKey",
    "RawMacKey",
];

fn run_in<CS: Suite>(m: &mut Monitor, seed: u64, tname: &str, suite: &'static str) {
    match tname {
        "IdentityKey" => run_subject::<CS, IdentityKey<CS>>(m, seed, suite),
        "SigningKey" => run_subject::<CS, SigningKey<CS>>(m, seed, suite),
        "SenderSigningKey" => run_subject::<CS, SenderSigningKey<CS>>(m, seed, suite),
        "EncryptionKey" => run_subject::<CS, EncryptionKey<CS>>(m, seed, suite),
        "SenderSecretKey" => run_subject::<CS, SenderSecretKey<CS>>(m, seed, suite),
        "ReceiverSecretKey" => run_subject::<CS, ReceiverSecretKey<CS>>(m, seed, suite),
        "UniAuthorSecret" => run_subject::<CS, UniAuthorSecret<CS>>(m, seed, suite),
        "GroupKey" => run_subject::<CS, GroupKey<CS>>(m, seed, suite),
        "PskSeed" => run_subject::<CS, PskSeed<CS>>(m, seed, suite),
        "RawAeadKey" => run_subject::<CS, RawAeadKey<CS>>(m, seed, suite),
        "RawMacKey" => run_subject::<CS, RawMacKey<CS>>(m, seed, suite),
        other => panic!("unknown key type {other}"),
    }
}

fn run(m: &mut Monitor, seed: u64, tname: &str, suite: &str) {
    match suite {
        "ecdsa-p256" => run_in::<EcdsaSuite>(m, seed, tname, "ecdsa-p256"),
        _ => run_in::<DefaultCipherSuite>(m, seed, tname, "default"),
    }
}

fn main() {
    let args = Args::parse();
    let mut m = Monitor::new(
        "C36",
        "case = (key type, fresh engine, fresh key) for the 11 key types covering all 6 algorithm kinds (9 aranya-level types + \
         AEAD and MAC keys declared with the crate's unwrapped! macro); default suite, every 5th round a second suite (ECDSA-P256 / \
         HKDF-SHA-256: other key and PRK sizes). Positive: unwrap(wrap(k)) has k's id and interoperates with k (sign/verify, \
         seal/open, HPKE, MAC tag, PSKs), also after a postcard round trip of the wrapped key. Mutants: every byte of the postcard \
         form (one random bit and 0xff) attributed to id / nonce / kind tag / ciphertext / tag, truncation, extension, each field \
         spliced from another wrapped key of the same type (and the complement), another engine key, unwrap as each type of every \
         other kind. A mutant that deserializes and re-serializes to the original bytes is discarded. non-trivial = distinct \
         (suite,type,key id) whose positive check passed",
    )
    .min(args.n(5000, 100_000))
    .require("mut:id", "id byte mutants")
    .require("mut:nonce", "nonce byte mutants")
    .require("mut:ciphertext", "ciphertext byte mutants")
    .require("mut:tag", "tag byte mutants")
    .require("mut:kind-tag", "ciphertext kind discriminant mutants")
    .require("mut:splice-id", "id swapped between two wrapped keys")
    .require("other_engine_attempts", "unwrap with another engine")
    .require("other_kind_attempts", "unwrap as another kind");
    for t in TYPES {
        m = m.require(&format!("type:{t}"), "every key type must be exercised");
    }

    if let Some(r) = args.replay_case() {
        let c = &r["case"];
        run(
            &mut m,
            c["case_seed"].as_u64().expect("case_seed"),
            c["type"].as_str().expect("type"),
            c["suite"].as_str().unwrap_or("default"),
        );
        finish_all(&args, vec![m]);
    }

    let rounds = args.n(2500, 50_000);
    let cap = args.tier.pick(70.0, 800.0);
    let nt = TYPES.len() as u64;
    run_sharded(&args, &mut m, rounds * nt, cap, |m, k| {
        let round = k / nt;
        let t = TYPES[(k % nt) as usize];
        run(m, case_seed(&args, 36, k), t, if round % 5 == 4 { "ecdsa-p256" } else { "default" });
    });
    // all 30 ordered pairs of distinct kinds must have been tried
    if m.sets.get("kind_pairs").map(|s| s.len()).unwrap_or(0) < 30 {
        m.inconclusive("not all 30 ordered (kind -> other kind) pairs were attempted");
    }
    finish_all(&args, vec![m]);
}
