//! C38: AFC channel keys agree only for matching parameters; a device never gets both ends.
//!
//! Real code driven: `UniSecrets::new`, `UniSealKey::from_author_secret`, `UniOpenKey::from_peer_encap`,
//! `SealKey::seal` / `OpenKey::open` (aranya-crypto afc), and aranya-afc-util's `Ffi::create_uni_channel`
//! (through `FfiModule::call`), `Handler::uni_channel_created` / `uni_channel_received`.
use aranya_afc_util::{Ffi, Handler, UniChannelCreated, UniChannelReceived, UniKey, testing::MemStore};
use aranya_crypto::{
    BaseId, CmdId, DeviceId, EncryptionKey, EncryptionKeyId, EncryptionPublicKey, KeyStoreExt as _,
    afc::{
        AuthData, OpenKey, SealKey, Seq, UniChannel, UniOpenKey, UniPeerEncap,
        UniSealKey, UniSecrets,
    },
    default::DefaultCipherSuite,
    id::IdExt as _,
    policy::LabelId,
};
use aranya_policy_vm::{
    ActionContext, CommandContext, MachineErrorType, Stack, Value as VmValue, ffi::FfiModule, ident,
};
use mon_crypto::*;
use vcore::*;

struct VStack(Vec<VmValue>);

impl Stack for VStack {
    fn push_value(&mut self, value: VmValue) -> Result<(), MachineErrorType> {
        self.0.push(value);
        Ok(())
    }
    fn pop_value(&mut self) -> Result<VmValue, MachineErrorType> {
        self.0.pop().ok_or(MachineErrorType::StackUnderflow)
    }
    fn peek_value(&mut self) -> Result<&mut VmValue, MachineErrorType> {
        self.0.last_mut().ok_or(MachineErrorType::StackUnderflow)
    }
}

const PROBE: &[u8] = b"afc channel probe message";

#[derive(Clone, Copy)]
struct Params {
    parent: CmdId,
    label: LabelId,
    seal_id: DeviceId,
    open_id: DeviceId,
}

fn chan<'a, CS: Suite>(p: &Params, our_sk: &'a EncryptionKey<CS>, their_pk: &'a EncryptionPublicKey<CS>) -> UniChannel<'a, CS> {
    UniChannel {
        parent_cmd_id: p.parent,
        our_sk,
        their_pk,
        seal_id: p.seal_id,
        open_id: p.open_id,
        label_id: p.label,
    }
}

/// Seals the probe with a fresh seal key (sequence number 0).
fn seal_probe<CS: Suite>(mut k: SealKey<CS>, ad: &AuthData) -> Result<(Vec<u8>, Seq), String> {
    let mut ct = vec![0u8; PROBE.len() + SealKey::<CS>::OVERHEAD];
    let seq = k.seal(&mut ct, PROBE, ad).map_err(|e| e.to_string())?;
    Ok((ct, seq))
}

fn opens<CS: Suite>(k: &OpenKey<CS>, ct: &[u8], seq: Seq, ad: &AuthData) -> bool {
    let mut out = vec![0u8; ct.len() - OpenKey::<CS>::OVERHEAD];
    k.open(&mut out, ct, ad, seq).is_ok() && out == PROBE
}

fn flip_id32(rng: &mut Rng, b: &[u8; 32]) -> [u8; 32] {
    let mut v = *b;
    v[rng.usize(32)] ^= rand_mask(rng);
    v
}

// ---------------------------------------------------------------------------
// Part A: key agreement at the crypto API
// ---------------------------------------------------------------------------

fn agreement_case<CS: Suite>(m: &mut Monitor, case_seed: u64, suite: &'static str) {
    let mut rng = Rng::new(case_seed);
    let det = DetRng::new(rng.fork(1));
    let eng = engine::<CS>(&det);
    m.eval();
    let a_sk = EncryptionKey::<CS>::new(&det);
    let a_pk = a_sk.public().expect("public");
    let p_sk = EncryptionKey::<CS>::new(&det);
    let p_pk = p_sk.public().expect("public");
    let x_sk = EncryptionKey::<CS>::new(&det);
    let x_pk = x_sk.public().expect("public");
    let p = Params {
        parent: CmdId::random(&det),
        label: LabelId::random(&det),
        seal_id: DeviceId::random(&det),
        open_id: DeviceId::random(&det),
    };
    let ad = AuthData {
        version: rng.u32(),
        label_id: p.label,
    };
    let detail = |what: &str, extra: Value| {
        json!({"case_seed": case_seed, "suite": suite, "part": "agreement", "what": what,
               "parent": p.parent.to_string(), "label": p.label.to_string(), "seal_id": p.seal_id.to_string(),
               "open_id": p.open_id.to_string(), "extra": extra})
    };

    let ch_a = chan(&p, &a_sk, &p_pk);
    let ch_p = chan(&p, &p_sk, &a_pk);
    let UniSecrets { author, peer } = match catch(|| UniSecrets::new(&eng, &ch_a)) {
        Ok(Ok(s)) => s,
        Ok(Err(e)) => return m.violation("UniSecrets-new-fails", detail("new", json!(e.to_string()))),
        Err(pn) => return m.violation(&format!("UniSecrets-panic:{}", pn.site()), detail("new", json!(pn.what))),
    };
    let encap = peer.as_bytes().to_vec();
    let peer_encap = || UniPeerEncap::<CS>::from_bytes(&encap).expect("encap bytes");

    // ---- positive: all parameters match
    let seal = match UniSealKey::from_author_secret(&ch_a, author.clone()).and_then(|k| k.into_key()) {
        Ok(k) => k,
        Err(e) => return m.violation("from_author_secret-fails", detail("author", json!(e.to_string()))),
    };
    let open = match UniOpenKey::from_peer_encap(&ch_p, peer_encap()).and_then(|k| k.into_key()) {
        Ok(k) => k,
        Err(e) => return m.violation("from_peer_encap-fails", detail("peer", json!(e.to_string()))),
    };
    let (ct, seq) = match seal_probe(seal, &ad) {
        Ok(x) => x,
        Err(e) => return m.violation("seal-fails", detail("seal", json!(e))),
    };
    if !opens(&open, &ct, seq, &ad) {
        return m.violation(
            "matching-parameters-do-not-agree",
            detail("peer cannot open the author's message although all parameters match", json!(null)),
        );
    }
    m.count("agreement_positive_ok", 1);
    m.nontrivial(hash_of(&("agreement", suite, &encap)));
    m.sample(|| detail("positive", json!({"encap": hex(&encap)})));

    // ---- peer side: each single parameter changed
    let other_ids = |rng: &mut Rng, id: &[u8; 32]| flip_id32(rng, id);
    let mut peer_variants: Vec<(&str, Params, bool, bool, Option<Vec<u8>>)> = vec![];
    // (name, params, use other peer sk, use other author pk, other encap)
    let mut q = p;
    q.parent = CmdId::from_bytes(other_ids(&mut rng, p.parent.as_array()));
    peer_variants.push(("parent", q, false, false, None));
    let mut q = p;
    q.label = LabelId::from_bytes(other_ids(&mut rng, p.label.as_array()));
    peer_variants.push(("label", q, false, false, None));
    let mut q = p;
    q.seal_id = DeviceId::from_bytes(other_ids(&mut rng, p.seal_id.as_array()));
    peer_variants.push(("seal-id", q, false, false, None));
    let mut q = p;
    q.open_id = DeviceId::from_bytes(other_ids(&mut rng, p.open_id.as_array()));
    peer_variants.push(("open-id", q, false, false, None));
    let mut q = p;
    std::mem::swap(&mut q.seal_id, &mut q.open_id);
    peer_variants.push(("seal-and-open-id-swapped", q, false, false, None));
    peer_variants.push(("peer-secret-key", p, true, false, None));
    peer_variants.push(("author-public-key", p, false, true, None));
    if let Ok(Ok(s2)) = catch(|| UniSecrets::new(&eng, &ch_a)) {
        peer_variants.push(("encapsulation-of-another-channel", p, false, false, Some(s2.peer.as_bytes().to_vec())));
    }
    for (name, q, other_sk, other_pk, enc2) in peer_variants {
        let sk = if other_sk { &x_sk } else { &p_sk };
        let pk = if other_pk { &x_pk } else { &a_pk };
        let ch = chan(&q, sk, pk);
        let e = match &enc2 {
            Some(b) => UniPeerEncap::<CS>::from_bytes(b).expect("encap"),
            None => peer_encap(),
        };
        m.count("single_changes_evaluated", 1);
        m.count(&format!("peer-change:{name}"), 1);
        match catch(|| UniOpenKey::from_peer_encap(&ch, e).and_then(|k| k.into_key())) {
            Ok(Err(_)) => m.count("changed_derivation_rejected", 1),
            Ok(Ok(k)) => {
                if opens(&k, &ct, seq, &ad) {
                    m.violation(
                        &format!("open-key-agrees-despite-changed-{name}"),
                        detail(&format!("peer derived with changed {name} and still opens the author's message"), json!({"encap": hex(&encap)})),
                    );
                }
            }
            Err(pn) => m.violation(&format!("from_peer_encap-panic:{}", pn.site()), detail(name, json!(pn.what))),
        }
    }
    // encapsulation bytes flipped
    for pos in positions(&mut rng, encap.len(), 0, 2, 4) {
        let mb = flip(&encap, pos, rand_mask(&mut rng));
        m.count("single_changes_evaluated", 1);
        m.count("peer-change:encap-byte", 1);
        let Ok(e) = UniPeerEncap::<CS>::from_bytes(&mb) else {
            m.count("changed_derivation_rejected", 1);
            continue;
        };
        if let Ok(Ok(k)) = catch(|| UniOpenKey::from_peer_encap(&ch_p, e).and_then(|k| k.into_key())) {
            if opens(&k, &ct, seq, &ad) {
                m.violation(
                    "open-key-agrees-despite-changed-encap-byte",
                    detail(&format!("encap byte {pos} flipped"), json!({"encap": hex(&encap), "mutated": hex(&mb)})),
                );
            }
        }
    }

    // ---- author side: each single parameter changed when turning the secret into the seal key
    let mut author_variants: Vec<(&str, Params, bool, bool)> = vec![];
    let mut q = p;
    q.parent = CmdId::from_bytes(other_ids(&mut rng, p.parent.as_array()));
    author_variants.push(("parent", q, false, false));
    let mut q = p;
    q.label = LabelId::from_bytes(other_ids(&mut rng, p.label.as_array()));
    author_variants.push(("label", q, false, false));
    let mut q = p;
    q.seal_id = DeviceId::from_bytes(other_ids(&mut rng, p.seal_id.as_array()));
    author_variants.push(("seal-id", q, false, false));
    let mut q = p;
    q.open_id = DeviceId::from_bytes(other_ids(&mut rng, p.open_id.as_array()));
    author_variants.push(("open-id", q, false, false));
    author_variants.push(("author-secret-key", p, true, false));
    author_variants.push(("peer-public-key", p, false, true));
    for (name, q, other_sk, other_pk) in author_variants {
        let sk = if other_sk { &x_sk } else { &a_sk };
        let pk = if other_pk { &x_pk } else { &p_pk };
        let ch = chan(&q, sk, pk);
        m.count("single_changes_evaluated", 1);
        m.count(&format!("author-change:{name}"), 1);
        match catch(|| UniSealKey::from_author_secret(&ch, author.clone()).and_then(|k| k.into_key())) {
            Ok(Err(_)) => m.count("changed_derivation_rejected", 1),
            Ok(Ok(k)) => {
                if let Ok((ct2, seq2)) = seal_probe(k, &ad) {
                    if opens(&open, &ct2, seq2, &ad) {
                        m.violation(
                            &format!("seal-key-agrees-despite-changed-{name}"),
                            detail(&format!("author derived with changed {name}; the peer still opens"), json!({"encap": hex(&encap)})),
                        );
                    }
                }
            }
            Err(pn) => m.violation(&format!("from_author_secret-panic:{}", pn.site()), detail(name, json!(pn.what))),
        }
    }
    // a different author secret with all parameters equal
    if let Ok(Ok(s2)) = catch(|| UniSecrets::new(&eng, &ch_a)) {
        m.count("single_changes_evaluated", 1);
        m.count("author-change:author-secret", 1);
        if let Ok(k) = UniSealKey::from_author_secret(&ch_a, s2.author).and_then(|k| k.into_key()) {
            if let Ok((ct2, seq2)) = seal_probe(k, &ad) {
                if opens(&open, &ct2, seq2, &ad) {
                    m.violation("seal-key-agrees-despite-other-author-secret", detail("other secret", json!(null)));
                }
            }
        }
    }

    // ---- one device as both ends: every constructor must refuse
    let mut q = p;
    q.open_id = q.seal_id;
    let ch_same_a = chan(&q, &a_sk, &p_pk);
    let ch_same_p = chan(&q, &p_sk, &a_pk);
    m.count("same_device_attempts", 1);
    if let Ok(Ok(_)) = catch(|| UniSecrets::new(&eng, &ch_same_a)) {
        m.violation("same-device-both-ends:UniSecrets-new", detail("seal_id == open_id accepted", json!(null)));
    }
    if let Ok(Ok(_)) = catch(|| UniSealKey::from_author_secret(&ch_same_a, author.clone())) {
        m.violation("same-device-both-ends:from_author_secret", detail("seal_id == open_id accepted", json!(null)));
    }
    if let Ok(Ok(_)) = catch(|| UniOpenKey::from_peer_encap(&ch_same_p, peer_encap())) {
        m.violation("same-device-both-ends:from_peer_encap", detail("seal_id == open_id accepted", json!(null)));
    }
}

// ---------------------------------------------------------------------------
// Part B: through the effect handler
// ---------------------------------------------------------------------------

struct Device<'a, CS: Suite> {
    name: &'static str,
    eng: Eng<'a, CS>,
    id: DeviceId,
    enc_key_id: EncryptionKeyId,
    enc_pk: Vec<u8>,
    store: MemStore,
    handler: Handler<MemStore>,
    ffi: Ffi<MemStore>,
    /// (origin of the key, sealed probe)
    sealed: Vec<(String, Vec<u8>, Seq)>,
    open_keys: Vec<(String, OpenKey<CS>)>,
}

impl<'a, CS: Suite> Device<'a, CS> {
    fn new(name: &'static str, det: &'a DetRng) -> Self {
        let eng = engine::<CS>(det);
        let id = DeviceId::random(det);
        let sk = EncryptionKey::<CS>::new(det);
        let enc_pk = postcard::to_allocvec(&sk.public().expect("public")).expect("encode pk");
        let mut store = MemStore::new();
        let enc_key_id = store.insert_key(&eng, sk).expect("insert enc key");
        Self {
            name,
            eng,
            id,
            enc_key_id,
            enc_pk,
            handler: Handler::new(id, store.clone()),
            ffi: Ffi::new(store.clone()),
            store,
            sealed: vec![],
            open_keys: vec![],
        }
    }

    /// `afc::create_uni_channel` as the policy VM would call it.
    fn create_channel(&self, p: &Params, their_pk: &[u8]) -> Result<(Vec<u8>, BaseId), String> {
        let proc_idx = <Ffi<MemStore> as FfiModule>::SCHEMA
            .functions
            .iter()
            .position(|f| f.name == "create_uni_channel")
            .expect("create_uni_channel in schema");
        let mut st = VStack(vec![
            VmValue::Id(p.parent.as_base()),
            VmValue::Id(self.enc_key_id.as_base()),
            VmValue::Bytes(their_pk.to_vec()),
            VmValue::Id(p.seal_id.as_base()),
            VmValue::Id(p.open_id.as_base()),
            VmValue::Id(p.label.as_base()),
        ]);
        let ctx = CommandContext::Action(ActionContext {
            name: ident!("CreateChannel"),
            head_id: p.parent,
        });
        self.ffi
            .call(proc_idx, &mut st, &ctx, &self.eng)
            .map_err(|e| e.to_string())?;
        let Some(VmValue::Struct(s)) = st.0.pop() else {
            return Err("harness: no struct returned".into());
        };
        let mut encap = None;
        let mut key_id = None;
        for (k, v) in s.fields {
            match (k.as_str(), v) {
                ("peer_encap", VmValue::Bytes(b)) => encap = Some(b),
                ("key_id", VmValue::Id(i)) => key_id = Some(i),
                _ => {}
            }
        }
        encap.zip(key_id).ok_or_else(|| "harness: AfcUniChannel fields missing".to_string())
    }

    /// Records what a handler call handed to this device. Returns "seal" / "open" / "err".
    fn take(&mut self, origin: String, r: Result<UniKey<SealKey<CS>, OpenKey<CS>>, aranya_afc_util::Error>, ad: &AuthData) -> &'static str {
        match r {
            Ok(UniKey::SealOnly(k)) => {
                if let Ok((ct, seq)) = seal_probe(k, ad) {
                    self.sealed.push((origin, ct, seq));
                }
                "seal"
            }
            Ok(UniKey::OpenOnly(k)) => {
                self.open_keys.push((origin, k));
                "open"
            }
            Err(_) => "err",
        }
    }
}

fn handler_case<CS: Suite>(m: &mut Monitor, case_seed: u64, suite: &'static str) {
    let rng = Rng::new(case_seed);
    let det = DetRng::new(rng.fork(1));
    m.eval();
    let mut d1 = Device::<CS>::new("author", &det);
    let mut d2 = Device::<CS>::new("peer", &det);
    let pk1 = d1.enc_pk.clone();
    let pk2 = d2.enc_pk.clone();
    let third = DeviceId::random(&det);
    let third_pk = postcard::to_allocvec(&EncryptionKey::<CS>::new(&det).public().expect("public")).expect("encode");
    let p = Params {
        parent: CmdId::random(&det),
        label: LabelId::random(&det),
        seal_id: d1.id,
        open_id: d2.id,
    };
    let ad = AuthData {
        version: 1,
        label_id: p.label,
    };
    let detail = |what: &str, extra: Value| {
        json!({"case_seed": case_seed, "suite": suite, "part": "handler", "what": what, "author": d1_id_str(&p), "extra": extra})
    };
    fn d1_id_str(p: &Params) -> String {
        format!("seal_id={} open_id={}", p.seal_id, p.open_id)
    }

    // --- before the legitimate calls: role checks with the device on the wrong side
    // (the author's secret must still be usable afterwards, so this runs on a separate channel)
    if let Ok((enc0, key0)) = d1.create_channel(&p, &pk2) {
        let eff = UniChannelCreated {
            parent_cmd_id: p.parent,
            open_id: d1.id, // the author claims to be the opener
            author_enc_key_id: d1.enc_key_id,
            peer_enc_pk: &pk2,
            label_id: p.label,
            key_id: key0.into(),
        };
        m.count("role_check_attempts", 1);
        let r = catch(|| d1.handler.uni_channel_created::<_, SealKey<CS>, OpenKey<CS>>(&d1.eng, &eff));
        match r {
            Ok(Err(_)) => {}
            Ok(Ok(_)) => m.violation("handler-created-accepts-author-as-opener", detail("uni_channel_created with open_id == own device id", json!(null))),
            Err(pn) => m.violation(&format!("handler-panic:{}", pn.site()), detail("created", json!(pn.what))),
        }
        let eff = UniChannelReceived {
            parent_cmd_id: p.parent,
            seal_id: d2.id, // the receiver is named as the sealer
            author_enc_pk: &pk1,
            peer_enc_key_id: d2.enc_key_id,
            label_id: p.label,
            encap: &enc0,
        };
        m.count("role_check_attempts", 1);
        let r = catch(|| d2.handler.uni_channel_received::<_, SealKey<CS>, OpenKey<CS>>(&d2.eng, &eff));
        match r {
            Ok(Err(_)) => {}
            Ok(Ok(_)) => m.violation("handler-received-accepts-receiver-as-sealer", detail("uni_channel_received with seal_id == own device id", json!(null))),
            Err(pn) => m.violation(&format!("handler-panic:{}", pn.site()), detail("received", json!(pn.what))),
        }
    }

    // --- channel X: d1 -> d2, the legitimate flow
    let (encap, key_id) = match catch(|| d1.create_channel(&p, &pk2)) {
        Ok(Ok(x)) => x,
        Ok(Err(e)) => {
            m.inconclusive(&format!("harness: afc create_uni_channel failed: {e}"));
            return;
        }
        Err(pn) => return m.violation(&format!("create_uni_channel-panic:{}", pn.site()), detail("create", json!(pn.what))),
    };
    let created = UniChannelCreated {
        parent_cmd_id: p.parent,
        open_id: d2.id,
        author_enc_key_id: d1.enc_key_id,
        peer_enc_pk: &pk2,
        label_id: p.label,
        key_id: key_id.into(),
    };
    let r = d1.handler.uni_channel_created::<_, SealKey<CS>, OpenKey<CS>>(&d1.eng, &created);
    if let Err(e) = &r {
        return m.violation("handler-created-fails-for-author", detail("legitimate uni_channel_created", json!(e.to_string())));
    }
    if d1.take("X:created".into(), r, &ad) != "seal" {
        m.violation("handler-created-returns-open-key", detail("author got the opening end", json!(null)));
    }
    let received = UniChannelReceived {
        parent_cmd_id: p.parent,
        seal_id: d1.id,
        author_enc_pk: &pk1,
        peer_enc_key_id: d2.enc_key_id,
        label_id: p.label,
        encap: &encap,
    };
    let r = d2.handler.uni_channel_received::<_, SealKey<CS>, OpenKey<CS>>(&d2.eng, &received);
    if let Err(e) = &r {
        return m.violation("handler-received-fails-for-peer", detail("legitimate uni_channel_received", json!(e.to_string())));
    }
    if d2.take("X:received".into(), r, &ad) != "open" {
        m.violation("handler-received-returns-seal-key", detail("peer got the sealing end", json!(null)));
    }
    // the two legitimate ends work together
    let works = match (d1.sealed.last(), d2.open_keys.last()) {
        (Some((_, ct, seq)), Some((_, k))) => opens(k, ct, *seq, &ad),
        _ => false,
    };
    if !works {
        return m.violation("handler-ends-do-not-agree", detail("peer cannot open the author's message", json!(null)));
    }
    m.count("handler_positive_ok", 1);
    m.nontrivial(hash_of(&("handler", suite, &encap)));

    // --- channel Y: d2 -> d1 with the same parent and label (each device now legitimately holds
    // one sealing and one opening end, of different channels)
    let py = Params {
        seal_id: d2.id,
        open_id: d1.id,
        ..p
    };
    if let Ok((encap_y, key_y)) = d2.create_channel(&py, &pk1) {
        let eff = UniChannelCreated {
            parent_cmd_id: p.parent,
            open_id: d1.id,
            author_enc_key_id: d2.enc_key_id,
            peer_enc_pk: &pk1,
            label_id: p.label,
            key_id: key_y.into(),
        };
        let r = d2.handler.uni_channel_created::<_, SealKey<CS>, OpenKey<CS>>(&d2.eng, &eff);
        d2.take("Y:created".into(), r, &ad);
        let eff = UniChannelReceived {
            parent_cmd_id: p.parent,
            seal_id: d2.id,
            author_enc_pk: &pk2,
            peer_enc_key_id: d1.enc_key_id,
            label_id: p.label,
            encap: &encap_y,
        };
        let r = d1.handler.uni_channel_received::<_, SealKey<CS>, OpenKey<CS>>(&d1.eng, &eff);
        d1.take("Y:received".into(), r, &ad);
        m.count("reverse_channels", 1);
    }

    // --- the author tries to obtain the opening end of X
    let ids = [("self", d1.id), ("peer", d2.id), ("third", third)];
    let pks: [(&str, &[u8]); 3] = [("author-pk", &pk1), ("peer-pk", &pk2), ("third-pk", &third_pk)];
    for (iname, sid) in ids {
        for (pname, pk) in pks {
            let eff = UniChannelReceived {
                parent_cmd_id: p.parent,
                seal_id: sid,
                author_enc_pk: pk,
                peer_enc_key_id: d1.enc_key_id,
                label_id: p.label,
                encap: &encap,
            };
            m.count("attack_attempts", 1);
            match catch(|| d1.handler.uni_channel_received::<_, SealKey<CS>, OpenKey<CS>>(&d1.eng, &eff)) {
                Ok(r) => {
                    let got = d1.take(format!("X:author-calls-received(seal_id={iname},{pname})"), r, &ad);
                    m.count(&format!("attack_result:{got}"), 1);
                    if iname == "self" && got != "err" {
                        m.violation("handler-received-accepts-receiver-as-sealer", detail("author named itself as sealer in uni_channel_received", json!(pname)));
                    }
                }
                Err(pn) => m.violation(&format!("handler-panic:{}", pn.site()), detail("attack received", json!(pn.what))),
            }
        }
    }
    // the author's secret was consumed: a second `created` must not hand out anything
    m.count("attack_attempts", 1);
    let r = catch(|| d1.handler.uni_channel_created::<_, SealKey<CS>, OpenKey<CS>>(&d1.eng, &created));
    if let Ok(r) = r {
        let got = d1.take("X:created-again".into(), r, &ad);
        m.count(&format!("attack_result:{got}"), 1);
    }
    // --- the peer tries to obtain the sealing end of X
    for (iname, oid) in [("self", d2.id), ("author", d1.id), ("third", third)] {
        for (pname, pk) in pks {
            let eff = UniChannelCreated {
                parent_cmd_id: p.parent,
                open_id: oid,
                author_enc_key_id: d2.enc_key_id,
                peer_enc_pk: pk,
                label_id: p.label,
                key_id: key_id.into(),
            };
            m.count("attack_attempts", 1);
            match catch(|| d2.handler.uni_channel_created::<_, SealKey<CS>, OpenKey<CS>>(&d2.eng, &eff)) {
                Ok(r) => {
                    let got = d2.take(format!("X:peer-calls-created(open_id={iname},{pname})"), r, &ad);
                    m.count(&format!("attack_result:{got}"), 1);
                    if iname == "self" && got != "err" {
                        m.violation("handler-created-accepts-author-as-opener", detail("peer named itself as opener in uni_channel_created", json!(pname)));
                    }
                }
                Err(pn) => m.violation(&format!("handler-panic:{}", pn.site()), detail("attack created", json!(pn.what))),
            }
        }
    }
    // the peer receives again (allowed), same opening end
    let r = d2.handler.uni_channel_received::<_, SealKey<CS>, OpenKey<CS>>(&d2.eng, &received);
    d2.take("X:received-again".into(), r, &ad);

    // --- no device may hold an opening key that opens what one of its own sealing keys sealed
    for d in [&d1, &d2] {
        for (so, ct, seq) in &d.sealed {
            for (oo, k) in &d.open_keys {
                m.count("both_ends_pairs_checked", 1);
                if opens(k, ct, *seq, &ad) {
                    m.violation(
                        "device-holds-both-ends-of-a-channel",
                        detail(&format!("device {} : open key from [{oo}] opens message sealed by key from [{so}]", d.name), json!(null)),
                    );
                }
            }
        }
    }
    let _ = (&d1.store, &d2.store);
}

fn run(m: &mut Monitor, seed: u64, part: &str, suite: &str) {
    match (part, suite) {
        ("handler", "ecdsa-p256") => handler_case::<EcdsaSuite>(m, seed, "ecdsa-p256"),
        ("handler", _) => handler_case::<DefaultCipherSuite>(m, seed, "default"),
        (_, "ecdsa-p256") => agreement_case::<EcdsaSuite>(m, seed, "ecdsa-p256"),
        _ => agreement_case::<DefaultCipherSuite>(m, seed, "default"),
    }
}

fn main() {
    let args = Args::parse();
    let mut m = Monitor::new(
        "C38",
        "agreement cases: fresh author/peer encryption keys, random parent, label, seal and open device ids; UniSecrets -> \
         UniSealKey (author) and UniOpenKey (peer, from the encapsulation) must open a probe message; then each parameter is \
         changed alone on the peer side (parent, label, seal id, open id, ids swapped, peer secret key, author public key, \
         encapsulation of another channel, encapsulation bytes) and on the author side (parent, label, seal id, open id, author \
         secret key, peer public key, other author secret): the derivation must fail or the keys must not work together; \
         seal_id == open_id must be refused by all three constructors. handler cases: two devices with real engines, shared \
         in-memory key stores, afc FFI create_uni_channel, Handler::uni_channel_created/received; legitimate flow must give \
         SealOnly to the author and OpenOnly to the peer which work together; a reverse channel with the same parent/label; 9 \
         attempts of the author to call received on its own channel, 9 attempts of the peer to call created, repeated calls; \
         finally no device may hold an open key that opens a probe sealed by one of its own seal keys. non-trivial = case whose \
         positive check passed (distinct by encapsulation)",
    )
    .min(args.n(2000, 50_000))
    .require("agreement_positive_ok", "matching parameters must agree")
    .require("handler_positive_ok", "the handler flow must work")
    .require("peer-change:label", "label changes")
    .require("peer-change:parent", "parent changes")
    .require("peer-change:seal-id", "seal id changes")
    .require("peer-change:open-id", "open id changes")
    .require("peer-change:peer-secret-key", "key pair changes")
    .require("peer-change:author-public-key", "key pair changes")
    .require("author-change:label", "author side changes")
    .require("same_device_attempts", "seal_id == open_id")
    .require("both_ends_pairs_checked", "seal/open pairs held by one device")
    .require("attack_attempts", "role check attempts");

    if let Some(r) = args.replay_case() {
        let c = &r["case"];
        run(
            &mut m,
            c["case_seed"].as_u64().expect("case_seed"),
            c["part"].as_str().unwrap_or("agreement"),
            c["suite"].as_str().unwrap_or("default"),
        );
        finish_all(&args, vec![m]);
    }

    let cases = args.n(8000, 250_000);
    let cap = args.tier.pick(70.0, 800.0);
    run_sharded(&args, &mut m, cases, cap, |m, k| {
        let suite = if k % 10 >= 8 { "ecdsa-p256" } else { "default" };
        run(m, case_seed(&args, 38, k), if k % 2 == 0 { "agreement" } else { "handler" }, suite);
    });
    finish_all(&args, vec![m]);
}
