//! C34: command signatures bind command bytes, name, parent and author.
//!
//! Real code driven: `SigningKey::sign_cmd`, `VerifyingKey::verify_cmd`, `Signature::{to,from}_bytes`
//! (aranya-crypto) and `aranya_crypto_ffi::Ffi` `sign`/`verify` through `FfiModule::call`.
use std::borrow::Borrow as _;

use aranya_crypto::{
    CipherSuite, Cmd, CmdId, KeyStoreExt as _, Signature, SigningKey, VerifyingKey,
    default::DefaultCipherSuite, keystore::memstore::MemStore,
};
use aranya_crypto_ffi::Ffi;
use aranya_policy_vm::{
    CommandContext, Identifier, MachineErrorType, OpenContext, SealContext, Stack,
    Value as VmValue, ffi::FfiModule,
};
use mon_crypto::*;
use vcore::*;

struct VStack(Vec<VmValue>);

impl Stack for VStack {
    fn push_value(&mut self, value: VmValue) -> Result<(), MachineErrorType> {
        self.0.push(value);
        Ok(())
    }
    fn pop_value(&mut self) -> Result<VmValue, MachineErrorType> {
        self.0.pop().ok_or(MachineErrorType::StackUnderflow)
    }
    fn peek_value(&mut self) -> Result<&mut VmValue, MachineErrorType> {
        self.0.last_mut().ok_or(MachineErrorType::StackUnderflow)
    }
}

fn ffi_proc(name: &str) -> usize {
    <Ffi<MemStore> as FfiModule>::SCHEMA
        .functions
        .iter()
        .position(|f| f.name == name)
        .unwrap_or_else(|| panic!("crypto ffi has no function {name}"))
}

/// `crypto::verify(author_sign_pk, parent_id, command_bytes, command_id, signature)` in an `open`
/// context of command `name`.
#[allow(clippy::too_many_arguments)]
fn ffi_verify<E: aranya_crypto::Engine>(
    ffi: &Ffi<MemStore>,
    eng: &E,
    name: &Identifier,
    pk: &[u8],
    parent: &[u8; 32],
    data: &[u8],
    claimed: &[u8; 32],
    sig: &[u8],
) -> Result<(), String> {
    let mut st = VStack(vec![
        VmValue::Option(Some(Box::new(VmValue::Bytes(pk.to_vec())))),
        VmValue::Id(CmdId::from_bytes(*parent).as_base()),
        VmValue::Bytes(data.to_vec()),
        VmValue::Id(CmdId::from_bytes(*claimed).as_base()),
        VmValue::Bytes(sig.to_vec()),
    ]);
    let ctx = CommandContext::Open(OpenContext { name: name.clone() });
    ffi.call(ffi_proc("verify"), &mut st, &ctx, eng)
        .map_err(|e| e.to_string())?;
    match st.0.pop() {
        Some(VmValue::Unit) | None => Ok(()),
        Some(v) => Err(format!("harness: unexpected return value {v:?}")),
    }
}

/// `crypto::sign(our_sign_sk_id, command_bytes)` in a `seal` context; returns (signature, id).
fn ffi_sign<E: aranya_crypto::Engine>(
    ffi: &Ffi<MemStore>,
    eng: &E,
    name: &Identifier,
    parent: &[u8; 32],
    sk_id: aranya_crypto::BaseId,
    data: &[u8],
) -> Result<(Vec<u8>, [u8; 32]), String> {
    let mut st = VStack(vec![
        VmValue::Option(Some(Box::new(VmValue::Id(sk_id)))),
        VmValue::Bytes(data.to_vec()),
    ]);
    let ctx = CommandContext::Seal(SealContext {
        name: name.clone(),
        head_id: CmdId::from_bytes(*parent),
    });
    ffi.call(ffi_proc("sign"), &mut st, &ctx, eng)
        .map_err(|e| e.to_string())?;
    let Some(VmValue::Struct(s)) = st.0.pop() else {
        return Err("harness: sign returned no struct".into());
    };
    let mut sig = None;
    let mut id = None;
    for (k, v) in s.fields {
        match (k.as_str(), v) {
            ("signature", VmValue::Bytes(b)) => sig = Some(b),
            ("command_id", VmValue::Id(i)) => id = Some(*i.as_array()),
            _ => {}
        }
    }
    match (sig, id) {
        (Some(s), Some(i)) => Ok((s, i)),
        _ => Err("harness: Signed struct fields missing".into()),
    }
}

#[derive(Clone, PartialEq, Eq, Hash)]
struct Base {
    data: Vec<u8>,
    name: String,
    parent: [u8; 32],
}

const IDENT_HEAD: &[u8] = b"ABCDEFGHIJKLMNOPQRSTUVWXYZabcdefghijklmnopqrstuvwxyz";
const IDENT_TAIL: &[u8] = b"ABCDEFGHIJKLMNOPQRSTUVWXYZabcdefghijklmnopqrstuvwxyz0123456789_";

fn gen_base(rng: &mut Rng) -> Base {
    let name = match rng.below(10) {
        0 => String::new(),
        1..=5 => {
            let n = rng.urange(1, 32);
            let mut s = String::new();
            s.push(*rng.pick(IDENT_HEAD) as char);
            for _ in 1..n {
                s.push(*rng.pick(IDENT_TAIL) as char);
            }
            s
        }
        6 | 7 => (0..rng.urange(1, 24))
            .map(|_| rng.range(0x20, 0x7e) as u8 as char)
            .collect(),
        _ => (0..rng.urange(1, 16))
            .map(|_| match rng.below(4) {
                0 => char::from_u32(rng.range(0xa1, 0x7ff) as u32).unwrap_or('é'),
                1 => char::from_u32(rng.range(0x4e00, 0x9fff) as u32).unwrap_or('中'),
                2 => '\u{1F600}',
                _ => rng.range(0x21, 0x7e) as u8 as char,
            })
            .collect(),
    };
    let len = match rng.weighted(&[1, 1, 4, 3, 1]) {
        0 => 0,
        1 => 1,
        2 => rng.urange(2, 64),
        3 => rng.urange(65, 2047),
        _ => 2048,
    };
    let mut data = rng.bytes(len);
    match rng.below(4) {
        0 => {
            for b in data.iter_mut() {
                *b = *rng.pick(IDENT_TAIL);
            }
        }
        1 | 2 => {
            if let Some(b) = data.first_mut() {
                *b = *rng.pick(IDENT_TAIL);
            }
        }
        _ => {}
    }
    let mut parent = [0u8; 32];
    match rng.below(8) {
        0 => {}
        1 => parent = [0xff; 32],
        _ => rng.fill(&mut parent),
    }
    if rng.chance(1, 3) {
        parent[0] = *rng.pick(IDENT_TAIL);
    }
    Base { data, name, parent }
}

struct Ctx<'a, CS: CipherSuite> {
    suite: &'static str,
    case_seed: u64,
    base: &'a Base,
    pk: &'a VerifyingKey<CS>,
    sig: &'a Signature<CS>,
    sig_bytes: &'a [u8],
    id: CmdId,
}

impl<CS: CipherSuite> Ctx<'_, CS> {
    fn detail(&self, kind: &str, b: &Base, sig: &[u8], extra: Value) -> Value {
        json!({
            "case_seed": self.case_seed, "suite": self.suite, "mutant": kind,
            "orig": {"data": hex(&self.base.data), "name": self.base.name, "parent": hex(&self.base.parent),
                     "sig": hex(self.sig_bytes), "id": self.id.to_string()},
            "mutated": {"data": hex(&b.data), "name": b.name, "parent": hex(&b.parent), "sig": hex(sig)},
            "extra": extra,
        })
    }

    /// The mutated command/signature/key must not verify.
    fn must_reject(
        &self,
        m: &mut Monitor,
        kind: &str,
        b: &Base,
        pk: &VerifyingKey<CS>,
        sig: &Signature<CS>,
    ) {
        let sig_bytes = sig.to_bytes().borrow().to_vec();
        if b == self.base && sig_bytes == self.sig_bytes && pk == self.pk {
            m.count("mutants_discarded_identical", 1);
            return;
        }
        let parent = CmdId::from_bytes(b.parent);
        let r = catch(|| {
            pk.verify_cmd(
                Cmd {
                    data: &b.data,
                    name: &b.name,
                    parent_id: &parent,
                },
                sig,
            )
        });
        m.count("mutants_evaluated", 1);
        m.count(&format!("mut:{kind}"), 1);
        match r {
            Err(p) => m.violation(
                &format!("verify_cmd-panic:{}", p.site()),
                self.detail(kind, b, &sig_bytes, json!({"panic": p.what})),
            ),
            Ok(Ok(id)) => m.violation(
                &format!("verify_cmd-accepts:{kind}"),
                self.detail(
                    kind,
                    b,
                    &sig_bytes,
                    json!({"returned_id": id.to_string(), "same_id_as_original": id == self.id}),
                ),
            ),
            Ok(Err(_)) => {}
        }
    }

    fn reject_cmd(&self, m: &mut Monitor, kind: &str, b: &Base) {
        self.must_reject(m, kind, b, self.pk, self.sig);
    }
}

fn other_char(c: char, rng: &mut Rng) -> char {
    loop {
        let d = match rng.below(5) {
            0 => 'a',
            1 => 'Z',
            2 => '_',
            3 => '7',
            _ => {
                if c.is_ascii() {
                    ((c as u8) ^ 0x01) as char
                } else {
                    'é'
                }
            }
        };
        if d != c {
            return d;
        }
    }
}

fn run_case<CS: CipherSuite>(m: &mut Monitor, case_seed: u64, suite: &'static str) {
    let mut rng = Rng::new(case_seed);
    let det = DetRng::new(rng.fork(1));
    let eng = engine::<CS>(&det);
    let base = gen_base(&mut rng);
    let sk = SigningKey::<CS>::new(&det);
    let pk = sk.public().expect("public key");
    let parent = CmdId::from_bytes(base.parent);
    let cmd = Cmd {
        data: &base.data,
        name: &base.name,
        parent_id: &parent,
    };
    m.eval();
    let fail = |m: &mut Monitor, sig: &str, extra: Value| {
        m.violation(
            sig,
            json!({"case_seed": case_seed, "suite": suite, "data": hex(&base.data), "name": base.name,
                   "parent": hex(&base.parent), "extra": extra}),
        );
    };

    // ---- positive: sign, verify, same id
    let (sig, id) = match catch(|| sk.sign_cmd(cmd)) {
        Ok(Ok(x)) => x,
        Ok(Err(e)) => return fail(m, "sign_cmd-fails", json!(e.to_string())),
        Err(p) => return fail(m, &format!("sign_cmd-panic:{}", p.site()), json!(p.what)),
    };
    match catch(|| pk.verify_cmd(cmd, &sig)) {
        Ok(Ok(got)) if got == id => {}
        Ok(Ok(got)) => {
            return fail(
                m,
                "verify_cmd-returns-other-id",
                json!({"sign": id.to_string(), "verify": got.to_string()}),
            );
        }
        Ok(Err(e)) => return fail(m, "verify_cmd-rejects-own-signature", json!(e.to_string())),
        Err(p) => return fail(m, &format!("verify_cmd-panic:{}", p.site()), json!(p.what)),
    }
    let sig_bytes = sig.to_bytes().borrow().to_vec();
    // the byte encoding round-trips to a signature that verifies with the same id
    match Signature::<CS>::from_bytes(&sig_bytes) {
        Ok(s2) => match pk.verify_cmd(cmd, &s2) {
            Ok(got) if got == id => {}
            other => fail(m, "signature-bytes-roundtrip-changes-result", json!(format!("{other:?}"))),
        },
        Err(e) => fail(m, "signature-bytes-do-not-import", json!(e.to_string())),
    }
    m.count("positive_ok", 1);
    m.nontrivial(hash_of(&(suite, &base)));
    m.max("max_data_len", base.data.len() as u64);
    if base.data.is_empty() {
        m.count("empty_data_cases", 1);
    }
    if base.name.is_empty() {
        m.count("empty_name_cases", 1);
    }
    m.seen("suites", suite);
    m.sample(|| {
        json!({"suite": suite, "name": base.name, "data_len": base.data.len(), "parent": hex(&base.parent),
               "sig": hex(&sig_bytes), "id": id.to_string()})
    });

    let cx = Ctx {
        suite,
        case_seed,
        base: &base,
        pk: &pk,
        sig: &sig,
        sig_bytes: &sig_bytes,
        id,
    };

    // ---- single byte of data
    for pos in positions(&mut rng, base.data.len(), 48, 4, 12) {
        let mut b = base.clone();
        b.data[pos] ^= rand_mask(&mut rng);
        cx.reject_cmd(m, "data-byte", &b);
    }
    // data truncated / extended by one byte
    if !base.data.is_empty() {
        let mut b = base.clone();
        b.data.pop();
        cx.reject_cmd(m, "data-truncated", &b);
        let mut b = base.clone();
        b.data.remove(0);
        cx.reject_cmd(m, "data-truncated", &b);
    }
    for extra in [0u8, 0x20] {
        let mut b = base.clone();
        b.data.push(extra);
        cx.reject_cmd(m, "data-extended", &b);
        let mut b = base.clone();
        b.data.insert(0, extra);
        cx.reject_cmd(m, "data-extended", &b);
    }
    // ---- single character / byte of name
    let chars: Vec<char> = base.name.chars().collect();
    for i in 0..chars.len() {
        let mut c = chars.clone();
        c[i] = other_char(c[i], &mut rng);
        let mut b = base.clone();
        b.name = c.into_iter().collect();
        cx.reject_cmd(m, "name-char", &b);
    }
    {
        let mut b = base.clone();
        b.name.push('x');
        cx.reject_cmd(m, "name-extended", &b);
        let mut b = base.clone();
        b.name.push('\0');
        cx.reject_cmd(m, "name-extended", &b);
        if !chars.is_empty() {
            let mut b = base.clone();
            b.name.pop();
            cx.reject_cmd(m, "name-truncated", &b);
            let mut b = base.clone();
            b.name = String::new();
            cx.reject_cmd(m, "name-emptied", &b);
            let swapped: String = base
                .name
                .chars()
                .map(|c| {
                    if c.is_ascii_lowercase() {
                        c.to_ascii_uppercase()
                    } else {
                        c.to_ascii_lowercase()
                    }
                })
                .collect();
            let mut b = base.clone();
            b.name = swapped;
            cx.reject_cmd(m, "name-case", &b);
        }
    }
    // ---- single byte of parent
    for pos in 0..32 {
        let mut b = base.clone();
        b.parent[pos] ^= rand_mask(&mut rng);
        cx.reject_cmd(m, "parent-byte", &b);
    }
    {
        let mut b = base.clone();
        b.parent = [0; 32];
        cx.reject_cmd(m, "parent-zeroed", &b);
        let mut b = base.clone();
        b.parent = *id.as_array();
        cx.reject_cmd(m, "parent-is-own-id", &b);
    }
    // ---- boundary shifts between adjacent fields (digest order: author, name, parent, data)
    // name -> data (skipping parent) and back
    if let Some(last) = chars.last() {
        let mut b = base.clone();
        b.name.pop();
        let mut d = last.to_string().into_bytes();
        d.extend_from_slice(&base.data);
        b.data = d;
        cx.reject_cmd(m, "shift-name-tail-to-data-head", &b);
        // whole name into data: empty name vs name bytes leading the data
        let mut b = base.clone();
        b.name = String::new();
        let mut d = base.name.clone().into_bytes();
        d.extend_from_slice(&base.data);
        b.data = d;
        cx.reject_cmd(m, "shift-whole-name-into-data", &b);
    }
    if let Some(&first) = base.data.first() {
        if first.is_ascii() {
            let mut b = base.clone();
            b.name.push(first as char);
            b.data.remove(0);
            cx.reject_cmd(m, "shift-data-head-to-name-tail", &b);
        }
    }
    if !base.data.is_empty() {
        if let Ok(s) = std::str::from_utf8(&base.data) {
            let mut b = base.clone();
            b.name.push_str(s);
            b.data = vec![];
            cx.reject_cmd(m, "shift-whole-data-into-name", &b);
            let mut b = base.clone();
            b.data = base.name.clone().into_bytes();
            b.name = s.to_string();
            cx.reject_cmd(m, "swap-name-and-data", &b);
        }
    }
    // rotate the name|parent|data split one byte to the left: the concatenation
    // name || parent || data stays byte-for-byte the same, only the field boundaries move.
    if let Some(last) = chars.last() {
        if last.is_ascii() {
            let mut b = base.clone();
            b.name.pop();
            b.parent[0] = *last as u8;
            b.parent[1..].copy_from_slice(&base.parent[..31]);
            let mut d = vec![base.parent[31]];
            d.extend_from_slice(&base.data);
            b.data = d;
            cx.reject_cmd(m, "rotate-boundaries-left", &b);
        }
    }
    // ... and one byte to the right
    if base.parent[0].is_ascii() && !base.data.is_empty() {
        let mut b = base.clone();
        b.name.push(base.parent[0] as char);
        b.parent[..31].copy_from_slice(&base.parent[1..]);
        b.parent[31] = base.data[0];
        b.data.remove(0);
        cx.reject_cmd(m, "rotate-boundaries-right", &b);
    }
    // parent <-> data only
    {
        let mut b = base.clone();
        b.parent[..31].copy_from_slice(&base.parent[1..]);
        if let Some(&f) = base.data.first() {
            b.parent[31] = f;
            b.data.remove(0);
            let mut d = b.data.clone();
            d.push(base.parent[0]);
            b.data = d;
            cx.reject_cmd(m, "rotate-parent-data", &b);
        }
        // parent id moved in front of the data, parent zeroed ("missing" parent)
        let mut b = base.clone();
        let mut d = base.parent.to_vec();
        d.extend_from_slice(&base.data);
        b.data = d;
        b.parent = [0; 32];
        cx.reject_cmd(m, "parent-moved-into-data", &b);
    }
    // ---- multi-point modifications
    for _ in 0..4 {
        let mut b = base.clone();
        let mut sb = sig_bytes.clone();
        let n = rng.urange(2, 5);
        let mut touched_sig = false;
        for _ in 0..n {
            match rng.below(4) {
                0 if !b.data.is_empty() => {
                    let p = rng.usize(b.data.len());
                    b.data[p] ^= rand_mask(&mut rng);
                }
                1 => {
                    let p = rng.usize(32);
                    b.parent[p] ^= rand_mask(&mut rng);
                }
                2 => b.name.push(*rng.pick(IDENT_TAIL) as char),
                _ => {
                    let p = rng.usize(sb.len());
                    sb[p] ^= rand_mask(&mut rng);
                    touched_sig = true;
                }
            }
        }
        if touched_sig {
            match Signature::<CS>::from_bytes(&sb) {
                Ok(s2) => cx.must_reject(m, "multi-point", &b, &pk, &s2),
                Err(_) => m.count("sig_mutants_undecodable", 1),
            }
        } else {
            cx.reject_cmd(m, "multi-point", &b);
        }
    }
    // ---- every byte of the signature
    for pos in 0..sig_bytes.len() {
        let sb = flip(&sig_bytes, pos, rand_mask(&mut rng));
        match Signature::<CS>::from_bytes(&sb) {
            Err(_) => m.count("sig_mutants_undecodable", 1),
            Ok(s2) => {
                if s2.to_bytes().borrow() == &sig_bytes[..] {
                    // a different encoding of the same logical signature is not a modification
                    m.count("sig_mutants_same_logical_signature", 1);
                    continue;
                }
                cx.must_reject(m, "sig-byte", &base, &pk, &s2);
            }
        }
    }
    for (kind, sb) in [
        ("sig-truncated", sig_bytes[..sig_bytes.len() - 1].to_vec()),
        ("sig-extended", [&sig_bytes[..], &[0u8]].concat()),
        ("sig-zeroed", vec![0u8; sig_bytes.len()]),
    ] {
        match Signature::<CS>::from_bytes(&sb) {
            Err(_) => m.count("sig_mutants_undecodable", 1),
            Ok(s2) => {
                if s2.to_bytes().borrow() == &sig_bytes[..] {
                    m.count("sig_mutants_same_logical_signature", 1);
                } else {
                    cx.must_reject(m, kind, &base, &pk, &s2);
                }
            }
        }
    }
    // ---- different keys
    let sk2 = SigningKey::<CS>::new(&det);
    let pk2 = sk2.public().expect("public key");
    cx.must_reject(m, "other-verifying-key", &base, &pk2, &sig);
    if let Ok((sig2, id2)) = sk2.sign_cmd(cmd) {
        cx.must_reject(m, "signature-by-other-key", &base, &pk, &sig2);
        if id2 == id {
            fail(m, "two-keys-same-command-id", json!(id.to_string()));
        }
    }
    // a signature by the same key over a different command
    {
        let mut b = base.clone();
        b.data.push(1);
        let p2 = CmdId::from_bytes(b.parent);
        if let Ok((sig3, _)) = sk.sign_cmd(Cmd {
            data: &b.data,
            name: &b.name,
            parent_id: &p2,
        }) {
            cx.must_reject(m, "signature-over-other-command", &base, &pk, &sig3);
        }
    }

    // ---- the policy-level entry point (crypto FFI): claimed command id
    let Ok(ident) = base.name.parse::<Identifier>() else {
        m.count("cases_without_ffi_name", 1);
        return;
    };
    let mut store = MemStore::new();
    let sk_id = match store.insert_key(&eng, sk.clone()) {
        Ok(i) => i,
        Err(e) => {
            m.inconclusive(&format!("harness: keystore insert failed: {e}"));
            return;
        }
    };
    let ffi = Ffi::new(store);
    let pk_bytes = postcard::to_allocvec(&pk).expect("encode pk");
    let ffi_detail = |what: &str, claimed: &[u8; 32], data: &[u8], sigb: &[u8], extra: Value| {
        json!({"case_seed": case_seed, "suite": suite, "ffi": what, "name": base.name, "parent": hex(&base.parent),
               "data": hex(data), "sig": hex(sigb), "claimed_id": hex(claimed), "real_id": hex(id.as_bytes()),
               "pk": hex(&pk_bytes), "extra": extra})
    };
    match catch(|| ffi_verify(&ffi, &eng, &ident, &pk_bytes, &base.parent, &base.data, id.as_array(), &sig_bytes)) {
        Ok(Ok(())) => m.count("ffi_positive_ok", 1),
        Ok(Err(e)) => {
            m.violation(
                "ffi-verify-rejects-valid-command",
                ffi_detail("verify", id.as_array(), &base.data, &sig_bytes, json!(e)),
            );
            return;
        }
        Err(p) => {
            m.violation(
                &format!("ffi-verify-panic:{}", p.site()),
                ffi_detail("verify", id.as_array(), &base.data, &sig_bytes, json!(p.what)),
            );
            return;
        }
    }
    let ffi_reject = |m: &mut Monitor, kind: &str, claimed: &[u8; 32], data: &[u8], sigb: &[u8], pkb: &[u8], parent: &[u8; 32]| {
        m.count("ffi_mutants_evaluated", 1);
        m.count(&format!("ffi:{kind}"), 1);
        match catch(|| ffi_verify(&ffi, &eng, &ident, pkb, parent, data, claimed, sigb)) {
            Ok(Err(_)) => {}
            Ok(Ok(())) => m.violation(
                &format!("ffi-verify-accepts:{kind}"),
                ffi_detail(kind, claimed, data, sigb, json!({"parent_used": hex(parent)})),
            ),
            Err(p) => m.violation(
                &format!("ffi-verify-panic:{}", p.site()),
                ffi_detail(kind, claimed, data, sigb, json!(p.what)),
            ),
        }
    };
    let idb = *id.as_array();
    for pos in positions(&mut rng, 32, 0, 2, 6) {
        let mut c = idb;
        c[pos] ^= rand_mask(&mut rng);
        ffi_reject(m, "claimed-id-byte", &c, &base.data, &sig_bytes, &pk_bytes, &base.parent);
    }
    ffi_reject(m, "claimed-id-zero", &[0; 32], &base.data, &sig_bytes, &pk_bytes, &base.parent);
    if base.parent != idb {
        ffi_reject(m, "claimed-id-is-parent", &base.parent, &base.data, &sig_bytes, &pk_bytes, &base.parent);
    }
    {
        let mut c = idb;
        c.reverse();
        if c != idb {
            ffi_reject(m, "claimed-id-reversed", &c, &base.data, &sig_bytes, &pk_bytes, &base.parent);
        }
        let mut d = base.data.clone();
        d.push(0);
        ffi_reject(m, "data-extended", &idb, &d, &sig_bytes, &pk_bytes, &base.parent);
        let mut p = base.parent;
        p[rng.usize(32)] ^= rand_mask(&mut rng);
        ffi_reject(m, "parent-byte", &idb, &base.data, &sig_bytes, &pk_bytes, &p);
        let pos = rng.usize(sig_bytes.len());
        let sb = flip(&sig_bytes, pos, rand_mask(&mut rng));
        let same_logical = Signature::<CS>::from_bytes(&sb)
            .map(|s| s.to_bytes().borrow() == &sig_bytes[..])
            .unwrap_or(false);
        if !same_logical {
            ffi_reject(m, "sig-byte", &idb, &base.data, &sb, &pk_bytes, &base.parent);
        }
        let pk2_bytes = postcard::to_allocvec(&pk2).expect("encode pk");
        ffi_reject(m, "other-verifying-key", &idb, &base.data, &sig_bytes, &pk2_bytes, &base.parent);
    }
    // another command name through the open context
    {
        let other: Identifier = format!("{}x", base.name).parse().expect("identifier");
        m.count("ffi_mutants_evaluated", 1);
        m.count("ffi:other-command-name", 1);
        if let Ok(Ok(())) = catch(|| ffi_verify(&ffi, &eng, &other, &pk_bytes, &base.parent, &base.data, &idb, &sig_bytes)) {
            m.violation(
                "ffi-verify-accepts:other-command-name",
                ffi_detail("other-command-name", &idb, &base.data, &sig_bytes, json!({"name_used": other.as_str()})),
            );
        }
    }
    // sign through the FFI: verifying derives the same id as signing
    match catch(|| ffi_sign(&ffi, &eng, &ident, &base.parent, sk_id.as_base(), &base.data)) {
        Ok(Ok((fsig, fid))) => {
            m.count("ffi_sign_ok", 1);
            match Signature::<CS>::from_bytes(&fsig).map(|s| pk.verify_cmd(cmd, &s)) {
                Ok(Ok(got)) if *got.as_array() == fid => {}
                other => m.violation(
                    "ffi-sign-id-differs-from-verify_cmd",
                    ffi_detail("sign", &fid, &base.data, &fsig, json!(format!("{other:?}"))),
                ),
            }
            if let Ok(Err(e)) | Err(PanicInfo { what: e }) =
                catch(|| ffi_verify(&ffi, &eng, &ident, &pk_bytes, &base.parent, &base.data, &fid, &fsig))
            {
                m.violation(
                    "ffi-verify-rejects-ffi-sign",
                    ffi_detail("sign+verify", &fid, &base.data, &fsig, json!(e)),
                );
            }
        }
        Ok(Err(e)) => m.violation(
            "ffi-sign-fails",
            ffi_detail("sign", &idb, &base.data, &[], json!(e)),
        ),
        Err(p) => m.violation(
            &format!("ffi-sign-panic:{}", p.site()),
            ffi_detail("sign", &idb, &base.data, &[], json!(p.what)),
        ),
    }
}

fn run(m: &mut Monitor, case_seed: u64, suite: &str) {
    match suite {
        "ecdsa-p256" => run_case::<EcdsaSuite>(m, case_seed, "ecdsa-p256"),
        _ => run_case::<DefaultCipherSuite>(m, case_seed, "default"),
    }
}

fn main() {
    let args = Args::parse();
    let mut m = Monitor::new(
        "C34",
        "cases: random signing key (default suite Ed25519, every 4th case an ECDSA-P256 suite), command data 0..2048 bytes, \
         name (empty / identifier / printable ASCII / multi-byte UTF-8), parent id (random/zero/ff). Positive: verify_cmd accepts \
         sign_cmd's signature with the same id (also after a to_bytes/from_bytes round trip). Each mutant must be rejected by \
         verify_cmd: single byte of data (all positions <=48 bytes, else edges+random), every name character, every parent byte, \
         every signature byte, truncation/extension, boundary shifts that keep name||parent||data byte-identical, empty-vs-moved \
         fields, 2..5-point changes, other key, other key's signature; via the crypto FFI verify: altered claimed command id, \
         data/parent/signature/key/name changes. Mutated signature encodings that decode to the same logical signature are \
         discarded. non-trivial = distinct (suite,data,name,parent) whose positive check passed",
    )
    .min(args.n(1500, 30_000))
    .require("mut:sig-byte", "signature byte mutants must have been verified")
    .require("mut:data-byte", "data byte mutants")
    .require("mut:name-char", "name mutants")
    .require("mut:parent-byte", "parent mutants")
    .require("mut:rotate-boundaries-left", "boundary shifts with identical concatenation")
    .require("mut:shift-whole-name-into-data", "empty vs moved field")
    .require("mut:other-verifying-key", "different key")
    .require("ffi_positive_ok", "FFI verify must accept valid commands, otherwise its rejections mean nothing")
    .require("ffi:claimed-id-byte", "claimed id mutants through the FFI")
    .require("ffi_sign_ok", "FFI sign path");

    if let Some(r) = args.replay_case() {
        let c = &r["case"];
        let seed = c["case_seed"].as_u64().expect("case_seed");
        run(&mut m, seed, c["suite"].as_str().unwrap_or("default"));
        finish_all(&args, vec![m]);
    }

    let cases = args.n(8000, 150_000);
    let cap = args.tier.pick(70.0, 800.0);
    run_sharded(&args, &mut m, cases, cap, |m, k| {
        let cs = case_seed(&args, 34, k);
        run(m, cs, if k % 4 == 3 { "ecdsa-p256" } else { "default" });
    });
    finish_all(&args, vec![m]);
}
