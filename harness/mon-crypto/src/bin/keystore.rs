//! C45: key stores behave as maps.
//!
//! Real code driven: `keystore::memstore::MemStore` and `keystore::fs_keystore::Store` through the
//! `KeyStore` / `Entry` / `Vacant` / `Occupied` API, in lockstep against a `BTreeMap` model.
use std::collections::{BTreeMap, BTreeSet};

use aranya_crypto::{
    BaseId, Identified, KeyStore,
    engine::WrappedKey,
    id::IdError,
    keystore::{Entry, ErrorKind, Occupied as _, Vacant as _, fs_keystore::Store, memstore::MemStore},
};
use serde::{Deserialize, Serialize};
use vcore::*;

/// A stand-in wrapped key: what is stored is opaque to the key stores.
#[derive(Clone, Debug, PartialEq, Eq, Serialize, Deserialize)]
struct TKey {
    id: BaseId,
    serial: u64,
    payload: Vec<u8>,
}

impl WrappedKey for TKey {}

impl Identified for TKey {
    type Id = BaseId;
    fn id(&self) -> Result<BaseId, IdError> {
        Ok(self.id)
    }
}

/// A key that cannot be encoded (a handle whose material went away): its first field encodes,
/// its second refuses, so a file-backed insert fails after it has started writing.
#[derive(Clone, Debug, Deserialize)]
struct PKey {
    id: BaseId,
    serial: u64,
}

struct Unencodable;

impl Serialize for Unencodable {
    fn serialize<S: serde::Serializer>(&self, _s: S) -> Result<S::Ok, S::Error> {
        Err(serde::ser::Error::custom("key material is unavailable"))
    }
}

impl Serialize for PKey {
    fn serialize<S: serde::Serializer>(&self, s: S) -> Result<S::Ok, S::Error> {
        use serde::ser::SerializeStruct as _;
        let mut st = s.serialize_struct("PKey", 2)?;
        st.serialize_field("serial", &self.serial)?;
        st.serialize_field("body", &Unencodable)?;
        st.end()
    }
}

impl WrappedKey for PKey {}

impl Identified for PKey {
    type Id = BaseId;
    fn id(&self) -> Result<BaseId, IdError> {
        Ok(self.id)
    }
}

const N_IDS: usize = 6;

fn ids(rng: &mut Rng) -> Vec<BaseId> {
    let mut v: Vec<BaseId> = vec![
        BaseId::from_bytes([0; 32]),
        BaseId::from_bytes([0xff; 32]),
    ];
    while v.len() < N_IDS {
        let mut b = [0u8; 32];
        rng.fill(&mut b);
        if v.len() == 2 {
            // leading zero bytes: short base58 text / leading '1's
            b[..6].fill(0);
        }
        v.push(BaseId::from_bytes(b));
    }
    v
}

#[derive(Clone, Debug)]
enum Op {
    /// entry(); vacant -> insert, occupied -> leave
    EntryInsert(usize),
    /// entry(); drop whatever it is without using it
    EntryDrop(usize),
    Get(usize),
    Remove(usize),
    TryInsert(usize),
    /// entry(); occupied -> get (n times)
    OccupiedGet(usize, usize),
    /// entry(); occupied -> remove
    OccupiedRemove(usize),
    /// entry(); occupied -> get then remove
    OccupiedGetRemove(usize),
    /// entry(); vacant -> insert of a key whose encoding fails (file store only; the in-memory
    /// store never encodes, it gets an unused entry instead): the id must stay vacant
    FailedInsert(usize),
    /// drop the fs store and open the directory again
    Reopen,
    /// replace the fs store by `try_clone()` of itself
    CloneSwap,
}

impl Op {
    fn name(&self) -> &'static str {
        match self {
            Op::EntryInsert(_) => "entry-insert",
            Op::EntryDrop(_) => "entry-drop",
            Op::Get(_) => "get",
            Op::Remove(_) => "remove",
            Op::TryInsert(_) => "try_insert",
            Op::OccupiedGet(_, 1) => "occupied-get",
            Op::OccupiedGet(..) => "occupied-get-repeated",
            Op::OccupiedRemove(_) => "occupied-remove",
            Op::OccupiedGetRemove(_) => "occupied-get-then-remove",
            Op::FailedInsert(_) => "entry-insert-unencodable",
            Op::Reopen => "reopen",
            Op::CloneSwap => "try_clone",
        }
    }
}

fn gen_op(rng: &mut Rng) -> Op {
    let i = rng.usize(N_IDS);
    match rng.weighted(&[5, 4, 4, 3, 3, 2, 1, 2, 1, 2, 1, 2]) {
        0 => Op::EntryInsert(i),
        1 => Op::EntryDrop(i),
        2 => Op::Get(i),
        3 => Op::Remove(i),
        4 => Op::TryInsert(i),
        5 => Op::OccupiedGet(i, 1),
        6 => Op::OccupiedGet(i, 2),
        7 => Op::OccupiedRemove(i),
        8 => Op::OccupiedGetRemove(i),
        9 => Op::Reopen,
        10 => Op::CloneSwap,
        _ => Op::FailedInsert(i),
    }
}

/// Outcome of an operation, comparable between the model and a store.
#[derive(Clone, Debug, PartialEq, Eq)]
enum Out {
    /// entry was vacant / occupied, and what the follow-up returned
    Vacant,
    VacantInserted,
    Occupied,
    OccupiedGot(Vec<TKey>),
    OccupiedRemoved(TKey),
    Got(Option<TKey>),
    Removed(Option<TKey>),
    Inserted,
    AlreadyExists,
    Nothing,
    Error(String),
}

fn apply_model(model: &mut BTreeMap<BaseId, TKey>, ids: &[BaseId], op: &Op, fresh: &TKey) -> Out {
    match op {
        Op::EntryInsert(i) => {
            if model.contains_key(&ids[*i]) {
                Out::Occupied
            } else {
                model.insert(ids[*i], fresh.clone());
                Out::VacantInserted
            }
        }
        Op::EntryDrop(i) | Op::FailedInsert(i) => {
            if model.contains_key(&ids[*i]) {
                Out::Occupied
            } else {
                Out::Vacant
            }
        }
        Op::Get(i) => Out::Got(model.get(&ids[*i]).cloned()),
        Op::Remove(i) => Out::Removed(model.remove(&ids[*i])),
        Op::TryInsert(i) => {
            if model.contains_key(&ids[*i]) {
                Out::AlreadyExists
            } else {
                model.insert(ids[*i], fresh.clone());
                Out::Inserted
            }
        }
        Op::OccupiedGet(i, n) => match model.get(&ids[*i]) {
            Some(k) => Out::OccupiedGot(vec![k.clone(); *n]),
            None => Out::Vacant,
        },
        Op::OccupiedRemove(i) => match model.remove(&ids[*i]) {
            Some(k) => Out::OccupiedRemoved(k),
            None => Out::Vacant,
        },
        Op::OccupiedGetRemove(i) => match model.remove(&ids[*i]) {
            Some(k) => Out::OccupiedGot(vec![k.clone(), k]),
            None => Out::Vacant,
        },
        Op::Reopen | Op::CloneSwap => Out::Nothing,
    }
}

fn apply_store<S: KeyStore>(store: &mut S, ids: &[BaseId], op: &Op, fresh: &TKey) -> Out {
    fn e<E: std::fmt::Display>(what: &str) -> impl Fn(E) -> Out + '_ {
        move |err| Out::Error(format!("{what}: {err}"))
    }
    fn run<S: KeyStore>(store: &mut S, ids: &[BaseId], op: &Op, fresh: &TKey) -> Result<Out, Out> {
        Ok(match op {
            Op::EntryInsert(i) => match store.entry::<TKey>(ids[*i]).map_err(e("entry"))? {
                Entry::Vacant(v) => {
                    v.insert(fresh.clone()).map_err(e("vacant insert"))?;
                    Out::VacantInserted
                }
                Entry::Occupied(_) => Out::Occupied,
            },
            Op::EntryDrop(i) => match store.entry::<TKey>(ids[*i]).map_err(e("entry"))? {
                Entry::Vacant(v) => {
                    drop(v);
                    Out::Vacant
                }
                Entry::Occupied(o) => {
                    drop(o);
                    Out::Occupied
                }
            },
            Op::FailedInsert(i) => match store.entry::<PKey>(ids[*i]).map_err(e("entry"))? {
                Entry::Vacant(v) => match v.insert(PKey { id: ids[*i], serial: fresh.serial }) {
                    Err(_) => Out::Vacant,
                    Ok(()) => return Err(Out::Error("unencodable insert: reported success".into())),
                },
                Entry::Occupied(_) => Out::Occupied,
            },
            Op::Get(i) => Out::Got(store.get::<TKey>(ids[*i]).map_err(e("get"))?),
            Op::Remove(i) => Out::Removed(store.remove::<TKey>(ids[*i]).map_err(e("remove"))?),
            Op::TryInsert(i) => match store.try_insert(ids[*i], fresh.clone()) {
                Ok(()) => Out::Inserted,
                Err(err) => {
                    use aranya_crypto::keystore::Error as _;
                    if err.kind() == ErrorKind::AlreadyExists {
                        Out::AlreadyExists
                    } else {
                        return Err(Out::Error(format!("try_insert: {err}")));
                    }
                }
            },
            Op::OccupiedGet(i, n) => match store.entry::<TKey>(ids[*i]).map_err(e("entry"))? {
                Entry::Vacant(_) => Out::Vacant,
                Entry::Occupied(o) => {
                    let mut v = vec![];
                    for k in 0..*n {
                        v.push(o.get().map_err(|err| Out::Error(format!("occupied get #{}: {err}", k + 1)))?);
                    }
                    Out::OccupiedGot(v)
                }
            },
            Op::OccupiedRemove(i) => match store.entry::<TKey>(ids[*i]).map_err(e("entry"))? {
                Entry::Vacant(_) => Out::Vacant,
                Entry::Occupied(o) => Out::OccupiedRemoved(o.remove().map_err(e("occupied remove"))?),
            },
            Op::OccupiedGetRemove(i) => match store.entry::<TKey>(ids[*i]).map_err(e("entry"))? {
                Entry::Vacant(_) => Out::Vacant,
                Entry::Occupied(o) => {
                    let a = o.get().map_err(e("occupied get"))?;
                    let b = o.remove().map_err(e("occupied remove after get"))?;
                    Out::OccupiedGot(vec![a, b])
                }
            },
            Op::Reopen | Op::CloneSwap => Out::Nothing,
        })
    }
    match catch(|| run(store, ids, op, fresh)) {
        Ok(Ok(o)) | Ok(Err(o)) => o,
        Err(p) => Out::Error(format!("panic: {}", p.what)),
    }
}

/// File names in the store directory, without the store's own `__canary` bookkeeping file.
fn listing(dir: &std::path::Path) -> Result<(BTreeSet<String>, bool), String> {
    let mut names = BTreeSet::new();
    let mut canary = false;
    for ent in std::fs::read_dir(dir).map_err(|e| e.to_string())? {
        let n = ent.map_err(|e| e.to_string())?.file_name().to_string_lossy().into_owned();
        if n == "__canary" {
            canary = true;
        } else {
            names.insert(n);
        }
    }
    Ok((names, canary))
}

fn out_json(o: &Out) -> Value {
    json!(format!("{o:?}"))
}

fn run_history(m: &mut Monitor, hist_seed: u64, len: usize) {
    let mut rng = Rng::new(hist_seed);
    let ids = ids(&mut rng);
    // vcore::Scratch names are only unique per process+tag, so the tag carries the history seed
    // (histories run concurrently on all cores).
    let scratch = Scratch::new(&format!("c45-{hist_seed:016x}"));
    let dir = scratch.path().join("store");
    if let Err(e) = std::fs::create_dir_all(&dir) {
        m.inconclusive(&format!("harness: cannot create scratch dir: {e}"));
        return;
    }
    let mut mem = MemStore::new();
    let mut fs = match Store::open(&dir) {
        Ok(s) => s,
        Err(e) => {
            m.violation("fs-open-fails", json!({"hist_seed": hist_seed, "len": len, "err": e.to_string()}));
            return;
        }
    };
    let mut model: BTreeMap<BaseId, TKey> = BTreeMap::new();
    let mut trace: Vec<String> = vec![];
    let mut serial = 0u64;
    let mut opnames: Vec<&'static str> = vec![];
    m.eval();

    let report = |m: &mut Monitor, sig: &str, step: usize, trace: &[String], extra: Value| {
        m.violation(
            sig,
            json!({"hist_seed": hist_seed, "len": len, "failed_at_step": step, "ids": ids.iter().map(|i| i.to_string()).collect::<Vec<_>>(),
                   "trace": trace, "extra": extra}),
        );
    };

    for step in 0..len {
        let op = gen_op(&mut rng);
        serial += 1;
        let plen = match rng.below(4) {
            0 => 0,
            1 => rng.urange(1, 24),
            2 => rng.urange(25, 300),
            _ => 32,
        };
        let fresh = TKey {
            id: match &op {
                Op::EntryInsert(i) | Op::TryInsert(i) => ids[*i],
                _ => ids[0],
            },
            serial,
            payload: rng.bytes(plen),
        };
        let was: BTreeSet<BaseId> = model.keys().copied().collect();
        let want = apply_model(&mut model, &ids, &op, &fresh);
        trace.push(format!("{step}: {op:?} -> {want:?}").chars().take(160).collect());
        opnames.push(op.name());
        m.count("ops", 1);
        m.count(&format!("op:{}", op.name()), 1);
        match &want {
            Out::Vacant | Out::VacantInserted | Out::Inserted => m.count("ops_on_vacant_id", 1),
            Out::Occupied | Out::OccupiedGot(_) | Out::OccupiedRemoved(_) | Out::AlreadyExists => {
                m.count("ops_on_occupied_id", 1)
            }
            _ => {}
        }

        // the file-system store
        match &op {
            Op::Reopen => {
                drop(fs);
                fs = match Store::open(&dir) {
                    Ok(s) => s,
                    Err(e) => return report(m, "fs-reopen-fails", step, &trace, json!(e.to_string())),
                };
            }
            Op::CloneSwap => {
                fs = match fs.try_clone() {
                    Ok(s) => s,
                    Err(e) => return report(m, "fs-try_clone-fails", step, &trace, json!(e.to_string())),
                };
            }
            _ => {}
        }
        let mem_op = match &op {
            Op::FailedInsert(i) => Op::EntryDrop(*i),
            o => o.clone(),
        };
        let got_mem = apply_store(&mut mem, &ids, &mem_op, &fresh);
        let got_fs = apply_store(&mut fs, &ids, &op, &fresh);
        let mut mismatch = false;
        for (store, got) in [("memstore", &got_mem), ("fs-store", &got_fs)] {
            if *got != want {
                let class = match got {
                    Out::Error(e) => format!("error({})", e.split(':').next().unwrap_or("")),
                    _ => "other-result".into(),
                };
                report(
                    m,
                    &format!("{store}-differs-from-map:{}:{class}", op.name()),
                    step,
                    &trace,
                    json!({"store": store, "op": format!("{op:?}"), "expected": out_json(&want), "got": out_json(got),
                           "occupied_before": was.iter().map(|i| i.to_string()).collect::<Vec<_>>()}),
                );
                mismatch = true;
            }
        }
        if mismatch {
            // Keep exploring the rest of the history only if both stores still hold exactly the
            // model's contents (the failed call may or may not have taken effect).
            let in_sync = ids.iter().enumerate().all(|(i, id)| {
                let w = Out::Got(model.get(id).cloned());
                apply_store(&mut mem, &ids, &Op::Get(i), &fresh) == w && apply_store(&mut fs, &ids, &Op::Get(i), &fresh) == w
            }) && listing(&dir).map(|(n, _)| n == model.keys().map(|i| i.to_string()).collect::<BTreeSet<_>>()).unwrap_or(false);
            if !in_sync {
                m.count("histories_abandoned_after_divergence", 1);
                return;
            }
            m.count("histories_continued_after_reported_mismatch", 1);
        }

        // directory contents: after a dropped vacant entry and after a reopen (and, cheaply, always)
        let must_list = matches!(op, Op::Reopen | Op::CloneSwap) || (matches!(op, Op::EntryDrop(_) | Op::FailedInsert(_)) && want == Out::Vacant);
        if must_list || step % 8 == 7 || step + 1 == len {
            let expect: BTreeSet<String> = model.keys().map(|i| i.to_string()).collect();
            match listing(&dir) {
                Err(e) => {
                    m.inconclusive(&format!("harness: cannot list scratch dir: {e}"));
                    return;
                }
                Ok((names, canary)) => {
                    m.count("listings_checked", 1);
                    if canary {
                        m.count("listings_with_canary", 1);
                    }
                    if matches!(op, Op::EntryDrop(_)) && want == Out::Vacant {
                        m.count("listings_after_vacant_drop", 1);
                    }
                    if matches!(op, Op::FailedInsert(_)) && want == Out::Vacant {
                        m.count("listings_after_failed_insert", 1);
                    }
                    if matches!(op, Op::Reopen | Op::CloneSwap) {
                        m.count("listings_after_reopen", 1);
                    }
                    if names != expect {
                        let sig = if matches!(op, Op::FailedInsert(_)) {
                            "fs-directory-differs-after-failed-insert"
                        } else if matches!(op, Op::EntryDrop(_)) {
                            "fs-directory-differs-after-vacant-drop"
                        } else if matches!(op, Op::Reopen | Op::CloneSwap) {
                            "fs-directory-differs-after-reopen"
                        } else {
                            "fs-directory-differs-from-map"
                        };
                        report(
                            m,
                            sig,
                            step,
                            &trace,
                            json!({"directory": names, "expected": expect,
                                   "extra_files": names.difference(&expect).collect::<Vec<_>>(),
                                   "missing_files": expect.difference(&names).collect::<Vec<_>>()}),
                        );
                        return;
                    }
                }
            }
        }
        // after a reopen every id reads back as in the model
        if matches!(op, Op::Reopen | Op::CloneSwap) || step + 1 == len {
            for (i, id) in ids.iter().enumerate() {
                let w = Out::Got(model.get(id).cloned());
                for (store, got) in [
                    ("memstore", apply_store(&mut mem, &ids, &Op::Get(i), &fresh)),
                    ("fs-store", apply_store(&mut fs, &ids, &Op::Get(i), &fresh)),
                ] {
                    if got != w {
                        report(
                            m,
                            &format!("{store}-contents-differ-after-{}", if step + 1 == len && !matches!(op, Op::Reopen | Op::CloneSwap) { "history" } else { "reopen" }),
                            step,
                            &trace,
                            json!({"id": id.to_string(), "expected": out_json(&w), "got": out_json(&got)}),
                        );
                        return;
                    }
                }
            }
            m.count("full_content_checks", 1);
        }
    }
    m.nontrivial(hash_of(&opnames));
    m.max("max_history_len", len as u64);
    m.sample(|| json!({"hist_seed": hist_seed, "len": len, "first_ops": trace.iter().take(12).collect::<Vec<_>>()}));
}

fn main() {
    let args = Args::parse();
    let mut m = Monitor::new(
        "C45",
        "history = random sequence (40..240 ops) over 6 ids (all-zero, all-ff, leading zeros, random) of: entry->insert if \
         vacant, entry->drop unused (vacant or occupied), get, remove, try_insert, occupied entry get (once / twice), occupied \
         remove, occupied get then remove, entry->insert of a key whose encoding fails part-way (fs store; the id must stay vacant and no file may stay), reopen (drop + Store::open on the same directory), try_clone swap; applied in \
         lockstep to MemStore, fs Store (scratch dir on tmpfs) and a BTreeMap model; every result (vacant/occupied, returned \
         key by value, AlreadyExists) is compared; after every dropped vacant entry, every reopen, every 8th step and at the \
         end the directory listing must be exactly the model's ids (the store's own `__canary` file ignored); after reopen all \
         6 ids are read back. non-trivial = history that ran to its end, distinct by its operation sequence",
    )
    .min(args.n(1500, 50_000))
    .require("listings_after_vacant_drop", "dropped vacant entries must have been followed by a listing")
    .require("listings_after_reopen", "reopen must have been followed by a listing")
    .require("op:occupied-get", "occupied entry reads")
    .require("op:occupied-remove", "occupied entry removes")
    .require("op:try_insert", "try_insert")
    .require("listings_after_failed_insert", "failed inserts on vacant ids must have been followed by a listing")
    .require("ops_on_vacant_id", "vacant branch")
    .require("ops_on_occupied_id", "occupied branch");

    if let Some(r) = args.replay_case() {
        let c = &r["case"];
        run_history(&mut m, c["hist_seed"].as_u64().expect("hist_seed"), c["len"].as_u64().expect("len") as usize);
        finish_all(&args, vec![m]);
    }

    let histories = args.n(5000, 250_000);
    let cap = args.tier.pick(70.0, 800.0);
    mon_crypto::run_sharded(&args, &mut m, histories, cap, |m, k| {
        let hs = mon_crypto::case_seed(&args, 45, k);
        let len = 40 + (mix2(hs, 7) % 201) as usize;
        run_history(m, hs, len);
    });
    finish_all(&args, vec![m]);
}
