pub mod audit;
pub mod dag;
pub mod driver;
pub mod r#gen;
pub mod model;
pub mod replica;
pub mod syncer;
