pub mod audit;
pub mod dag;
pub mod model;
