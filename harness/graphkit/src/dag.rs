//! Abstract command DAGs and the script language carried in `Command::bytes()`.

use serde::{Deserialize, Serialize};
use vcore::{mix2, Rng};

pub type Id = [u8; 32];
pub type Key = Vec<Vec<u8>>;

/// Fact names used by scripts.
pub const NAMES: [&str; 3] = ["fa", "fb", "fab"];
/// The order-sensitive list fact: every non-quiet command appends its tag.
pub const SEQ: &str = "seq";

#[derive(Clone, Copy, Debug, PartialEq, Eq, PartialOrd, Ord, Hash, Serialize, Deserialize)]
pub enum Prio {
    Merge,
    Basic(u32),
    Finalize,
    Init,
}

#[derive(Clone, Copy, Debug, PartialEq, Eq, Hash, Serialize, Deserialize)]
pub enum Par {
    None,
    Single(usize),
    Merge(usize, usize),
}

impl Par {
    pub fn iter(self) -> impl Iterator<Item = usize> {
        let (a, b) = match self {
            Par::None => (None, None),
            Par::Single(p) => (Some(p), None),
            Par::Merge(l, r) => (Some(l), Some(r)),
        };
        a.into_iter().chain(b)
    }
}

#[derive(Clone, Debug, PartialEq, Eq, Hash, Serialize, Deserialize)]
pub enum Op {
    Put { n: u8, k: Key, v: Vec<u8> },
    Del { n: u8, k: Key },
    /// Conditional evaluated before any write: the fact must currently equal `v`
    /// (None = absent), otherwise the command is rejected without writing.
    Require { n: u8, k: Key, v: Option<Vec<u8>> },
    /// Reject here, after the writes before it have been made ("write-then-fail").
    Fail,
}

#[derive(Clone, Debug, Default, PartialEq, Eq, Hash, Serialize, Deserialize)]
pub struct Script {
    /// Unique per command in a case; appended to the `seq` fact unless `quiet`.
    pub tag: u32,
    pub quiet: bool,
    pub ops: Vec<Op>,
}

impl Script {
    pub fn encode(&self) -> Vec<u8> {
        postcard::to_allocvec(self).expect("script encodes")
    }
    pub fn decode(b: &[u8]) -> Option<Self> {
        postcard::from_bytes(b).ok()
    }
    pub fn rejects_at_origin(&self) -> bool {
        self.ops.iter().any(|o| matches!(o, Op::Fail))
    }
}

#[derive(Clone, Debug, PartialEq, Eq, Hash, Serialize, Deserialize)]
pub struct Node {
    pub id: Id,
    pub par: Par,
    pub prio: Prio,
    pub script: Script,
    pub max_cut: u64,
}

/// Commands in topological order (parents have lower indexes). Node 0 is the init command.
#[derive(Clone, Debug, Default, PartialEq, Eq, Hash, Serialize, Deserialize)]
pub struct Dag {
    pub nodes: Vec<Node>,
}

/// Deterministic merge id from the two parent ids (sorted), the derivation `AuditPolicy::merge` uses.
pub fn merge_id(a: &Id, b: &Id) -> Id {
    let (l, r) = if a <= b { (a, b) } else { (b, a) };
    let mut out = [0u8; 32];
    let mut acc = 0x6d65_7267_655f_6964u64;
    for chunk in 0..4 {
        for src in [l, r] {
            for w in src.chunks(8) {
                acc = mix2(acc, u64::from_le_bytes(w.try_into().unwrap()) ^ chunk as u64);
            }
        }
        out[chunk * 8..chunk * 8 + 8].copy_from_slice(&acc.to_le_bytes());
    }
    out
}

/// Id of a command published by an action: derived from parent, nonce and position.
pub fn published_id(parent: Option<&Id>, nonce: u64, i: usize) -> Id {
    let z = [0u8; 32];
    let p = parent.unwrap_or(&z);
    let mut out = [0u8; 32];
    let mut acc = mix2(nonce, i as u64 ^ 0x7075_626c);
    for chunk in 0..4 {
        for w in p.chunks(8) {
            acc = mix2(acc, u64::from_le_bytes(w.try_into().unwrap()) ^ chunk as u64);
        }
        out[chunk * 8..chunk * 8 + 8].copy_from_slice(&acc.to_le_bytes());
    }
    out
}

/// How command ids are chosen, so ties and orderings are adversarial.
#[derive(Clone, Copy, Debug, PartialEq, Eq, Serialize, Deserialize)]
pub enum IdStyle {
    Random,
    /// Ids ascend with creation order (big-endian counter in the first bytes).
    Ascending,
    /// Ids descend with creation order.
    Descending,
    /// Ids share a 31-byte prefix and differ only in the last byte(s).
    LastByte,
    /// Only the first byte differs (few values) then random.
    FirstByteClusters,
}

pub fn fresh_id(style: IdStyle, n: usize, rng: &mut Rng) -> Id {
    let mut id = [0u8; 32];
    match style {
        IdStyle::Random => rng.fill(&mut id),
        IdStyle::Ascending => {
            rng.fill(&mut id);
            id[..4].copy_from_slice(&(n as u32 + 1).to_be_bytes());
        }
        IdStyle::Descending => {
            rng.fill(&mut id);
            id[..4].copy_from_slice(&(u32::MAX - n as u32).to_be_bytes());
        }
        IdStyle::LastByte => {
            id = [0x42; 32];
            // spread over the last two bytes so >256 nodes stay unique; order scrambled
            let x = (n as u32).wrapping_mul(40503) & 0xffff;
            id[30] = (x >> 8) as u8;
            id[31] = x as u8;
            id[29] = (n >> 16) as u8;
        }
        IdStyle::FirstByteClusters => {
            rng.fill(&mut id);
            id[0] = (rng.below(3) as u8) * 0x55;
        }
    }
    id
}

impl Dag {
    pub fn len(&self) -> usize {
        self.nodes.len()
    }
    pub fn is_empty(&self) -> bool {
        self.nodes.is_empty()
    }
    pub fn index_of(&self, id: &Id) -> Option<usize> {
        self.nodes.iter().position(|n| &n.id == id)
    }
    /// Structural shape hash (ignores ids' random parts: parents, priorities, ops kinds).
    pub fn shape_hash(&self) -> u64 {
        let mut h = 0x5348_4150u64;
        for n in &self.nodes {
            let p = match n.par {
                Par::None => 0,
                Par::Single(a) => 1 + a as u64,
                Par::Merge(a, b) => (1 + a as u64) << 20 ^ (7 + b as u64),
            };
            let pr = match n.prio {
                Prio::Merge => 0,
                Prio::Basic(x) => 10 + x as u64,
                Prio::Finalize => 2,
                Prio::Init => 3,
            };
            h = mix2(h, p ^ (pr << 40) ^ ((n.script.ops.len() as u64) << 56));
        }
        h
    }
}
