//! Executes delivery histories on a replica while checking, step by step, what the runtime did
//! against the reference model. Findings are tagged with the property they refute.

use std::collections::{BTreeMap, BTreeSet};

use aranya_runtime::{linear::IoManager, ClientError};
use vcore::{hex, json, Value};

use crate::{audit::*, dag::*, r#gen::Step, model::*, replica::*};

#[derive(Clone, Debug)]
pub struct Finding {
    pub prop: &'static str,
    pub sig: String,
    pub detail: Value,
}

#[derive(Default, Debug)]
pub struct Obs {
    pub findings: Vec<Finding>,
    pub counts: BTreeMap<String, u64>,
}

impl Obs {
    pub fn fail(&mut self, prop: &'static str, sig: &str, detail: Value) {
        // cap per signature, so a flood of one kind cannot crowd out another property's finding
        let same = self.findings.iter().filter(|f| f.prop == prop && f.sig == sig).count();
        if same < 3 && self.findings.len() < 256 {
            self.findings.push(Finding { prop, sig: sig.into(), detail });
        }
    }
    pub fn count(&mut self, k: &str, n: u64) {
        *self.counts.entry(k.into()).or_insert(0) += n;
    }
    pub fn max(&mut self, k: &str, n: u64) {
        let e = self.counts.entry(k.into()).or_insert(0);
        *e = (*e).max(n);
    }
}

pub fn short(id: &Id) -> String {
    hex(&id[..4])
}

#[derive(Clone, Debug, PartialEq, Eq)]
pub enum BlockEnd {
    Commit,
    Rollback,
    Open,
}

#[derive(Clone, Debug)]
pub struct Block {
    pub rules: Vec<(Id, u32, Place, bool, Result<(), Rejected>)>,
    pub consumed: Vec<Effect>,
    pub end: BlockEnd,
}

/// Split a log into sink transactions. Rule calls outside any begin..commit/rollback are
/// returned separately (the runtime never evaluates a rule outside a sink transaction).
pub fn blocks(events: &[Event]) -> (Vec<Block>, usize) {
    let mut out = vec![];
    let mut cur: Option<Block> = None;
    let mut stray = 0;
    for e in events {
        match e {
            Event::SinkBegin => {
                if let Some(b) = cur.take() {
                    out.push(b);
                }
                cur = Some(Block { rules: vec![], consumed: vec![], end: BlockEnd::Open });
            }
            Event::Rule { id, tag, place, merge_parent, result } => match cur.as_mut() {
                Some(b) => b.rules.push((*id, *tag, *place, *merge_parent, *result)),
                None => stray += 1,
            },
            Event::SinkConsume(eff) => match cur.as_mut() {
                Some(b) => b.consumed.push(eff.clone()),
                None => stray += 1,
            },
            Event::SinkCommit => {
                if let Some(mut b) = cur.take() {
                    b.end = BlockEnd::Commit;
                    out.push(b);
                } else {
                    stray += 1;
                }
            }
            Event::SinkRollback => {
                if let Some(mut b) = cur.take() {
                    b.end = BlockEnd::Rollback;
                    out.push(b);
                } else {
                    stray += 1;
                }
            }
            _ => {}
        }
    }
    if let Some(b) = cur.take() {
        out.push(b);
    }
    (out, stray)
}

#[derive(Clone, Debug)]
pub enum Expect {
    Origin(usize),
    /// Braid of these heads (model indexes).
    Braid(Vec<usize>),
}

fn ids(model: &Model, vs: &[usize]) -> Vec<String> {
    vs.iter().map(|&v| format!("{}#{}", short(&model.node(v).id), v)).collect()
}

/// Compare one observed sink block against the expectation. Returns false on mismatch.
pub fn check_block(model: &mut Model, exp: &Expect, b: &Block, ctx: &Value, obs: &mut Obs) {
    match exp {
        Expect::Origin(v) => {
            let n = model.node(*v).clone();
            let ok = b.rules.len() == 1
                && b.rules[0].0 == n.id
                && b.rules[0].2 == Place::Origin
                && b.rules[0].4.is_ok()
                && b.consumed.len() == 1
                && b.end == BlockEnd::Commit;
            if !ok {
                obs.fail("C02", "origin-evaluation-block-mismatch", json!({"ctx": ctx, "node": v, "block": format!("{b:?}")}));
            }
            obs.count("origin_evaluations", 1);
        }
        Expect::Braid(heads) => {
            let br = match model.braid(heads) {
                Ok(b) => b,
                Err(_) => return,
            };
            obs.count("braids", 1);
            obs.max("max_braid_len", br.applied.len() as u64);
            // C02: exactly once, ancestors first, merges never evaluated, all in-braid.
            let mut seen = BTreeSet::new();
            let mut order_idx = vec![];
            for r in &b.rules {
                if r.3 {
                    obs.fail("C02", "merge-command-evaluated-by-policy", json!({"ctx": ctx, "id": short(&r.0)}));
                }
                if r.2 != Place::Braid {
                    obs.fail("C02", "braid-command-evaluated-with-wrong-placement", json!({"ctx": ctx, "id": short(&r.0), "place": format!("{:?}", r.2)}));
                }
                if !seen.insert(r.0) {
                    obs.fail("C02", "command-applied-twice-in-braid", json!({"ctx": ctx, "id": short(&r.0), "heads": ids(model, heads)}));
                }
                match model.idx(&r.0) {
                    Some(i) => order_idx.push(i),
                    None => obs.fail("C02", "unknown-command-evaluated-in-braid", json!({"ctx": ctx, "id": short(&r.0)})),
                }
            }
            'outer: for (i, &a) in order_idx.iter().enumerate() {
                for &later in &order_idx[i + 1..] {
                    if later != a && model.anc_eq(later, a) {
                        obs.fail("C02", "descendant-applied-before-ancestor", json!({"ctx": ctx, "first": a, "then_ancestor": later, "heads": ids(model, heads)}));
                        break 'outer;
                    }
                }
            }
            let want: BTreeSet<usize> = br.applied.iter().copied().collect();
            let got: BTreeSet<usize> = order_idx.iter().copied().collect();
            if want != got {
                let missing: Vec<_> = want.difference(&got).copied().collect();
                let extra: Vec<_> = got.difference(&want).copied().collect();
                obs.fail("C02", "braid-applied-set-differs", json!({"ctx": ctx, "heads": ids(model, heads), "missing": missing, "extra": extra, "base": br.base}));
            } else if order_idx != br.applied {
                // C03: the exact order (priority, id) ties and starting point.
                obs.fail("C03", "braid-order-differs-from-reference", json!({"ctx": ctx, "heads": ids(model, heads), "got": order_idx, "want": br.applied, "base": br.base}));
            }
            if b.end != BlockEnd::Commit {
                obs.fail("C02", "braid-sink-not-committed", json!({"ctx": ctx, "end": format!("{:?}", b.end)}));
            }
        }
    }
}

#[derive(Debug)]
pub struct RunOut {
    /// Nodes delivered and committed.
    pub committed: Bits,
    /// Set when the history stopped on an (expected) parallel-finalize error.
    pub parallel_finalize: bool,
    pub aborted: bool,
}

pub struct RunCfg {
    /// Walk the graph and compare facts at every commit (else only at the last one).
    pub check_every_commit: bool,
    pub check_blocks: bool,
}

impl Default for RunCfg {
    fn default() -> Self {
        RunCfg { check_every_commit: true, check_blocks: true }
    }
}

pub fn facts_diff(got: &Facts, want: &Facts) -> Value {
    let mut diffs = vec![];
    for (k, v) in want {
        match got.get(k) {
            None => diffs.push(json!({"key": format!("{k:?}"), "want": hex(v), "got": null})),
            Some(g) if g != v => diffs.push(json!({"key": format!("{k:?}"), "want": hex(v), "got": hex(g)})),
            _ => {}
        }
    }
    for (k, g) in got {
        if !want.contains_key(k) {
            diffs.push(json!({"key": format!("{k:?}"), "want": null, "got": hex(g)}));
        }
    }
    diffs.truncate(8);
    json!(diffs)
}

/// Check the committed state of a replica against the model for delivered set `set`.
pub fn check_committed<M: IoManager>(rep: &mut Replica<M>, model: &mut Model, set: &Bits, ctx: &Value, full: bool, obs: &mut Obs) {
    let want_heads = model.frontier(set);
    let heads = match rep.heads() {
        Ok(h) => h,
        Err(e) => {
            obs.fail("C09", "heads-unreadable", json!({"ctx": ctx, "err": e.to_string()}));
            return;
        }
    };
    obs.max("max_heads", heads.len() as u64);
    if heads.len() > 1 {
        obs.count("multi_head_commits", 1);
    }
    // C09: sorted ascending by id, duplicate free, exactly the frontier.
    if !heads.windows(2).all(|w| w[0].0 < w[1].0) {
        obs.fail("C09", "head-set-not-strictly-sorted-by-id", json!({"ctx": ctx, "heads": heads.iter().map(|h| short(&h.0)).collect::<Vec<_>>()}));
    }
    let mut want: Vec<(Id, u64)> = want_heads.iter().map(|&v| (model.node(v).id, model.node(v).max_cut)).collect();
    want.sort();
    let mut got = heads.clone();
    got.sort();
    if got != want {
        obs.fail("C09", "head-set-is-not-the-frontier", json!({"ctx": ctx, "got": got.iter().map(|h| (short(&h.0), h.1)).collect::<Vec<_>>(), "want": want.iter().map(|h| (short(&h.0), h.1)).collect::<Vec<_>>()}));
        return;
    }
    // C03: committed fact state equals the reference.
    match (rep.facts(), model.committed_state(&want_heads)) {
        (Ok(got), Ok(want)) => {
            if got != *want {
                obs.fail("C03", "committed-facts-differ-from-reference", json!({"ctx": ctx, "heads": ids(model, &want_heads), "diff": facts_diff(&got, &want)}));
            }
            // C02: every non-quiet command of the committed graph appears exactly once in seq,
            // in an order consistent with causality.
            let seq = seq_of(&got);
            let mut tag_to_node = BTreeMap::new();
            for v in set.iter() {
                let n = model.node(v);
                if !n.script.quiet && !matches!(n.par, Par::Merge(..)) {
                    tag_to_node.insert(n.script.tag, v);
                }
            }
            let mut seen = BTreeSet::new();
            let mut order = vec![];
            for t in &seq {
                match tag_to_node.get(t) {
                    Some(&v) => {
                        if !seen.insert(v) {
                            obs.fail("C02", "command-applied-twice-in-fact-state", json!({"ctx": ctx, "node": v}));
                        }
                        order.push(v);
                    }
                    None => obs.fail("C02", "unknown-command-in-fact-state", json!({"ctx": ctx, "tag": t})),
                }
            }
            // Commands skipped in a braid because their Require failed legitimately do not append;
            // so only the reference decides which must be present.
            let want_seq = seq_of(&want);
            if seq != want_seq && got == *want {
                unreachable!();
            }
            for (i, &a) in order.iter().enumerate() {
                if order[i + 1..].iter().any(|&l| model.anc_eq(l, a) && l != a) {
                    obs.fail("C02", "fact-state-order-violates-causality", json!({"ctx": ctx, "node": a}));
                    break;
                }
            }
        }
        (Err(e), _) => obs.fail("C03", "fact-cache-unreadable", json!({"ctx": ctx, "err": e.to_string()})),
        (_, Err(_)) => {}
    }
    if full {
        match rep.walk() {
            Ok(w) => {
                obs.count("graph_walks", 1);
                let want_ids: BTreeSet<Id> = set.iter().map(|v| model.node(v).id).collect();
                let got_ids: BTreeSet<Id> = w.keys().copied().collect();
                if want_ids != got_ids {
                    let missing: Vec<_> = want_ids.difference(&got_ids).map(short).collect();
                    let extra: Vec<_> = got_ids.difference(&want_ids).map(short).collect();
                    obs.fail("C09", "graph-reachable-from-heads-differs-from-delivered-set", json!({"ctx": ctx, "missing": missing, "extra": extra}));
                }
                for (id, c) in &w {
                    if let Some(v) = model.idx(id) {
                        let n = model.node(v);
                        let mut wp: Vec<Id> = n.par.iter().map(|p| model.node(p).id).collect();
                        wp.sort();
                        let mut gp: Vec<Id> = c.parents.iter().map(|p| p.0).collect();
                        gp.sort();
                        if wp != gp || c.prio != n.prio || c.max_cut != n.max_cut {
                            obs.fail("C09", "stored-command-differs-from-delivered", json!({"ctx": ctx, "node": v}));
                        }
                    }
                }
            }
            Err(e) => obs.fail("C09", "graph-walk-failed", json!({"ctx": ctx, "err": e.to_string()})),
        }
    }
}

/// Execute `steps` on `rep` (fresh or already holding `already`), checking every step.
pub fn run_history<M: IoManager>(
    rep: &mut Replica<M>,
    model: &mut Model,
    steps: &[Step],
    already: &Bits,
    cfg: &RunCfg,
    obs: &mut Obs,
) -> RunOut {
    let mut committed = already.clone();
    let mut in_trx = already.clone();
    let mut trx = rep.trx();
    let mut out = RunOut { committed: committed.clone(), parallel_finalize: false, aborted: false };
    rep.take_log();
    let last_commit = steps.iter().rposition(|s| matches!(s, Step::Commit));
    for (si, step) in steps.iter().enumerate() {
        let ctx = json!({"step": si, "kind": format!("{step:?}").chars().take(60).collect::<String>()});
        match step {
            Step::Add(batch) => {
                let mut expects = vec![];
                let mut expect_pf = false;
                let mut new_count = 0usize;
                let mut probe = in_trx.clone();
                for &v in batch {
                    if probe.get(v) {
                        continue;
                    }
                    match model.node(v).par {
                        Par::None | Par::Single(_) => expects.push(Expect::Origin(v)),
                        Par::Merge(l, r) => {
                            if model.braid(&[l, r]).is_err() {
                                expect_pf = true;
                                break;
                            }
                            expects.push(Expect::Braid(vec![l, r]));
                        }
                    }
                    probe.set(v);
                    new_count += 1;
                }
                let wires: Vec<WireCmd> = batch.iter().map(|&v| wire(&model.dag, v)).collect();
                let res = rep.add(&mut trx, &wires);
                let log = rep.take_log();
                match res {
                    Ok(n) => {
                        if expect_pf {
                            obs.fail("C05", "parallel-finalize-not-detected-on-merge", json!({"ctx": ctx}));
                            out.aborted = true;
                            return out;
                        }
                        if n != new_count {
                            obs.fail("C09", "add_commands-count-differs", json!({"ctx": ctx, "got": n, "want": new_count}));
                        }
                        in_trx = probe;
                        if in_trx.get(0) && !committed.get(0) {
                            // creating the graph commits the init segment
                            committed.set(0);
                            out.committed = committed.clone();
                        }
                        if cfg.check_blocks {
                            let (bl, stray) = blocks(&log);
                            if stray > 0 {
                                obs.fail("C02", "rule-evaluated-outside-sink-transaction", json!({"ctx": ctx, "stray": stray}));
                            }
                            if bl.len() != expects.len() {
                                obs.fail("C02", "number-of-evaluation-blocks-differs", json!({"ctx": ctx, "got": bl.len(), "want": expects.len()}));
                            } else {
                                for (e, b) in expects.iter().zip(&bl) {
                                    check_block(model, e, b, &ctx, obs);
                                }
                            }
                        }
                    }
                    Err(ClientError::ParallelFinalize) if expect_pf => {
                        obs.count("parallel_finalize_detected", 1);
                        obs.count("parallel_finalize_on_merge_command", 1);
                        out.parallel_finalize = true;
                        drop(trx);
                        if rep.exists() {
                            // the graph (its init segment) is committed as soon as it is created
                            committed.set(0);
                        }
                        // C05: committed state unchanged.
                        check_committed(rep, model, &committed, &json!({"ctx": ctx, "after": "parallel finalize error in add_commands"}), true, obs);
                        out.committed = committed;
                        return out;
                    }
                    Err(e) => {
                        let prop = if matches!(e, ClientError::ParallelFinalize) { "C05" } else { "C02" };
                        let sig = if matches!(e, ClientError::ParallelFinalize) {
                            "spurious-parallel-finalize-on-add".to_string()
                        } else {
                            format!("add_commands-failed-on-valid-history:{}", err_kind(&e))
                        };
                        obs.fail(prop, &sig, json!({"ctx": ctx, "err": e.to_string()}));
                        out.aborted = true;
                        return out;
                    }
                }
            }
            Step::Flush => {
                if rep.exists() {
                    if let Err(e) = rep.flush(&mut trx) {
                        obs.fail("C09", &format!("flush-failed:{}", err_kind(&e)), json!({"ctx": ctx, "err": e.to_string()}));
                        out.aborted = true;
                        return out;
                    }
                }
            }
            Step::Commit => {
                let heads = model.frontier(&in_trx);
                let expect_pf = heads.len() > 1 && model.braid(&heads).is_err();
                let t = std::mem::replace(&mut trx, rep.trx());
                let res = rep.commit(t);
                let log = rep.take_log();
                match res {
                    Ok(_) => {
                        if expect_pf {
                            obs.fail("C05", "parallel-finalize-not-detected-on-commit", json!({"ctx": ctx, "heads": ids(model, &heads)}));
                            out.aborted = true;
                            return out;
                        }
                        let changed = in_trx != committed;
                        committed = in_trx.clone();
                        out.committed = committed.clone();
                        if cfg.check_blocks && changed {
                            let (bl, _) = blocks(&log);
                            if heads.len() > 1 {
                                if bl.len() != 1 {
                                    obs.fail("C02", "commit-braid-block-count", json!({"ctx": ctx, "got": bl.len()}));
                                } else {
                                    check_block(model, &Expect::Braid(heads.clone()), &bl[0], &ctx, obs);
                                }
                            } else if !bl.is_empty() {
                                obs.fail("C02", "single-head-commit-evaluated-commands", json!({"ctx": ctx, "blocks": bl.len()}));
                            }
                        }
                        let full = cfg.check_every_commit || Some(si) == last_commit;
                        if committed.count() > 0 && (full || Some(si) == last_commit) {
                            check_committed(rep, model, &committed, &ctx, full, obs);
                        }
                    }
                    Err(ClientError::ParallelFinalize) if expect_pf => {
                        obs.count("parallel_finalize_detected", 1);
                        obs.count("parallel_finalize_on_commit", 1);
                        out.parallel_finalize = true;
                        check_committed(rep, model, &committed, &json!({"ctx": ctx, "after": "parallel finalize error in commit"}), true, obs);
                        out.committed = committed;
                        return out;
                    }
                    Err(e) => {
                        let prop = if matches!(e, ClientError::ParallelFinalize) { "C05" } else { "C09" };
                        let sig = if matches!(e, ClientError::ParallelFinalize) {
                            "spurious-parallel-finalize-on-commit".to_string()
                        } else {
                            format!("commit-failed-on-valid-history:{}", err_kind(&e))
                        };
                        obs.fail(prop, &sig, json!({"ctx": ctx, "err": e.to_string(), "heads": ids(model, &heads)}));
                        out.aborted = true;
                        return out;
                    }
                }
            }
        }
    }
    out
}

pub fn err_kind(e: &ClientError) -> String {
    let s = format!("{e:?}");
    s.split(|c: char| !c.is_alphanumeric()).next().unwrap_or("").to_string()
}

/// Add to the model every command found in a replica's graph that the model does not know yet
/// (merges written by a collapse, commands published by actions). Returns the new indexes.
pub fn adopt(model: &mut Model, walked: &BTreeMap<Id, Walked>) -> Result<Vec<usize>, String> {
    let mut new: Vec<(&Id, &Walked)> = walked.iter().filter(|(id, _)| model.idx(id).is_none()).collect();
    new.sort_by_key(|(id, w)| (w.max_cut, **id));
    let mut out = vec![];
    for (id, w) in new {
        let ps: Option<Vec<usize>> = w.parents.iter().map(|p| model.idx(&p.0)).collect();
        let ps = ps.ok_or_else(|| format!("command {} has a parent unknown to the model", short(id)))?;
        let (par, script) = match ps.as_slice() {
            [] => return Err(format!("unexpected second init {}", short(id))),
            [p] => (Par::Single(*p), Script::decode(&w.data).ok_or_else(|| format!("undecodable script in {}", short(id)))?),
            [l, r] => {
                let want = merge_id(&model.node(*l).id, &model.node(*r).id);
                if want != *id {
                    return Err(format!("merge {} does not carry the id derived from its parents", short(id)));
                }
                if w.prio != Prio::Merge {
                    return Err(format!("two-parent command {} is not of merge priority", short(id)));
                }
                (Par::Merge(*l, *r), Script { tag: u32::MAX, quiet: true, ops: vec![] })
            }
            _ => unreachable!(),
        };
        out.push(model.push(Node { id: *id, par, prio: w.prio, script, max_cut: 0 }));
        let v = *out.last().unwrap();
        if model.node(v).max_cut != w.max_cut {
            return Err(format!("command {} stored with max_cut {} but reference says {}", short(id), w.max_cut, model.node(v).max_cut));
        }
    }
    Ok(out)
}
