//! A replica = the real `ClientState` over real linear storage, driven through its public API,
//! plus observers (heads, fact dump, hello head, full graph walk).

use std::{
    collections::{BTreeMap, HashMap},
    rc::Rc,
};

use aranya_runtime::{
    linear::{self, IoManager, LinearStorageProvider, testing::Manager},
    Address, ClientError, ClientState, CmdId, Command, CommandExt, GraphId, Location, MaxCut, Prior,
    RuntimeBuffers, Segment, Storage, StorageError, StorageProvider, Transaction, TraversalBuffer,
};

use crate::{audit::*, dag::*, model::Facts};

pub type Trx<M> = Transaction<LinearStorageProvider<M>, AuditStore>;

pub struct Replica<M: IoManager> {
    pub client: ClientState<AuditStore, LinearStorageProvider<M>>,
    pub bufs: RuntimeBuffers<<LinearStorageProvider<M> as StorageProvider>::Segment>,
    pub tbuf: TraversalBuffer,
    pub log: Log,
    pub sink: RecordingSink,
    pub graph: GraphId,
    pub spill: Rc<SpillStats>,
}

pub type MemReplica = Replica<Manager>;
pub type FileReplica = Replica<linear::libc::FileManager>;

#[derive(Clone, Debug, PartialEq, Eq)]
pub struct Walked {
    pub parents: Vec<(Id, u64)>,
    pub prio: Prio,
    pub data: Vec<u8>,
    pub max_cut: u64,
    pub loc: (u64, u64),
}

pub fn graph_id(init: &Id) -> GraphId {
    GraphId::transmute(cmd_id(init))
}

impl MemReplica {
    pub fn new_mem(init: &Id) -> Self {
        Self::with_manager(Manager::new(), init)
    }
}

impl FileReplica {
    pub fn new_file(dir: &std::path::Path, init: &Id) -> Self {
        let m = linear::libc::FileManager::new(dir).expect("FileManager::new");
        Self::with_manager(m, init)
    }
}

impl<M: IoManager> Replica<M> {
    pub fn with_manager(m: M, init: &Id) -> Self {
        let log = new_log();
        Self {
            client: ClientState::new(AuditStore::new(log.clone()), LinearStorageProvider::new(m)),
            bufs: RuntimeBuffers::new(),
            tbuf: TraversalBuffer::new(),
            sink: RecordingSink { log: log.clone() },
            log,
            graph: graph_id(init),
            spill: Rc::new(SpillStats::default()),
        }
    }

    pub fn trx(&mut self) -> Trx<M> {
        self.client.transaction(self.graph)
    }

    pub fn add(&mut self, trx: &mut Trx<M>, cmds: &[WireCmd]) -> Result<usize, ClientError> {
        let st = self.spill.clone();
        self.client
            .add_commands::<CountingSpill, _>(trx, &mut self.sink, cmds, &mut self.bufs, move || CountingSpill::new(st.clone()))
    }

    pub fn commit(&mut self, trx: Trx<M>) -> Result<bool, ClientError> {
        let st = self.spill.clone();
        self.client
            .commit::<CountingSpill, _>(trx, &mut self.sink, &mut self.bufs, move || CountingSpill::new(st.clone()))
    }

    pub fn flush(&mut self, trx: &mut Trx<M>) -> Result<(), ClientError> {
        let storage = self.client.provider().get_storage(self.graph)?;
        trx.flush(storage)
    }

    pub fn action(&mut self, act: &ActionScript) -> Result<(), ClientError> {
        let st = self.spill.clone();
        self.client
            .action::<CountingSpill, _>(self.graph, &mut self.sink, act, &mut self.bufs, move || CountingSpill::new(st.clone()))
    }

    pub fn new_graph(&mut self, act: &ActionScript) -> Result<GraphId, ClientError> {
        self.client.new_graph(b"audit-policy", act, &mut self.sink)
    }

    pub fn exists(&mut self) -> bool {
        self.client.provider().get_storage(self.graph).is_ok()
    }

    pub fn storage(&mut self) -> Result<&mut <LinearStorageProvider<M> as StorageProvider>::Storage, StorageError> {
        self.client.provider().get_storage(self.graph)
    }

    /// Committed heads as (id, max_cut), in the order the storage reports them.
    pub fn heads(&mut self) -> Result<Vec<(Id, u64)>, StorageError> {
        let s = self.client.provider().get_storage(self.graph)?;
        Ok(s.get_heads()?.iter().map(|h| (*h.id.as_array(), h.max_cut.get())).collect())
    }

    pub fn head_locs(&mut self) -> Result<Vec<Location>, StorageError> {
        let s = self.client.provider().get_storage(self.graph)?;
        Ok(s.get_heads()?.iter().map(|h| h.location()).collect())
    }

    /// Every fact of the committed fact cache.
    pub fn facts(&mut self) -> Result<Facts, StorageError> {
        let s = self.client.provider().get_storage(self.graph)?;
        dump_query(&s.fact_cache()?)
    }

    pub fn hello(&mut self) -> Result<(Id, u64), ClientError> {
        let a = self.client.hello_head(self.graph)?;
        Ok((*a.id.as_array(), a.max_cut.get()))
    }

    pub fn should_sync(&mut self, head: (Id, u64)) -> Result<bool, ClientError> {
        self.client.should_sync_on_hello(self.graph, addr(&head.0, head.1), &mut self.tbuf)
    }

    pub fn locate(&mut self, id: &Id, max_cut: u64) -> Result<Option<Location>, StorageError> {
        let s = self.client.provider().get_storage(self.graph)?;
        s.get_location(Address { id: cmd_id(id), max_cut: MaxCut::new(max_cut) }, &mut self.tbuf)
    }

    pub fn take_log(&mut self) -> Vec<Event> {
        std::mem::take(&mut self.log.borrow_mut().events)
    }

    /// Walk the whole committed graph from the heads through segment priors.
    pub fn walk(&mut self) -> Result<BTreeMap<Id, Walked>, StorageError> {
        let s = self.client.provider().get_storage(self.graph)?;
        let mut out = BTreeMap::new();
        let mut reached: HashMap<u64, u64> = HashMap::new();
        let mut stack: Vec<Location> = s.get_heads()?.iter().map(|h| h.location()).collect();
        while let Some(loc) = stack.pop() {
            let seg = s.get_segment(loc)?;
            let idx = seg.index().get();
            let first = seg.shortest_max_cut().get();
            let from = match reached.get(&idx) {
                Some(&r) if r >= loc.max_cut.get() => continue,
                Some(&r) => r + 1,
                None => {
                    for p in seg.prior() {
                        stack.push(p);
                    }
                    first
                }
            };
            for mc in from..=loc.max_cut.get() {
                let l = Location::new(seg.index(), MaxCut::new(mc));
                let cmd = seg.get_command(l).ok_or(StorageError::CommandOutOfBounds(l))?;
                let parents = match cmd.parent() {
                    Prior::None => vec![],
                    Prior::Single(a) => vec![(*a.id.as_array(), a.max_cut.get())],
                    Prior::Merge(a, b) => vec![(*a.id.as_array(), a.max_cut.get()), (*b.id.as_array(), b.max_cut.get())],
                };
                let id: CmdId = cmd.id();
                out.insert(
                    *id.as_array(),
                    Walked {
                        parents,
                        prio: from_prio(&cmd.priority()),
                        data: cmd.bytes().to_vec(),
                        max_cut: cmd.max_cut().map_err(StorageError::Bug)?.get(),
                        loc: (idx, mc),
                    },
                );
            }
            reached.insert(idx, loc.max_cut.get());
        }
        Ok(out)
    }
}
