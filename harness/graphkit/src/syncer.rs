//! Drives real sync sessions between two replicas and checks every message (C16, C17).

use std::collections::BTreeSet;

use aranya_crypto::Rng as CryptoRng;
use aranya_runtime::{
    linear::IoManager, Address, ClientError, Command, CommandExt, PeerCache, Prior, SyncError, SyncIncoming,
    SyncRequester, SyncResponder, MAX_SYNC_MESSAGE_SIZE,
};
use vcore::{json, Value};

use crate::{audit::*, dag::*, driver::*, model::*, replica::*};

#[derive(Clone, Copy, Debug, PartialEq, Eq)]
pub enum SessionMode {
    /// Poll the responder until it ends the session (the DSL's loop).
    Full,
    /// One request, one response, then the requester goes away (the TCP syncer's exchange).
    OneResponse,
}

#[derive(Default, Debug, Clone)]
pub struct SessionOut {
    pub responses: u64,
    pub commands_received: u64,
    pub new_commands: u64,
    pub ended_with_sync_end: bool,
    pub buffer_retries: u64,
    pub sample_size: usize,
    pub aborted: bool,
    /// raw messages seen (request, responses) for the C18 corpus
    pub messages: Vec<Vec<u8>>,
    pub received_ids: Vec<Id>,
    /// the addresses the requester sampled into its poll (decoded from the message)
    pub sample: Vec<Address>,
}

/// Mirrors of the crate-private wire enums, only to read the requester's sample back out of
/// a poll message (postcard: variant indexes + fields in declaration order).
#[derive(serde::Deserialize)]
enum PollMirror {
    Poll { request: RequestMirror },
}

#[derive(serde::Deserialize)]
enum RequestMirror {
    SyncRequest {
        #[allow(dead_code)]
        session_id: u128,
        #[allow(dead_code)]
        graph_id: aranya_runtime::GraphId,
        #[allow(dead_code)]
        max_bytes: u64,
        commands: Vec<Address>,
    },
}

/// The command sample of a poll message, if it decodes.
pub fn poll_sample(msg: &[u8]) -> Option<Vec<Address>> {
    match postcard::from_bytes::<PollMirror>(msg).ok()? {
        PollMirror::Poll { request: RequestMirror::SyncRequest { commands, .. } } => Some(commands),
    }
}

fn varint(b: &[u8], pos: &mut usize) -> Option<u128> {
    let mut out: u128 = 0;
    let mut shift = 0;
    loop {
        let x = *b.get(*pos)?;
        *pos += 1;
        if shift >= 128 {
            return None;
        }
        out |= ((x & 0x7f) as u128) << shift;
        if x & 0x80 == 0 {
            return Some(out);
        }
        shift += 7;
    }
}

/// (variant, session id, index) of a response message: variant 0 = SyncResponse{response_index},
/// 1 = SyncEnd{max_index}.
pub fn response_header(b: &[u8]) -> Option<(u64, u128, u64)> {
    let mut p = 0;
    let v = varint(b, &mut p)? as u64;
    let sid = varint(b, &mut p)?;
    let idx = if v <= 1 { varint(b, &mut p)? as u64 } else { 0 };
    Some((v, sid, idx))
}

#[allow(clippy::too_many_arguments)]
pub fn sync_session<M: IoManager>(
    req: &mut Replica<M>,
    resp: &mut Replica<M>,
    req_cache: &mut PeerCache,
    resp_cache: &mut PeerCache,
    model: &mut Model,
    resp_set: &Bits,
    req_set: &mut Bits,
    mode: SessionMode,
    buf_size: usize,
    obs: &mut Obs,
    ctx: &Value,
) -> SessionOut {
    let mut out = SessionOut::default();
    let graph = req.graph;
    let mut requester = SyncRequester::new(graph, CryptoRng);
    let mut trx = req.trx();
    let mut buf = vec![0u8; MAX_SYNC_MESSAGE_SIZE];
    let (len, sample) = {
        let heads = trx.session_heads(req_cache);
        match requester.poll(&mut buf, req.client.provider(), &heads, &mut req.tbuf) {
            Ok(x) => x,
            Err(e) => {
                obs.fail("C17", "requester-poll-failed", json!({"ctx": ctx, "err": e.to_string()}));
                out.aborted = true;
                return out;
            }
        }
    };
    out.sample_size = sample;
    match poll_sample(&buf[..len]) {
        Some(s) if s.len() == sample => out.sample = s,
        _ => obs.count("harness_poll_sample_not_decoded", 1),
    }
    obs.max("max_sample_size", sample as u64);
    out.messages.push(buf[..len].to_vec());
    let mut responder = SyncResponder::new();
    match SyncIncoming::decode(&buf[..len]) {
        Ok(SyncIncoming::Poll(p)) => {
            if std::env::var("RT_SYNC_DEBUG").is_ok() {
                eprintln!("[dbg] poll sample {}", sample);
            }
            if let Err(e) = responder.receive(p) {
                obs.fail("C17", "responder-refused-valid-poll", json!({"ctx": ctx, "err": e.to_string()}));
                out.aborted = true;
                return out;
            }
        }
        Ok(_) => {
            obs.fail("C17", "poll-decoded-as-other-message", json!({"ctx": ctx}));
            out.aborted = true;
            return out;
        }
        Err(e) => {
            obs.fail("C17", "valid-poll-does-not-decode", json!({"ctx": ctx, "err": e.to_string()}));
            out.aborted = true;
            return out;
        }
    }
    let bound = resp_set.count() as u64 + 2; // logical bound on responses, not a clock
    let mut target = vec![0u8; MAX_SYNC_MESSAGE_SIZE];
    let mut cur_buf = buf_size.clamp(64, MAX_SYNC_MESSAGE_SIZE);
    let mut expected_index = 0u64;
    let mut in_session: BTreeSet<Id> = BTreeSet::new();
    let mut received_addrs: Vec<Address> = vec![];
    let mut polls = 0u64;
    while responder.ready() {
        polls += 1;
        if polls > bound + 64 {
            obs.fail("C17", "session-does-not-terminate-within-logical-bound", json!({"ctx": ctx, "polls": polls, "bound": bound}));
            out.aborted = true;
            break;
        }
        let n = match responder.poll(&mut target[..cur_buf], resp.client.provider(), resp_cache, &mut resp.bufs.traversal) {
            Ok(n) => n,
            Err(SyncError::BufferTooSmall) | Err(SyncError::Serialize(_)) if cur_buf < MAX_SYNC_MESSAGE_SIZE => {
                // retry with a larger buffer: nothing may be lost
                out.buffer_retries += 1;
                cur_buf = (cur_buf * 2).min(MAX_SYNC_MESSAGE_SIZE);
                continue;
            }
            Err(e) => {
                obs.fail("C17", "responder-poll-failed", json!({"ctx": ctx, "err": e.to_string(), "buf": cur_buf}));
                out.aborted = true;
                break;
            }
        };
        let msg = target[..n].to_vec();
        out.messages.push(msg.clone());
        let hdr = response_header(&msg);
        match requester.receive(&msg) {
            Ok(Some(cmds)) => {
                out.responses += 1;
                match hdr {
                    Some((0, _, idx)) => {
                        if idx != expected_index {
                            obs.fail("C17", "response-index-does-not-increase-by-one", json!({"ctx": ctx, "got": idx, "want": expected_index}));
                        }
                        expected_index += 1;
                    }
                    other => obs.fail("C17", "commands-delivered-by-non-response-message", json!({"ctx": ctx, "hdr": format!("{other:?}")})),
                }
                if cmds.is_empty() {
                    obs.fail("C17", "empty-sync-response", json!({"ctx": ctx}));
                }
                if cmds.len() > aranya_runtime::COMMAND_RESPONSE_MAX {
                    obs.fail("C17", "response-exceeds-command-limit", json!({"ctx": ctx, "n": cmds.len()}));
                }
                if std::env::var("RT_SYNC_DEBUG").is_ok() {
                    let v: Vec<String> = cmds.iter().map(|c| { let id = *c.id().as_array(); match model.idx(&id) { Some(v) => format!("{v}{}", if req_set.get(v) { "" } else { "*" }), None => "?".into() } }).collect();
                    eprintln!("[dbg] response {} ({} bytes buf {cur_buf}): {}", out.responses, n, v.join(" "));
                }
                // soundness: every command is committed at the responder, with identical content
                for c in cmds.iter() {
                    let id = *c.id().as_array();
                    out.commands_received += 1;
                    match model.idx(&id) {
                        Some(v) if resp_set.get(v) => {
                            let w = wire(&model.dag, v);
                            if w.prio != c.priority() || w.parent != c.parent() || w.data != c.bytes() || w.policy.as_deref() != c.policy() {
                                obs.fail("C17", "synced-command-differs-from-committed-command", json!({"ctx": ctx, "node": v}));
                            }
                            // parents first within the session (or already at the requester)
                            for p in model.node(v).par.iter() {
                                let pid = model.node(p).id;
                                if !req_set.get(p) && !in_session.contains(&pid) {
                                    obs.fail("C17", "command-sent-before-its-parent", json!({"ctx": ctx, "node": v, "parent": p}));
                                }
                            }
                            in_session.insert(id);
                            out.received_ids.push(id);
                        }
                        _ => obs.fail("C17", "responder-sent-command-not-in-its-committed-graph", json!({"ctx": ctx, "id": short(&id)})),
                    }
                    if let Ok(a) = c.address() {
                        received_addrs.push(a);
                    }
                }
                let st = req.spill.clone();
                match req.client.add_commands::<CountingSpill, _>(&mut trx, &mut req.sink, &cmds, &mut req.bufs, move || CountingSpill::new(st.clone())) {
                    Ok(nw) => out.new_commands += nw as u64,
                    Err(e) => {
                        let sig = match &e {
                            ClientError::NoSuchParent(_) => "requester-cannot-add-synced-commands:NoSuchParent".to_string(),
                            other => format!("requester-cannot-add-synced-commands:{}", err_kind(other)),
                        };
                        obs.fail("C17", &sig, json!({"ctx": ctx, "err": e.to_string()}));
                        out.aborted = true;
                        break;
                    }
                }
                if let Err(e) = req.flush(&mut trx) {
                    obs.fail("C17", "flush-between-responses-failed", json!({"ctx": ctx, "err": e.to_string()}));
                    out.aborted = true;
                    break;
                }
                if mode == SessionMode::OneResponse {
                    break;
                }
            }
            Ok(None) => {
                match hdr {
                    Some((1, _, max_index)) => {
                        out.ended_with_sync_end = true;
                        if max_index != expected_index {
                            obs.fail("C17", "sync-end-max-index-differs-from-responses-sent", json!({"ctx": ctx, "max_index": max_index, "responses": expected_index}));
                        }
                    }
                    other => obs.fail("C17", "session-ended-by-unexpected-message", json!({"ctx": ctx, "hdr": format!("{other:?}")})),
                }
                break;
            }
            Err(e) => {
                obs.fail("C17", "requester-refused-response-of-its-own-session", json!({"ctx": ctx, "err": e.to_string(), "hdr": format!("{hdr:?}")}));
                out.aborted = true;
                break;
            }
        }
    }
    if mode == SessionMode::Full && !out.aborted && !out.ended_with_sync_end {
        obs.fail("C17", "session-ended-without-end-message", json!({"ctx": ctx, "responses": out.responses}));
    }
    req.take_log();
    match req.commit(trx) {
        Ok(_) => {
            for id in &in_session {
                if let Some(v) = model.idx(id) {
                    req_set.set(v);
                }
            }
            // what the requester now knows the responder has
            let _ = req.client.update_heads(graph, received_addrs, req_cache, &mut req.tbuf);
        }
        Err(e) => {
            obs.fail("C17", &format!("commit-after-sync-failed:{}", err_kind(&e)), json!({"ctx": ctx, "err": e.to_string()}));
            out.aborted = true;
        }
    }
    obs.count("sessions", 1);
    obs.count("responses", out.responses);
    obs.count("commands_synced", out.commands_received);
    obs.count("buffer_too_small_retries", out.buffer_retries);
    obs.max("max_responses_in_session", out.responses);
    let _ = Prior::<u8>::None;
    out
}
