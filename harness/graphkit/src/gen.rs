//! Generators: command DAGs (built together with the model so `Require`s hold at origin)
//! and delivery histories (linear extensions cut into batches, flushes and commits).

use serde::{Deserialize, Serialize};
use vcore::Rng;

use crate::{dag::*, model::*};

#[derive(Clone, Copy, Debug, PartialEq, Eq, Serialize, Deserialize)]
pub enum Shape {
    /// Random growth: extend tips, branch from history, merge incomparable pairs.
    Random,
    /// One long chain with a few branch points at chosen depths.
    ChainWithBranches,
    /// `width` siblings under one parent (optionally pairwise merged afterwards).
    Fan,
    /// Two long branches with rungs of merges between them.
    Ladder,
    /// Nested diamonds: each merge's result forks again.
    Diamonds,
    /// Merges whose common ancestor lies far below the heads.
    DeepLca,
}

#[derive(Clone, Debug, Serialize, Deserialize)]
pub struct GenCfg {
    pub n: usize,
    pub shape: Shape,
    pub id_style: IdStyle,
    /// Number of distinct Basic priorities (1 = every tie broken by id).
    pub prios: u32,
    pub p_finalize: u64, // per mille
    /// Only place finalize commands where they are causally ordered.
    pub finalize_safe: bool,
    pub p_require: u64, // per mille
    pub p_quiet: u64,   // per mille
    pub p_del: u64,     // per mille of ops
    pub max_ops: usize,
    pub width: usize,
}

impl GenCfg {
    pub fn small(rng: &mut Rng) -> Self {
        let shape = *rng.pick(&[Shape::Random, Shape::Random, Shape::Random, Shape::Ladder, Shape::Diamonds, Shape::DeepLca, Shape::Fan, Shape::ChainWithBranches]);
        GenCfg {
            n: rng.urange(6, 70),
            shape,
            id_style: *rng.pick(&[IdStyle::Random, IdStyle::Ascending, IdStyle::Descending, IdStyle::LastByte, IdStyle::FirstByteClusters]),
            prios: *rng.pick(&[1, 1, 2, 3, 5]),
            p_finalize: *rng.pick(&[0, 0, 30, 80]),
            finalize_safe: true,
            p_require: *rng.pick(&[0, 100, 300]),
            p_quiet: *rng.pick(&[0, 100, 500]),
            p_del: 250,
            max_ops: 3,
            width: rng.urange(2, 12),
        }
    }
}

const COMPONENTS: [&[u8]; 5] = [b"", b"a", b"ab", b"b", b"\x00"];

pub fn gen_key(rng: &mut Rng) -> Key {
    let n = rng.weighted(&[1, 4, 3, 2]);
    (0..n).map(|_| rng.pick(&COMPONENTS).to_vec()).collect()
}

pub struct DagGen<'a> {
    pub cfg: GenCfg,
    pub model: Model,
    pub rng: &'a mut Rng,
    next_tag: u32,
}

impl<'a> DagGen<'a> {
    pub fn new(cfg: GenCfg, rng: &'a mut Rng) -> Self {
        let mut g = DagGen { cfg, model: Model::new(), rng, next_tag: 1 };
        let id = fresh_id(g.cfg.id_style, 0, g.rng);
        let script = g.gen_script(None);
        g.model.push(Node { id, par: Par::None, prio: Prio::Init, script, max_cut: 0 });
        g
    }

    fn gen_script(&mut self, parent: Option<usize>) -> Script {
        let tag = self.next_tag;
        self.next_tag += 1;
        let mut ops = vec![];
        if let Some(p) = parent {
            if self.rng.chance(self.cfg.p_require, 1000) {
                let n = self.rng.below(NAMES.len() as u64) as u8;
                let k = gen_key(self.rng);
                let cur = self.model.state(p).get(&(NAMES[n as usize].to_string(), k.clone())).cloned();
                ops.push(Op::Require { n, k, v: cur });
            }
        }
        let nops = self.rng.urange(0, self.cfg.max_ops);
        for j in 0..nops {
            let n = self.rng.below(NAMES.len() as u64) as u8;
            let k = gen_key(self.rng);
            if self.rng.chance(self.cfg.p_del, 1000) {
                ops.push(Op::Del { n, k });
            } else {
                let mut v = tag.to_le_bytes().to_vec();
                v.push(j as u8);
                ops.push(Op::Put { n, k, v });
            }
        }
        Script { tag, quiet: self.rng.chance(self.cfg.p_quiet, 1000), ops }
    }

    fn prio_for(&mut self, parent: usize) -> Prio {
        if self.rng.chance(self.cfg.p_finalize, 1000) {
            let ok = !self.cfg.finalize_safe || {
                let anc = self.model.ancestors(parent).clone();
                (0..self.model.len()).all(|v| self.model.node(v).prio != Prio::Finalize || anc.get(v))
            };
            if ok {
                return Prio::Finalize;
            }
        }
        Prio::Basic(self.rng.below(self.cfg.prios as u64) as u32)
    }

    /// Add a basic/finalize child of `parent`.
    pub fn child(&mut self, parent: usize) -> usize {
        let id = fresh_id(self.cfg.id_style, self.model.len(), self.rng);
        let prio = self.prio_for(parent);
        let script = self.gen_script(Some(parent));
        self.model.push(Node { id, par: Par::Single(parent), prio, script, max_cut: 0 })
    }

    pub fn child_with(&mut self, parent: usize, prio: Prio) -> usize {
        let id = fresh_id(self.cfg.id_style, self.model.len(), self.rng);
        let script = self.gen_script(Some(parent));
        self.model.push(Node { id, par: Par::Single(parent), prio, script, max_cut: 0 })
    }

    /// Add the merge of two incomparable nodes; None if comparable, already present,
    /// or if it would braid two parallel finalize commands.
    pub fn merge(&mut self, a: usize, b: usize) -> Option<usize> {
        if a == b || self.model.anc_eq(a, b) || self.model.anc_eq(b, a) {
            return None;
        }
        let id = merge_id(&self.model.node(a).id, &self.model.node(b).id);
        if self.model.idx(&id).is_some() {
            return None;
        }
        if self.model.braid(&[a, b]).is_err() {
            return None;
        }
        let (l, r) = if self.model.node(a).id <= self.model.node(b).id { (a, b) } else { (b, a) };
        Some(self.model.push(Node {
            id,
            par: Par::Merge(l, r),
            prio: Prio::Merge,
            script: Script { tag: u32::MAX, quiet: true, ops: vec![] },
            max_cut: 0,
        }))
    }

    pub fn tips(&self) -> Vec<usize> {
        (0..self.model.len()).filter(|&v| self.model.children(v).is_empty()).collect()
    }

    pub fn chain(&mut self, mut from: usize, len: usize) -> usize {
        for _ in 0..len {
            from = self.child(from);
        }
        from
    }

    /// Return the model built so far by explicit `child`/`merge`/`chain` calls.
    pub fn build_as_is(self) -> Model {
        self.model
    }

    pub fn build(mut self) -> Model {
        self.fill();
        self.model
    }

    /// A merge command one of whose parents is an ancestor of the other (what a buggy or
    /// hostile peer can send; `add_commands` accepts it), in either parent order, followed by a
    /// short chain, plus a concurrent chain from the ancestor parent so that later braids have
    /// that ancestor as their last common ancestor. Returns false if nothing was added.
    pub fn degenerate_merge_gadget(&mut self) -> bool {
        let n = self.model.len();
        let b = self.rng.usize(n);
        let anc: Vec<usize> = self.model.ancestors(b).iter().filter(|&v| v != b).collect();
        if anc.is_empty() {
            return false;
        }
        let a = *self.rng.pick(&anc);
        let id = merge_id(&self.model.node(a).id, &self.model.node(b).id);
        if self.model.idx(&id).is_some() {
            return false;
        }
        let (l, r) = if self.rng.bool() { (a, b) } else { (b, a) };
        let m = self.model.push(Node { id, par: Par::Merge(l, r), prio: Prio::Merge, script: Script { tag: u32::MAX, quiet: true, ops: vec![] }, max_cut: 0 });
        let k = self.rng.urange(0, 2);
        self.chain(m, k);
        let k = self.rng.urange(1, 3);
        self.chain(a, k);
        true
    }

    /// Grow the DAG to `cfg.n` commands in the configured shape.
    pub fn fill(&mut self) {
        let n = self.cfg.n;
        match self.cfg.shape {
            Shape::Random => {
                while self.model.len() < n {
                    let tips = self.tips();
                    match self.rng.weighted(&[50, 18, 22, 10]) {
                        0 => {
                            let p = *self.rng.pick(&tips);
                            self.child(p);
                        }
                        1 => {
                            let p = self.rng.usize(self.model.len());
                            self.child(p);
                        }
                        2 if tips.len() >= 2 => {
                            let a = *self.rng.pick(&tips);
                            let b = *self.rng.pick(&tips);
                            if self.merge(a, b).is_none() {
                                self.child(a);
                            }
                        }
                        _ => {
                            let a = self.rng.usize(self.model.len());
                            let b = self.rng.usize(self.model.len());
                            if self.merge(a, b).is_none() {
                                let p = *self.rng.pick(&tips);
                                self.child(p);
                            }
                        }
                    }
                }
            }
            Shape::ChainWithBranches => {
                let trunk = (n * 2 / 3).max(2);
                let mut nodes = vec![0];
                for _ in 0..trunk {
                    let p = *nodes.last().unwrap();
                    nodes.push(self.child(p));
                }
                while self.model.len() < n {
                    // branch points biased to n/2, 3n/4, ... boundaries
                    let d = match self.rng.below(4) {
                        0 => trunk / 2,
                        1 => trunk * 3 / 4,
                        2 => trunk * 7 / 8,
                        _ => self.rng.usize(trunk),
                    };
                    let len = self.rng.urange(1, 6).min(n - self.model.len());
                    let p = nodes[d.min(nodes.len() - 1)];
                    self.chain(p, len);
                }
            }
            Shape::Fan => {
                let l0 = self.rng.urange(0, 3);
                let root = self.chain(0, l0);
                let w = self.cfg.width.max(2);
                let mut sibs = vec![];
                for _ in 0..w {
                    if self.model.len() >= n {
                        break;
                    }
                    let c = self.child(root);
                    let l = self.rng.urange(0, 2);
                    sibs.push(self.chain(c, l));
                }
                // optionally merge some pairs, leaving a wide head set
                let merges = self.rng.usize(sibs.len().max(1));
                for _ in 0..merges {
                    if self.model.len() >= n {
                        break;
                    }
                    let tips = self.tips();
                    let a = *self.rng.pick(&tips);
                    let b = *self.rng.pick(&tips);
                    self.merge(a, b);
                }
            }
            Shape::Ladder => {
                let mut l = self.child(0);
                let mut r = self.child(0);
                while self.model.len() + 3 < n {
                    let a = self.rng.urange(1, 4);
                    l = self.chain(l, a);
                    let b = self.rng.urange(1, 4);
                    r = self.chain(r, b);
                    if let Some(m) = self.merge(l, r) {
                        // continue both sides from the merge or one from each
                        if self.rng.bool() {
                            l = self.child(m);
                            r = self.child(m);
                        } else {
                            l = self.child(m);
                        }
                    }
                }
            }
            Shape::Diamonds => {
                let mut top = 0;
                while self.model.len() + 4 < n {
                    let a0 = self.child(top);
                    let la = self.rng.urange(0, 3);
                    let a = self.chain(a0, la);
                    let b0 = self.child(top);
                    let lb = self.rng.urange(0, 3);
                    let b = self.chain(b0, lb);
                    // inner diamond on one side
                    let a = if self.rng.bool() && self.model.len() + 4 < n {
                        let x = self.child(a);
                        let y = self.child(a);
                        self.merge(x, y).unwrap_or(x)
                    } else {
                        a
                    };
                    top = self.merge(a, b).unwrap_or(a);
                }
            }
            Shape::DeepLca => {
                let l0 = self.rng.urange(1, 4);
                let base = self.chain(0, l0);
                let depth = (n / 3).max(2);
                let l = self.chain(base, depth);
                let r = self.chain(base, depth);
                let m = self.merge(l, r);
                // a third branch from deep below, merged later
                let side_from = self.rng.usize(self.model.len().min(depth));
                let l1 = self.rng.urange(1, 5);
                let s = self.chain(side_from, l1);
                if let Some(m) = m {
                    let m2 = self.child(m);
                    self.merge(m2, s);
                }
                while self.model.len() < n {
                    let tips = self.tips();
                    let p = *self.rng.pick(&tips);
                    self.child(p);
                }
            }
        }
    }
}

#[derive(Clone, Debug, PartialEq, Eq, Serialize, Deserialize)]
pub enum Step {
    /// One `add_commands` call with these DAG nodes.
    Add(Vec<usize>),
    Flush,
    /// Commit the open transaction and open a new one.
    Commit,
}

#[derive(Clone, Copy, Debug, PartialEq, Eq, Serialize, Deserialize)]
pub enum Order {
    Creation,
    RandomTopo,
    DepthFirst,
    HighPriorityFirst,
    LowIdFirst,
}

/// A linear extension of `nodes` (a downward-closed subset given as a membership test).
pub fn linear_extension(model: &Model, include: &dyn Fn(usize) -> bool, order: Order, rng: &mut Rng) -> Vec<usize> {
    let n = model.len();
    let mut remaining: Vec<usize> = vec![0; n];
    let mut ready: Vec<usize> = vec![];
    for v in 0..n {
        if !include(v) {
            continue;
        }
        remaining[v] = model.node(v).par.iter().count();
        if remaining[v] == 0 {
            ready.push(v);
        }
    }
    let mut out = vec![];
    let mut last: Option<usize> = None;
    while !ready.is_empty() {
        let i = match order {
            Order::Creation => (0..ready.len()).min_by_key(|&i| ready[i]).unwrap(),
            Order::RandomTopo => rng.usize(ready.len()),
            Order::DepthFirst => {
                // prefer a child of the last emitted node
                let pref = last.and_then(|l| (0..ready.len()).find(|&i| model.node(ready[i]).par.iter().any(|p| p == l)));
                pref.unwrap_or_else(|| rng.usize(ready.len()))
            }
            Order::HighPriorityFirst => (0..ready.len()).max_by_key(|&i| (model.node(ready[i]).prio, model.node(ready[i]).id)).unwrap(),
            Order::LowIdFirst => (0..ready.len()).min_by_key(|&i| model.node(ready[i]).id).unwrap(),
        };
        let v = ready.swap_remove(i);
        out.push(v);
        last = Some(v);
        for &c in model.children(v) {
            if include(c) {
                remaining[c] -= 1;
                if remaining[c] == 0 {
                    ready.push(c);
                }
            }
        }
    }
    out
}

#[derive(Clone, Debug, Serialize, Deserialize)]
pub struct HistCfg {
    pub order: Order,
    pub max_batch: usize,
    pub p_flush: u64,  // per mille after a batch
    pub p_commit: u64, // per mille after a batch
    pub p_dup: u64,    // per mille: re-deliver an already delivered command in a batch
}

impl HistCfg {
    pub fn random(rng: &mut Rng) -> Self {
        HistCfg {
            order: *rng.pick(&[Order::Creation, Order::RandomTopo, Order::RandomTopo, Order::DepthFirst, Order::HighPriorityFirst, Order::LowIdFirst]),
            max_batch: *rng.pick(&[1, 2, 5, 20, 1000]),
            p_flush: *rng.pick(&[0, 100, 500]),
            p_commit: *rng.pick(&[0, 50, 200, 1000]),
            p_dup: if std::env::var("VERIF_NO_DUP").is_ok() { 0 } else { *rng.pick(&[0, 0, 100]) },
        }
    }
}

pub fn history(model: &Model, include: &dyn Fn(usize) -> bool, cfg: &HistCfg, rng: &mut Rng) -> Vec<Step> {
    let ext = linear_extension(model, include, cfg.order, rng);
    let mut steps = vec![];
    let mut i = 0;
    while i < ext.len() {
        let b = rng.urange(1, cfg.max_batch.max(1)).min(ext.len() - i);
        let mut batch: Vec<usize> = ext[i..i + b].to_vec();
        if i > 0 && rng.chance(cfg.p_dup, 1000) {
            let d = ext[rng.usize(i)];
            let at = rng.usize(batch.len() + 1);
            batch.insert(at, d);
        }
        i += b;
        steps.push(Step::Add(batch));
        if rng.chance(cfg.p_flush, 1000) {
            steps.push(Step::Flush);
        }
        if i < ext.len() && rng.chance(cfg.p_commit, 1000) {
            steps.push(Step::Commit);
        }
    }
    steps.push(Step::Commit);
    steps
}
