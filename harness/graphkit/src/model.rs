//! Storage-independent reference model: ancestry, frontier, braid order and fact states.
//!
//! This is the executable oracle for recorded executions. It knows nothing about
//! segments, skip lists, fact-index chains, spill buffers or heaps.

use std::{
    collections::{BTreeMap, BTreeSet, HashMap},
    rc::Rc,
};

use crate::dag::*;

pub type Facts = BTreeMap<(String, Key), Vec<u8>>;

pub trait FactOps {
    fn get(&self, name: &str, key: &Key) -> Option<Vec<u8>>;
    fn put(&mut self, name: &str, key: Key, v: Vec<u8>);
    fn del(&mut self, name: &str, key: Key);
}

impl FactOps for Facts {
    fn get(&self, name: &str, key: &Key) -> Option<Vec<u8>> {
        BTreeMap::get(self, &(name.to_string(), key.clone())).cloned()
    }
    fn put(&mut self, name: &str, key: Key, v: Vec<u8>) {
        self.insert((name.to_string(), key), v);
    }
    fn del(&mut self, name: &str, key: Key) {
        self.remove(&(name.to_string(), key));
    }
}

#[derive(Clone, Copy, Debug, PartialEq, Eq)]
pub enum Rejected {
    /// A `Require` did not hold; nothing was written.
    Require,
    /// An explicit `Fail` op; earlier writes of this script were made.
    Fail,
}

/// The one definition of what a script does to a fact state. Used by the audit policy on the
/// runtime's perspectives and by the model on plain maps.
pub fn run_script(s: &Script, f: &mut impl FactOps) -> Result<(), Rejected> {
    for op in &s.ops {
        if let Op::Require { n, k, v } = op {
            if f.get(NAMES[*n as usize % NAMES.len()], k) != *v {
                return Err(Rejected::Require);
            }
        }
    }
    for op in &s.ops {
        match op {
            Op::Put { n, k, v } => f.put(NAMES[*n as usize % NAMES.len()], k.clone(), v.clone()),
            Op::Del { n, k } => f.del(NAMES[*n as usize % NAMES.len()], k.clone()),
            Op::Require { .. } => {}
            Op::Fail => return Err(Rejected::Fail),
        }
    }
    if !s.quiet {
        let mut seq = f.get(SEQ, &vec![]).unwrap_or_default();
        seq.extend_from_slice(&s.tag.to_le_bytes());
        f.put(SEQ, vec![], seq);
    }
    Ok(())
}

pub fn seq_of(f: &Facts) -> Vec<u32> {
    f.get(&(SEQ.to_string(), vec![]))
        .map(|b| b.chunks(4).map(|c| u32::from_le_bytes(c.try_into().unwrap())).collect())
        .unwrap_or_default()
}

#[derive(Clone, Debug, PartialEq, Eq)]
pub struct Bits(pub Vec<u64>);

impl Bits {
    pub fn new(n: usize) -> Self {
        Bits(vec![0; n.div_ceil(64)])
    }
    pub fn set(&mut self, i: usize) {
        if i / 64 >= self.0.len() {
            self.0.resize(i / 64 + 1, 0);
        }
        self.0[i / 64] |= 1 << (i % 64);
    }
    pub fn get(&self, i: usize) -> bool {
        self.0.get(i / 64).is_some_and(|w| w >> (i % 64) & 1 == 1)
    }
    pub fn or(&mut self, o: &Bits) {
        if o.0.len() > self.0.len() {
            self.0.resize(o.0.len(), 0);
        }
        for (a, b) in self.0.iter_mut().zip(&o.0) {
            *a |= *b;
        }
    }
    pub fn count(&self) -> usize {
        self.0.iter().map(|w| w.count_ones() as usize).sum()
    }
    pub fn iter(&self) -> impl Iterator<Item = usize> + '_ {
        self.0.iter().enumerate().flat_map(|(wi, w)| {
            let w = *w;
            (0..64).filter(move |b| w >> b & 1 == 1).map(move |b| wi * 64 + b)
        })
    }
    pub fn is_subset(&self, o: &Bits) -> bool {
        self.0.iter().enumerate().all(|(i, w)| w & !o.0.get(i).copied().unwrap_or(0) == 0)
    }
}

#[derive(Clone, Debug)]
pub struct Braid {
    /// The point where a single strand remains; the braid starts from its stored state.
    pub base: usize,
    /// Order in which commands were taken off the strands (min (priority,id) first), merges included.
    pub pops: Vec<usize>,
    /// Application order: reverse pop order without merge commands.
    pub applied: Vec<usize>,
}

#[derive(Clone, Debug, PartialEq, Eq)]
pub enum BraidErr {
    ParallelFinalize(usize, usize),
}

#[derive(Default)]
pub struct Model {
    pub dag: Dag,
    /// anc[v] = ancestors of v including v.
    anc: Vec<Bits>,
    children: Vec<Vec<usize>>,
    by_id: HashMap<Id, usize>,
    memo: HashMap<usize, Rc<Facts>>,
}

impl Model {
    pub fn new() -> Self {
        Self::default()
    }

    pub fn len(&self) -> usize {
        self.dag.nodes.len()
    }

    pub fn node(&self, v: usize) -> &Node {
        &self.dag.nodes[v]
    }

    pub fn idx(&self, id: &Id) -> Option<usize> {
        self.by_id.get(id).copied()
    }

    pub fn children(&self, v: usize) -> &[usize] {
        &self.children[v]
    }

    /// Add a node (parents must exist). Returns its index. `max_cut` is recomputed.
    pub fn push(&mut self, mut node: Node) -> usize {
        let v = self.dag.nodes.len();
        let mut a = Bits::new(v + 1);
        node.max_cut = match node.par {
            Par::None => 0,
            Par::Single(p) => self.dag.nodes[p].max_cut + 1,
            Par::Merge(l, r) => self.dag.nodes[l].max_cut.max(self.dag.nodes[r].max_cut) + 1,
        };
        for p in node.par.iter() {
            assert!(p < v, "parents precede children");
            a.or(&self.anc[p]);
            self.children[p].push(v);
        }
        a.set(v);
        assert!(self.by_id.insert(node.id, v).is_none(), "duplicate id in model");
        self.anc.push(a);
        self.children.push(vec![]);
        self.dag.nodes.push(node);
        v
    }

    /// a is an ancestor of b or equal.
    pub fn anc_eq(&self, a: usize, b: usize) -> bool {
        self.anc[b].get(a)
    }

    pub fn ancestors(&self, v: usize) -> &Bits {
        &self.anc[v]
    }

    pub fn ancestors_of(&self, set: &[usize]) -> Bits {
        let mut b = Bits::new(self.len());
        for &v in set {
            b.or(&self.anc[v]);
        }
        b
    }

    /// Maximal elements of a downward-closed (or any) set.
    pub fn frontier(&self, set: &Bits) -> Vec<usize> {
        set.iter().filter(|&v| !self.children[v].iter().any(|&c| set.get(c))).collect()
    }

    /// Two finalize commands in `set`, neither an ancestor of the other.
    pub fn parallel_finalize(&self, set: &Bits) -> Option<(usize, usize)> {
        let fins: Vec<usize> = set.iter().filter(|&v| self.dag.nodes[v].prio == Prio::Finalize).collect();
        for (i, &a) in fins.iter().enumerate() {
            for &b in &fins[i + 1..] {
                if !self.anc_eq(a, b) && !self.anc_eq(b, a) {
                    return Some((a, b));
                }
            }
        }
        None
    }

    /// The reference braid of a head set (an antichain of >= 1 nodes).
    pub fn braid(&self, heads: &[usize]) -> Result<Braid, BraidErr> {
        if heads.len() == 1 {
            return Ok(Braid { base: heads[0], pops: vec![], applied: vec![] });
        }
        let region = self.ancestors_of(heads);
        let mut pending: HashMap<usize, usize> = HashMap::new();
        for v in region.iter() {
            pending.insert(v, self.children[v].iter().filter(|&&c| region.get(c)).count());
        }
        let key = |m: &Model, v: usize| (m.dag.nodes[v].prio, m.dag.nodes[v].id);
        let mut avail: BTreeSet<((Prio, Id), usize)> = BTreeSet::new();
        let mut fin_in_avail: Option<usize> = None;
        let add_avail = |avail: &mut BTreeSet<((Prio, Id), usize)>, fin: &mut Option<usize>, v: usize| {
            if self.dag.nodes[v].prio == Prio::Finalize {
                if let Some(o) = *fin {
                    return Err(BraidErr::ParallelFinalize(o, v));
                }
                *fin = Some(v);
            }
            avail.insert((key(self, v), v));
            Ok(())
        };
        for (&v, &p) in &pending {
            if p == 0 {
                add_avail(&mut avail, &mut fin_in_avail, v)?;
            }
        }
        let mut pops: Vec<usize> = vec![];
        loop {
            assert!(!avail.is_empty(), "braid frontier cannot be empty");
            if avail.len() == 1 {
                let base = avail.iter().next().unwrap().1;
                let applied = pops
                    .iter()
                    .rev()
                    .copied()
                    .filter(|&v| !matches!(self.dag.nodes[v].par, Par::Merge(..)))
                    .collect();
                return Ok(Braid { base, pops, applied });
            }
            let first = *avail.iter().next().unwrap();
            avail.remove(&first);
            let v = first.1;
            if fin_in_avail == Some(v) {
                fin_in_avail = None;
            }
            pops.push(v);
            for p in self.dag.nodes[v].par.iter() {
                let e = pending.get_mut(&p).unwrap();
                *e -= 1;
                if *e == 0 {
                    add_avail(&mut avail, &mut fin_in_avail, p)?;
                }
            }
        }
    }

    /// Fact state at command `v` as stored in the graph.
    pub fn state(&mut self, v: usize) -> Rc<Facts> {
        if let Some(s) = self.memo.get(&v) {
            return s.clone();
        }
        let mut chain = vec![];
        let mut cur = v;
        let mut facts: Facts = loop {
            if let Some(s) = self.memo.get(&cur) {
                break (**s).clone();
            }
            match self.dag.nodes[cur].par {
                Par::None => {
                    chain.push(cur);
                    break Facts::new();
                }
                Par::Single(p) => {
                    chain.push(cur);
                    cur = p;
                }
                Par::Merge(l, r) => {
                    let s = self.braid_state(&[l, r]).expect("stored merge has no parallel finalize");
                    self.memo.insert(cur, s.clone());
                    break (*s).clone();
                }
            }
        };
        let n = chain.len();
        for (i, &c) in chain.iter().rev().enumerate() {
            let script = self.dag.nodes[c].script.clone();
            run_script(&script, &mut facts)
                .unwrap_or_else(|e| panic!("model: node {c} rejected at origin ({e:?}); generator bug"));
            // memoize sparsely on long chains
            if (n - i) % 64 == 0 && i + 1 != n {
                self.memo.insert(c, Rc::new(facts.clone()));
            }
        }
        let rc = Rc::new(facts);
        self.memo.insert(v, rc.clone());
        rc
    }

    /// State obtained by braiding `heads`: state(base) then the braided commands in order,
    /// each with in-braid semantics (a failing Require is skipped).
    pub fn braid_state(&mut self, heads: &[usize]) -> Result<Rc<Facts>, BraidErr> {
        let b = self.braid(heads)?;
        Ok(self.apply_braid(&b))
    }

    pub fn apply_braid(&mut self, b: &Braid) -> Rc<Facts> {
        let base = self.state(b.base);
        if b.applied.is_empty() {
            return base;
        }
        let mut f = (*base).clone();
        for &c in &b.applied {
            let script = self.dag.nodes[c].script.clone();
            let _ = run_script(&script, &mut f);
        }
        Rc::new(f)
    }

    /// Committed fact state for a head set.
    pub fn committed_state(&mut self, heads: &[usize]) -> Result<Rc<Facts>, BraidErr> {
        if heads.len() == 1 {
            Ok(self.state(heads[0]))
        } else {
            self.braid_state(heads)
        }
    }
}
