//! Harness-defined policy, sink, spill and command types that plug into the runtime's public
//! traits and record everything the runtime asks of them.

use std::{cell::RefCell, rc::Rc};

use aranya_runtime::{
    ActionPlacement, Address, Bytes, CmdId, Command, CommandPlacement, FactPerspective, Keys, MaxCut,
    MemSpill, MergeIds, Perspective, Policy, PolicyError, PolicyId, PolicyStore, Prior, Priority, Sink,
    Spill, StorageError,
};
use serde::{Deserialize, Serialize};

use crate::{
    dag::*,
    model::{run_script, FactOps, Facts, Rejected},
};

pub fn cmd_id(id: &Id) -> CmdId {
    CmdId::from_bytes(*id)
}

pub fn to_prio(p: Prio) -> Priority {
    match p {
        Prio::Merge => Priority::Merge,
        Prio::Basic(n) => Priority::Basic(n),
        Prio::Finalize => Priority::Finalize,
        Prio::Init => Priority::Init,
    }
}

pub fn from_prio(p: &Priority) -> Prio {
    match p {
        Priority::Merge => Prio::Merge,
        Priority::Basic(n) => Prio::Basic(*n),
        Priority::Finalize => Prio::Finalize,
        Priority::Init => Prio::Init,
    }
}

/// Owned command as delivered to `add_commands`.
#[derive(Clone, Debug, PartialEq, Eq)]
pub struct WireCmd {
    pub id: CmdId,
    pub prio: Priority,
    pub parent: Prior<Address>,
    pub policy: Option<Vec<u8>>,
    pub data: Vec<u8>,
}

impl Command for WireCmd {
    fn priority(&self) -> Priority {
        self.prio.clone()
    }
    fn id(&self) -> CmdId {
        self.id
    }
    fn parent(&self) -> Prior<Address> {
        self.parent
    }
    fn policy(&self) -> Option<&[u8]> {
        self.policy.as_deref()
    }
    fn bytes(&self) -> &[u8] {
        &self.data
    }
}

pub fn addr(id: &Id, max_cut: u64) -> Address {
    Address { id: cmd_id(id), max_cut: MaxCut::new(max_cut) }
}

/// Build the wire form of DAG node `v`.
pub fn wire(dag: &Dag, v: usize) -> WireCmd {
    let n = &dag.nodes[v];
    let a = |p: usize| addr(&dag.nodes[p].id, dag.nodes[p].max_cut);
    WireCmd {
        id: cmd_id(&n.id),
        prio: to_prio(n.prio),
        parent: match n.par {
            Par::None => Prior::None,
            Par::Single(p) => Prior::Single(a(p)),
            Par::Merge(l, r) => {
                // merge parents are stored sorted by id, as MergeIds does
                let (l, r) = if dag.nodes[l].id <= dag.nodes[r].id { (l, r) } else { (r, l) };
                Prior::Merge(a(l), a(r))
            }
        },
        policy: matches!(n.par, Par::None).then(|| b"audit-policy".to_vec()),
        data: if matches!(n.par, Par::Merge(..)) { vec![] } else { n.script.encode() },
    }
}

#[derive(Clone, Copy, Debug, PartialEq, Eq, Hash, Serialize, Deserialize)]
pub enum Place {
    Origin,
    Braid,
    OffGraph,
}

impl From<CommandPlacement> for Place {
    fn from(p: CommandPlacement) -> Self {
        match p {
            CommandPlacement::OnGraphAtOrigin => Place::Origin,
            CommandPlacement::OnGraphInBraid => Place::Braid,
            CommandPlacement::OffGraph => Place::OffGraph,
        }
    }
}

#[derive(Clone, Debug, PartialEq, Eq)]
pub struct Effect {
    pub id: Id,
    pub tag: u32,
    pub place: Place,
}

#[derive(Clone, Debug, PartialEq, Eq)]
pub struct Published {
    pub id: Id,
    pub parent: Option<(Id, u64)>,
    pub prio: Prio,
    pub script: Script,
}

#[derive(Clone, Debug, PartialEq, Eq)]
pub enum Event {
    /// `call_rule` invocation and its outcome.
    Rule { id: Id, tag: u32, place: Place, merge_parent: bool, result: Result<(), Rejected> },
    SinkBegin,
    SinkConsume(Effect),
    SinkCommit,
    SinkRollback,
    /// Facts an action saw before doing anything.
    ActionDump(Facts),
    /// A command an action published and added to its perspective.
    Published(Published),
    /// `Policy::merge` was asked for a merge command.
    MergeMade { id: Id, left: Id, right: Id },
    /// Query results observed by a session script: (name, prefix) -> rows.
    Observed(Vec<(String, Key, Vec<(Key, Vec<u8>)>)>),
}

#[derive(Default, Debug)]
pub struct AuditLog {
    pub events: Vec<Event>,
}

pub type Log = Rc<RefCell<AuditLog>>;

pub fn new_log() -> Log {
    Rc::new(RefCell::new(AuditLog::default()))
}

/// FactOps over whatever perspective the runtime hands the policy.
struct OnPerspective<'a, P>(&'a mut P);

pub fn to_keys(k: &Key) -> Keys {
    k.iter().map(|c| Bytes::from(c.as_slice())).collect()
}

pub fn from_keys(k: &Keys) -> Key {
    k.iter().map(|b| b.to_vec()).collect()
}

impl<P: FactPerspective> FactOps for OnPerspective<'_, P> {
    fn get(&self, name: &str, key: &Key) -> Option<Vec<u8>> {
        let keys = to_keys(key);
        self.0.query(name, &keys).expect("policy fact query failed").map(|b| b.to_vec())
    }
    fn put(&mut self, name: &str, key: Key, v: Vec<u8>) {
        self.0.insert(name.to_string(), to_keys(&key), v.into_boxed_slice()).expect("policy fact insert failed");
    }
    fn del(&mut self, name: &str, key: Key) {
        self.0.delete(name.to_string(), to_keys(&key)).expect("policy fact delete failed");
    }
}

/// Read every fact a `Query` exposes under the names scripts use.
pub fn dump_query(q: &impl aranya_runtime::Query) -> Result<Facts, StorageError> {
    let mut out = Facts::new();
    for name in NAMES.iter().copied().chain([SEQ]) {
        for f in q.query_prefix(name, &[])? {
            let f = f?;
            out.insert((name.to_string(), from_keys(&f.key)), f.value.to_vec());
        }
    }
    Ok(out)
}

#[derive(Clone, Debug, Default, PartialEq, Eq)]
pub struct PubSpec {
    pub prio: Option<Prio>,
    pub script: Script,
}

/// What an action does. Scripts are data, so the same action can run on several replicas.
#[derive(Clone, Debug, Default, PartialEq, Eq)]
pub struct ActionScript {
    /// Record every fact visible before doing anything.
    pub dump: bool,
    /// Exact/prefix queries to record (sessions).
    pub observe: Vec<(u8, Key)>,
    /// Direct writes by the action itself (session actions).
    pub publish: Vec<PubSpec>,
    /// The action itself fails after this many commands were published.
    pub fail_after: Option<usize>,
    pub nonce: u64,
}

pub struct AuditPolicy {
    pub log: Log,
    pub serial: u32,
}

pub fn observe(q: &impl aranya_runtime::Query, what: &[(u8, Key)]) -> Vec<(String, Key, Vec<(Key, Vec<u8>)>)> {
    what.iter()
        .map(|(n, prefix)| {
            let name = if *n as usize == NAMES.len() { SEQ } else { NAMES[*n as usize % NAMES.len()] };
            let rows = q
                .query_prefix(name, &to_keys(prefix))
                .expect("query_prefix")
                .map(|f| {
                    let f = f.expect("fact");
                    (from_keys(&f.key), f.value.to_vec())
                })
                .collect();
            (name.to_string(), prefix.clone(), rows)
        })
        .collect()
}

impl Policy for AuditPolicy {
    type Action<'a> = &'a ActionScript;
    type Effect = Effect;
    type Command<'a> = WireCmd;

    fn serial(&self) -> u32 {
        self.serial
    }

    fn call_rule(
        &self,
        command: &impl Command,
        facts: &mut impl FactPerspective,
        sink: &mut impl Sink<Self::Effect>,
        placement: CommandPlacement,
    ) -> Result<(), PolicyError> {
        let id: Id = *command.id().as_array();
        let merge_parent = matches!(command.parent(), Prior::Merge(..));
        let script = if merge_parent {
            Script { tag: u32::MAX, quiet: true, ops: vec![] }
        } else {
            match Script::decode(command.bytes()) {
                Some(s) => s,
                None => {
                    self.log.borrow_mut().events.push(Event::Rule {
                        id,
                        tag: u32::MAX - 1,
                        place: placement.into(),
                        merge_parent,
                        result: Err(Rejected::Fail),
                    });
                    return Err(PolicyError::Read);
                }
            }
        };
        let result = run_script(&script, &mut OnPerspective(facts));
        self.log.borrow_mut().events.push(Event::Rule {
            id,
            tag: script.tag,
            place: placement.into(),
            merge_parent,
            result,
        });
        match result {
            Ok(()) => {
                sink.consume(Effect { id, tag: script.tag, place: placement.into() });
                Ok(())
            }
            Err(Rejected::Fail) => {
                // A rule that emitted an effect and wrote facts before failing.
                sink.consume(Effect { id, tag: script.tag, place: placement.into() });
                Err(PolicyError::Rejected)
            }
            Err(Rejected::Require) => Err(PolicyError::Rejected),
        }
    }

    fn call_action(
        &self,
        action: Self::Action<'_>,
        facts: &mut impl Perspective,
        sink: &mut impl Sink<Self::Effect>,
        placement: ActionPlacement,
    ) -> Result<(), PolicyError> {
        if action.dump {
            let d = dump_query(facts).map_err(|_| PolicyError::Read)?;
            self.log.borrow_mut().events.push(Event::ActionDump(d));
        }
        if !action.observe.is_empty() {
            let o = observe(facts, &action.observe);
            self.log.borrow_mut().events.push(Event::Observed(o));
        }
        let cmd_place = match placement {
            ActionPlacement::OnGraph => CommandPlacement::OnGraphAtOrigin,
            ActionPlacement::OffGraph => CommandPlacement::OffGraph,
        };
        for (i, spec) in action.publish.iter().enumerate() {
            if action.fail_after == Some(i) {
                return Err(PolicyError::Rejected);
            }
            let parent = facts.head_address()?;
            let (pid, prio, policy) = match parent {
                Prior::None => (None, Prio::Init, Some(b"audit-policy".to_vec())),
                Prior::Single(a) => (Some((*a.id.as_array(), a.max_cut.get())), spec.prio.unwrap_or(Prio::Basic(1)), None),
                Prior::Merge(..) => return Err(PolicyError::InternalError),
            };
            let id = published_id(pid.as_ref().map(|p| &p.0), action.nonce, i);
            let cmd = WireCmd {
                id: cmd_id(&id),
                prio: to_prio(prio),
                parent,
                policy,
                data: spec.script.encode(),
            };
            self.call_rule(&cmd, facts, sink, cmd_place)?;
            facts.add_command(&cmd).map_err(|_| PolicyError::Write)?;
            self.log.borrow_mut().events.push(Event::Published(Published {
                id,
                parent: pid,
                prio,
                script: spec.script.clone(),
            }));
        }
        if action.fail_after == Some(action.publish.len()) {
            return Err(PolicyError::Rejected);
        }
        Ok(())
    }

    fn merge<'a>(&self, _target: &'a mut [u8], ids: MergeIds) -> Result<Self::Command<'a>, PolicyError> {
        let (left, right): (Address, Address) = ids.into();
        let id = merge_id(left.id.as_array(), right.id.as_array());
        self.log.borrow_mut().events.push(Event::MergeMade {
            id,
            left: *left.id.as_array(),
            right: *right.id.as_array(),
        });
        Ok(WireCmd {
            id: cmd_id(&id),
            prio: Priority::Merge,
            parent: Prior::Merge(left, right),
            policy: None,
            data: vec![],
        })
    }
}

pub struct AuditStore {
    pub policy: AuditPolicy,
    pub added: usize,
}

impl AuditStore {
    pub fn new(log: Log) -> Self {
        Self { policy: AuditPolicy { log, serial: 0 }, added: 0 }
    }
}

impl PolicyStore for AuditStore {
    type Policy = AuditPolicy;
    type Effect = Effect;

    fn add_policy(&mut self, _policy: &[u8]) -> Result<PolicyId, PolicyError> {
        self.added += 1;
        Ok(PolicyId::new(0))
    }

    fn get_policy(&self, _id: PolicyId) -> Result<&Self::Policy, PolicyError> {
        Ok(&self.policy)
    }
}

/// Sink that appends to the shared log, so rule calls and sink calls are totally ordered.
pub struct RecordingSink {
    pub log: Log,
}

impl Sink<Effect> for RecordingSink {
    fn begin(&mut self) {
        self.log.borrow_mut().events.push(Event::SinkBegin);
    }
    fn consume(&mut self, effect: Effect) {
        self.log.borrow_mut().events.push(Event::SinkConsume(effect));
    }
    fn rollback(&mut self) {
        self.log.borrow_mut().events.push(Event::SinkRollback);
    }
    fn commit(&mut self) {
        self.log.borrow_mut().events.push(Event::SinkCommit);
    }
}

#[derive(Default, Debug)]
pub struct SpillStats {
    pub created: std::cell::Cell<u64>,
    pub writes: std::cell::Cell<u64>,
    pub reads: std::cell::Cell<u64>,
    pub bytes_written: std::cell::Cell<u64>,
    /// Writes/reads by spills created second within a braid call (the convergence map's).
    pub conv_writes: std::cell::Cell<u64>,
    pub conv_reads: std::cell::Cell<u64>,
    /// Writes/reads by spills created first within a braid call (the braid result's).
    pub braid_writes: std::cell::Cell<u64>,
    pub braid_reads: std::cell::Cell<u64>,
    /// Spill instances that exceeded SPILL_WRITE_LIMIT writes (runaway loop).
    pub runaway: std::cell::Cell<u64>,
    /// Fault injection: reads of braid-result spills fail from this read number on.
    pub fail_braid_reads_from: std::cell::Cell<Option<u64>>,
    pub injected_read_faults: std::cell::Cell<u64>,
}

/// In-memory spill that counts what the braid / convergence map actually spilled.
pub struct CountingSpill {
    inner: MemSpill,
    stats: Rc<SpillStats>,
    /// `braid()` creates exactly two spills per call: the result buffer first, the convergence map second.
    is_conv: bool,
    own_writes: u64,
}

pub const SPILL_WRITE_LIMIT: u64 = 20_000;

impl CountingSpill {
    pub fn new(stats: Rc<SpillStats>) -> Result<Self, StorageError> {
        let n = stats.created.get();
        stats.created.set(n + 1);
        Ok(Self { inner: MemSpill::new()?, stats, is_conv: n % 2 == 1, own_writes: 0 })
    }
}

impl Spill for CountingSpill {
    fn write_at(&mut self, offset: usize, data: &[u8]) -> Result<(), StorageError> {
        self.stats.writes.set(self.stats.writes.get() + 1);
        self.own_writes += 1;
        if self.own_writes > SPILL_WRITE_LIMIT {
            // Logical watchdog: one braid never legitimately needs this many block writes
            // (the largest case has < 10^4 commands). Break the loop instead of exhausting memory.
            self.stats.runaway.set(self.stats.runaway.get() + 1);
            return Err(StorageError::IoError);
        }
        let c = if self.is_conv { &self.stats.conv_writes } else { &self.stats.braid_writes };
        c.set(c.get() + 1);
        self.stats.bytes_written.set(self.stats.bytes_written.get() + data.len() as u64);
        self.inner.write_at(offset, data)
    }
    fn read_at(&mut self, offset: usize, data: &mut [u8]) -> Result<(), StorageError> {
        self.stats.reads.set(self.stats.reads.get() + 1);
        let c = if self.is_conv { &self.stats.conv_reads } else { &self.stats.braid_reads };
        if !self.is_conv && self.stats.fail_braid_reads_from.get().is_some_and(|n| c.get() >= n) {
            self.stats.injected_read_faults.set(self.stats.injected_read_faults.get() + 1);
            return Err(StorageError::IoError);
        }
        c.set(c.get() + 1);
        self.inner.read_at(offset, data)
    }
}
