//! "Bomb" programs for C23: control flow is known by construction, every untaken position
//! holds something that would change the outcome or the foreign-call trace if evaluated, and
//! every taken position that has a probe is numbered in evaluation order.
use std::collections::{BTreeMap, BTreeSet};

use vcore::Rng;

use crate::{io::probe_opt, ir::*};

pub struct Bomb {
    pub module: Module,
    pub args: Vec<Val>,
    pub expected: i64,
    /// (probe procedure, argument) in evaluation order
    pub taken: Vec<(usize, i64)>,
    /// bomb probe id -> position label
    pub bomb_shape: BTreeMap<i64, &'static str>,
    /// all position labels used (taken and untaken)
    pub shapes: BTreeSet<&'static str>,
}

struct MatchPlan {
    scrut: Expr,
    arms: Vec<(Pat, Option<Expr>)>,
    bind: Option<(String, i64)>,
}

#[derive(Clone, Copy, PartialEq)]
enum BTy {
    Bool,
    Int,
    OptInt,
}

struct B<'a> {
    rng: &'a mut Rng,
    taken: Vec<(usize, i64)>,
    next_taken: i64,
    next_bomb: i64,
    bomb_shape: BTreeMap<i64, &'static str>,
    shapes: BTreeSet<&'static str>,
    names: usize,
    /// visible known int variables (name, value) per scope
    ints: Vec<Vec<(String, i64)>>,
    nodes: usize,
}

// fixed parameters of fn0 and their argument values
const PT: &str = "pt"; // true
const PF: &str = "pf"; // false
const PN: &str = "pn"; // None
const PS: &str = "ps"; // Some(41)
const PI: &str = "pi"; // 17

fn lit_b(b: bool) -> Expr {
    Expr::Lit(Val::Bool(b))
}
fn lit_i(i: i64) -> Expr {
    Expr::Lit(Val::Int(i))
}
fn bx(e: Expr) -> Box<Expr> {
    Box::new(e)
}

impl B<'_> {
    fn t(&mut self) -> i64 {
        self.next_taken += 1;
        self.next_taken
    }
    fn bid(&mut self, shape: &'static str) -> i64 {
        self.next_bomb += 1;
        self.bomb_shape.insert(self.next_bomb, shape);
        self.shapes.insert(shape);
        self.next_bomb
    }
    fn name(&mut self, p: &str) -> String {
        self.names += 1;
        format!("{p}{}", self.names)
    }
    fn spend(&mut self) -> bool {
        if self.nodes == 0 {
            return false;
        }
        self.nodes -= 1;
        true
    }

    /// Something of type `ty` that must never be evaluated.
    fn bomb(&mut self, ty: BTy, shape: &'static str) -> Expr {
        let id = self.bid(shape);
        let lit = match ty {
            BTy::Bool => lit_b(self.rng.bool()),
            BTy::Int => lit_i(self.rng.range(0, 9) as i64),
            BTy::OptInt => Expr::Lit(Val::none()),
        };
        match self.rng.below(7) {
            0 => Expr::Todo,
            // a failing check inside a block expression
            1 => Expr::Block(Box::new((vec![Stmt::Check(lit_b(false), Expr::Todo)], lit))),
            2 => Expr::Return(bx(Expr::Probe(ProbeFn::Hit, bx(lit_i(id))))),
            3 if ty == BTy::Int => Expr::Probe(ProbeFn::Fail, bx(lit_i(id))),
            // failing debug_assert with a probe in it
            4 => Expr::Block(Box::new((
                vec![Stmt::DebugAssert(Expr::Cmp(CmpOp::Eq, bx(Expr::Probe(ProbeFn::Hit, bx(lit_i(id)))), bx(lit_i(0))))],
                lit,
            ))),
            _ => match ty {
                BTy::Bool => {
                    if self.rng.bool() {
                        Expr::Probe(ProbeFn::Flag, bx(lit_i(id)))
                    } else {
                        Expr::Cmp(CmpOp::Eq, bx(Expr::Probe(ProbeFn::Hit, bx(lit_i(id)))), bx(lit_i(0)))
                    }
                }
                BTy::Int => Expr::Probe(ProbeFn::Hit, bx(lit_i(id))),
                BTy::OptInt => Expr::Probe(ProbeFn::Opt, bx(lit_i(id))),
            },
        }
    }

    /// Never-typed bomb for `check .. else`.
    fn bomb_never(&mut self, shape: &'static str) -> Expr {
        let id = self.bid(shape);
        if self.rng.bool() { Expr::Todo } else { Expr::Return(bx(Expr::Probe(ProbeFn::Hit, bx(lit_i(id))))) }
    }

    fn bomb_stmts(&mut self, shape: &'static str) -> Vec<Stmt> {
        let mut v = vec![];
        for _ in 0..self.rng.urange(1, 2) {
            let s = match self.rng.below(5) {
                0 => {
                    let n = self.name("z");
                    Stmt::Let(n, self.bomb(BTy::Int, shape))
                }
                1 => Stmt::Check(lit_b(false), Expr::Todo),
                2 => Stmt::DebugAssert(self.bomb(BTy::Bool, shape)),
                3 => Stmt::Return(self.bomb(BTy::Int, shape)),
                _ => {
                    let n = self.name("z");
                    Stmt::Let(n, self.bomb(BTy::OptInt, shape))
                }
            };
            let stop = matches!(s, Stmt::Return(_));
            v.push(s);
            if stop {
                break;
            }
        }
        v
    }

    /// Statements that ARE executed (inside taken blocks / branches).
    fn taken_stmts(&mut self, d: usize) -> Vec<Stmt> {
        let mut v = vec![];
        for _ in 0..self.rng.urange(0, 2) {
            if !self.spend() {
                break;
            }
            match self.rng.below(4) {
                0 => {
                    let (e, val) = self.kint(d);
                    let n = self.name("k");
                    self.ints.last_mut().unwrap().push((n.clone(), val));
                    v.push(Stmt::Let(n, e));
                }
                1 => {
                    let c = self.kbool(true, d);
                    let e = self.bomb_never("check-else");
                    v.push(Stmt::Check(c, e));
                }
                2 => {
                    let c = self.kbool(true, d);
                    v.push(Stmt::DebugAssert(c));
                }
                _ => v.push(self.kif_stmt(d)),
            }
        }
        v
    }

    fn kif_stmt(&mut self, d: usize) -> Stmt {
        // if / else-if chain: conditions are evaluated until the first true one
        let n = self.rng.urange(1, 3);
        let taken = self.rng.usize(n + 1); // == n: fall to else (or nothing)
        let mut brs = vec![];
        for i in 0..n {
            if i < taken {
                let c = self.kbool(false, d);
                let b = self.bomb_stmts("if-stmt-branch-untaken");
                brs.push((c, b));
            } else if i == taken {
                let c = self.kbool(true, d);
                self.ints.push(vec![]);
                let b = self.taken_stmts(d);
                self.ints.pop();
                self.shapes.insert("if-stmt-branch-taken");
                brs.push((c, b));
            } else {
                let c = self.bomb(BTy::Bool, "else-if-condition-after-taken");
                let b = self.bomb_stmts("if-stmt-branch-untaken");
                brs.push((c, b));
            }
        }
        let fb = if self.rng.bool() {
            if taken == n {
                self.ints.push(vec![]);
                let b = self.taken_stmts(d);
                self.ints.pop();
                self.shapes.insert("if-stmt-else-taken");
                Some(b)
            } else {
                Some(self.bomb_stmts("if-stmt-else-untaken"))
            }
        } else {
            None
        };
        Stmt::If(brs, fb)
    }

    fn block_of(&mut self, d: usize, e: impl FnOnce(&mut Self) -> Expr) -> Block {
        self.ints.push(vec![]);
        let ss = self.taken_stmts(d);
        let x = e(self);
        self.ints.pop();
        (ss, x)
    }

    /// Expression that evaluates to `v`.
    fn kbool(&mut self, v: bool, depth: usize) -> Expr {
        if depth == 0 || !self.spend() {
            return match self.rng.below(5) {
                0 => lit_b(v),
                1 => Expr::Var(if v { PT } else { PF }.into()),
                2 => {
                    let k = self.t();
                    self.taken.push((0, k));
                    let op = if v { CmpOp::Eq } else { CmpOp::Ne };
                    Expr::Cmp(op, bx(Expr::Probe(ProbeFn::Hit, bx(lit_i(k)))), bx(lit_i(k)))
                }
                3 => {
                    let k = self.t();
                    self.taken.push((1, k));
                    let f = Expr::Probe(ProbeFn::Flag, bx(lit_i(k)));
                    if (k & 1 == 1) == v { f } else { Expr::Not(bx(f)) }
                }
                _ => Expr::Is(bx(Expr::Var(if v { PS } else { PN }.into())), true),
            };
        }
        let d = depth - 1;
        match self.rng.below(9) {
            0 | 1 => {
                // &&
                if v {
                    let a = self.kbool(true, d);
                    let b = self.kbool(true, d);
                    self.shapes.insert("and-rhs-taken");
                    Expr::And(bx(a), bx(b))
                } else if self.rng.chance(2, 3) {
                    let a = self.kbool(false, d);
                    let b = self.bomb(BTy::Bool, "and-rhs-untaken");
                    Expr::And(bx(a), bx(b))
                } else {
                    let a = self.kbool(true, d);
                    let b = self.kbool(false, d);
                    self.shapes.insert("and-rhs-taken");
                    Expr::And(bx(a), bx(b))
                }
            }
            2 | 3 => {
                // ||
                if !v {
                    let a = self.kbool(false, d);
                    let b = self.kbool(false, d);
                    self.shapes.insert("or-rhs-taken");
                    Expr::Or(bx(a), bx(b))
                } else if self.rng.chance(2, 3) {
                    let a = self.kbool(true, d);
                    let b = self.bomb(BTy::Bool, "or-rhs-untaken");
                    Expr::Or(bx(a), bx(b))
                } else {
                    let a = self.kbool(false, d);
                    let b = self.kbool(true, d);
                    self.shapes.insert("or-rhs-taken");
                    Expr::Or(bx(a), bx(b))
                }
            }
            4 => Expr::Not(bx(self.kbool(!v, d))),
            5 => {
                let cv = self.rng.bool();
                let c = self.kbool(cv, d);
                let (t, f) = if cv {
                    let t = self.block_of(d, |s| s.kbool(v, d));
                    let f = (self.bomb_stmts("if-expr-else-untaken"), self.bomb(BTy::Bool, "if-expr-else-untaken"));
                    (t, f)
                } else {
                    let f = self.block_of(d, |s| s.kbool(v, d));
                    let t = (self.bomb_stmts("if-expr-then-untaken"), self.bomb(BTy::Bool, "if-expr-then-untaken"));
                    (t, f)
                };
                Expr::If(bx(c), Box::new(t), Box::new(f))
            }
            6 => self.kmatch(BTy::Bool, d, |s| s.kbool(v, d)),
            7 => {
                // comparison of known ints
                let (a, x) = self.kint(d);
                let (b, y) = self.kint(d);
                let op = if (x < y) == v {
                    CmpOp::Lt
                } else {
                    CmpOp::Ge
                };
                Expr::Cmp(op, bx(a), bx(b))
            }
            _ => Expr::Block(Box::new(self.block_of(d, |s| s.kbool(v, d)))),
        }
    }

    /// match on a known scrutinee: scrutinee and all untaken arms are built here (bombs), the
    /// taken arm is left open (`None`) for the caller, who generates its body afterwards (so
    /// taken probe ids stay in evaluation order) with the binding - if any - in scope.
    fn kmatch_plan(&mut self, ty: BTy, d: usize) -> MatchPlan {
        match self.rng.below(3) {
            0 => {
                let (s, n) = self.kint(d);
                let mut lits: Vec<i64> = vec![n, n.wrapping_add(1), n.wrapping_sub(1), 0, 5, -3, i64::MAX, i64::MIN];
                lits.sort();
                lits.dedup();
                self.rng.shuffle(&mut lits);
                lits.truncate(self.rng.urange(1, 4));
                let hit = lits.iter().position(|x| *x == n);
                let mut arms = vec![];
                for (i, l) in lits.iter().enumerate() {
                    let p = Pat::Vals(vec![PatItem::Lit(Val::Int(*l))]);
                    if Some(i) == hit {
                        self.shapes.insert("match-literal-arm-taken");
                        arms.push((p, None));
                    } else {
                        let shape = if hit.is_none_or(|h| i < h) { "match-arm-before-taken" } else { "match-arm-after-taken" };
                        arms.push((p, Some(self.bomb(ty, shape))));
                    }
                }
                if hit.is_none() {
                    self.shapes.insert("match-default-taken");
                    arms.push((Pat::Default, None));
                } else {
                    arms.push((Pat::Default, Some(self.bomb(ty, "match-default-untaken"))));
                }
                MatchPlan { scrut: s, arms, bind: None }
            }
            1 => {
                let (s, o) = self.kopt(d);
                let mut arms: Vec<(Pat, Option<Expr>)> = vec![];
                let none_first = self.rng.bool();
                let bind = self.name("b");
                let mut taken_done = false;
                let mut bound = None;
                let none_arm = |this: &mut Self, taken_done: &mut bool| {
                    let p = Pat::Vals(vec![PatItem::Lit(Val::none())]);
                    if o.is_none() {
                        this.shapes.insert("match-none-arm-taken");
                        *taken_done = true;
                        (p, None)
                    } else {
                        (p, Some(this.bomb(ty, "match-none-arm-untaken")))
                    }
                };
                if none_first {
                    let a = none_arm(self, &mut taken_done);
                    arms.push(a);
                }
                if self.rng.bool() {
                    let l = match o {
                        Some(x) if self.rng.bool() => x,
                        Some(x) => x.wrapping_add(1),
                        None => 4,
                    };
                    let p = Pat::Vals(vec![PatItem::Lit(Val::some(Val::Int(l)))]);
                    if o == Some(l) {
                        self.shapes.insert("match-some-literal-arm-taken");
                        taken_done = true;
                        arms.push((p, None));
                    } else {
                        arms.push((p, Some(self.bomb(ty, "match-some-literal-arm-untaken"))));
                    }
                }
                let p = Pat::Vals(vec![PatItem::BindSome(bind.clone())]);
                if o.is_some() && !taken_done {
                    self.shapes.insert("match-some-binding-arm-taken");
                    taken_done = true;
                    bound = Some((bind, o.unwrap()));
                    arms.push((p, None));
                } else {
                    arms.push((p, Some(self.bomb(ty, "match-some-binding-arm-untaken"))));
                }
                if !none_first {
                    let a = none_arm(self, &mut taken_done);
                    arms.push(a);
                }
                debug_assert!(taken_done);
                MatchPlan { scrut: s, arms, bind: bound }
            }
            _ => {
                let sv = self.rng.bool();
                let s = self.kbool(sv, d);
                let first = self.rng.bool();
                let mut arms = vec![];
                for val in [first, !first] {
                    let p = Pat::Vals(vec![PatItem::Lit(Val::Bool(val))]);
                    if val == sv {
                        self.shapes.insert("match-bool-arm-taken");
                        arms.push((p, None));
                    } else {
                        arms.push((p, Some(self.bomb(ty, "match-bool-arm-untaken"))));
                    }
                }
                MatchPlan { scrut: s, arms, bind: None }
            }
        }
    }

    fn kmatch(&mut self, ty: BTy, d: usize, body: impl FnOnce(&mut Self) -> Expr) -> Expr {
        let plan = self.kmatch_plan(ty, d);
        self.ints.push(plan.bind.iter().cloned().collect());
        let e = body(self);
        self.ints.pop();
        let mut e = Some(e);
        let arms = plan
            .arms
            .into_iter()
            .map(|(p, x)| (p, x.unwrap_or_else(|| e.take().expect("exactly one taken arm"))))
            .collect();
        Expr::Match(bx(plan.scrut), arms)
    }

    /// Known int expression and its value.
    fn kint(&mut self, depth: usize) -> (Expr, i64) {
        if depth == 0 || !self.spend() {
            let vars: Vec<(String, i64)> = self.ints.iter().flatten().cloned().collect();
            return match self.rng.below(5) {
                0 => {
                    let n = self.rng.range(0, 20) as i64 - 5;
                    (lit_i(n), n)
                }
                1 => (Expr::Var(PI.into()), 17),
                2 if !vars.is_empty() => {
                    let (n, v) = self.rng.pick(&vars).clone();
                    (Expr::Var(n), v)
                }
                _ => {
                    let k = self.t();
                    self.taken.push((0, k));
                    (Expr::Probe(ProbeFn::Hit, bx(lit_i(k))), k)
                }
            };
        }
        let d = depth - 1;
        match self.rng.below(8) {
            0 | 1 => {
                let (a, x) = self.kint(d);
                let (b, y) = self.kint(d);
                if self.rng.bool() {
                    (Expr::Arith(ArithOp::SatAdd, bx(a), bx(b)), x.saturating_add(y))
                } else {
                    (Expr::Arith(ArithOp::SatSub, bx(a), bx(b)), x.saturating_sub(y))
                }
            }
            2 => {
                let cv = self.rng.bool();
                let c = self.kbool(cv, d);
                let mut val = 0;
                let (t, f) = if cv {
                    let t = self.block_of(d, |s| {
                        let (e, v) = s.kint(d);
                        val = v;
                        e
                    });
                    let f = (self.bomb_stmts("if-expr-else-untaken"), self.bomb(BTy::Int, "if-expr-else-untaken"));
                    (t, f)
                } else {
                    let f = self.block_of(d, |s| {
                        let (e, v) = s.kint(d);
                        val = v;
                        e
                    });
                    let t = (self.bomb_stmts("if-expr-then-untaken"), self.bomb(BTy::Int, "if-expr-then-untaken"));
                    (t, f)
                };
                (Expr::If(bx(c), Box::new(t), Box::new(f)), val)
            }
            3 | 4 => {
                // coalesce
                let (o, ov) = self.kopt(d);
                match ov {
                    Some(x) => {
                        let b = self.bomb(BTy::Int, "coalesce-rhs-untaken");
                        (Expr::Coalesce(bx(o), bx(b)), x)
                    }
                    None => {
                        self.shapes.insert("coalesce-rhs-taken");
                        let (b, y) = self.kint(d);
                        (Expr::Coalesce(bx(o), bx(b)), y)
                    }
                }
            }
            5 => {
                let mut val = 0;
                let e = self.kmatch(BTy::Int, d, |s| {
                    // a Some(b) binding pushed by kmatch is visible through self.ints
                    let (e, v) = s.kint(d);
                    val = v;
                    e
                });
                (e, val)
            }
            6 => {
                let mut val = 0;
                let b = self.block_of(d, |s| {
                    let (e, v) = s.kint(d);
                    val = v;
                    e
                });
                (Expr::Block(Box::new(b)), val)
            }
            _ => {
                let k = self.t();
                self.taken.push((0, k));
                (Expr::Probe(ProbeFn::Hit, bx(lit_i(k))), k)
            }
        }
    }

    /// Known option[int] expression and its value.
    fn kopt(&mut self, depth: usize) -> (Expr, Option<i64>) {
        if depth == 0 || !self.spend() {
            return match self.rng.below(5) {
                0 => (Expr::Lit(Val::none()), None),
                1 => (Expr::Var(PN.into()), None),
                2 => (Expr::Var(PS.into()), Some(41)),
                3 => {
                    let n = self.rng.range(0, 9) as i64;
                    (Expr::Lit(Val::some(Val::Int(n))), Some(n))
                }
                _ => {
                    let k = self.t();
                    self.taken.push((2, k));
                    (Expr::Probe(ProbeFn::Opt, bx(lit_i(k))), probe_opt(k))
                }
            };
        }
        let d = depth - 1;
        match self.rng.below(6) {
            0 => {
                let (e, v) = self.kint(d);
                (Expr::Some(bx(e)), Some(v))
            }
            1 => {
                let (a, x) = self.kint(d);
                let (b, y) = self.kint(d);
                (Expr::Arith(ArithOp::Add, bx(a), bx(b)), x.checked_add(y))
            }
            2 => {
                // overflowing checked arithmetic => None
                let (a, x) = self.kint(d);
                let big = if x >= 0 { i64::MAX } else { i64::MIN };
                let r = big.checked_add(x);
                (Expr::Arith(ArithOp::Add, bx(lit_i(big)), bx(a)), r)
            }
            3 => {
                let cv = self.rng.bool();
                let c = self.kbool(cv, d);
                let mut val = None;
                let (t, f) = if cv {
                    let t = self.block_of(d, |s| {
                        let (e, v) = s.kopt(d);
                        val = v;
                        e
                    });
                    (t, (vec![], self.bomb(BTy::OptInt, "if-expr-else-untaken")))
                } else {
                    let f = self.block_of(d, |s| {
                        let (e, v) = s.kopt(d);
                        val = v;
                        e
                    });
                    ((vec![], self.bomb(BTy::OptInt, "if-expr-then-untaken")), f)
                };
                (Expr::If(bx(c), Box::new(t), Box::new(f)), val)
            }
            _ => {
                let k = self.t();
                self.taken.push((2, k));
                (Expr::Probe(ProbeFn::Opt, bx(lit_i(k))), probe_opt(k))
            }
        }
    }
}

pub fn gen_bomb(rng: &mut Rng) -> Bomb {
    let mut b = B {
        rng,
        taken: vec![],
        next_taken: 0,
        next_bomb: 1000,
        bomb_shape: BTreeMap::new(),
        shapes: BTreeSet::new(),
        names: 0,
        ints: vec![vec![]],
        nodes: 40,
    };
    let depth = b.rng.urange(2, 5);
    let mut body = vec![];
    for _ in 0..b.rng.urange(0, 3) {
        let mut ss = b.taken_stmts(depth);
        body.append(&mut ss);
    }
    b.nodes = b.nodes.max(8);
    let (e, v) = b.kint(depth);
    body.push(Stmt::Return(e));
    let mut m = Module::default();
    m.funcs.push(FuncDef {
        name: "fn0".into(),
        params: vec![
            (PT.into(), Ty::Bool),
            (PF.into(), Ty::Bool),
            (PN.into(), Ty::opt(Ty::Int)),
            (PS.into(), Ty::opt(Ty::Int)),
            (PI.into(), Ty::Int),
        ],
        ret: Ty::Int,
        body,
    });
    Bomb {
        module: m,
        args: vec![Val::Bool(true), Val::Bool(false), Val::none(), Val::some(Val::Int(41)), Val::Int(17)],
        expected: v,
        taken: b.taken,
        bomb_shape: b.bomb_shape,
        shapes: b.shapes,
    }
}
