//! `MonitorIO`: harness implementation of the VM's `MachineIO` that logs everything, serves
//! the `probe` FFI module and backs fact queries with an in-memory model store.
use std::{cell::RefCell, collections::BTreeMap};

use aranya_crypto::{BaseId, DeviceId, policy::CmdId};
use aranya_policy_vm::{
    CommandContext, FactKey, FactKeyList, FactValue, FactValueList, Identifier, KVPair,
    MachineError, MachineErrorType, MachineIO, MachineIOError, MachineStack, PolicyContext,
    ActionContext, Stack as _, Struct, Text, Value,
    ffi::{self, ModuleSchema},
    ident,
};

use crate::ir::{Module, Val};

/// Marker text of FFI errors injected by the harness (`probe::fail`).
pub const INJECTED_FFI: &str = "harness-injected probe::fail";

const PROBE_FUNCS: &[ffi::Func<'static>] = &[
    ffi::Func {
        name: ident!("hit"),
        args: &[ffi::Arg { name: ident!("n"), vtype: ffi::Type::Int }],
        return_type: ffi::Type::Int,
    },
    ffi::Func {
        name: ident!("flag"),
        args: &[ffi::Arg { name: ident!("n"), vtype: ffi::Type::Int }],
        return_type: ffi::Type::Bool,
    },
    ffi::Func {
        name: ident!("opt"),
        args: &[ffi::Arg { name: ident!("n"), vtype: ffi::Type::Int }],
        return_type: ffi::Type::Optional(&ffi::Type::Int),
    },
    ffi::Func {
        name: ident!("fail"),
        args: &[ffi::Arg { name: ident!("n"), vtype: ffi::Type::Int }],
        return_type: ffi::Type::Int,
    },
];

/// FFI schemas handed to the compiler: module 0 = `probe`.
pub const FFI_SCHEMAS: &[ModuleSchema<'static>] = &[ModuleSchema {
    name: ident!("probe"),
    functions: PROBE_FUNCS,
    structs: &[],
    enums: &[],
}];

/// Reference semantics of the probe functions (shared by MonitorIO and the reference evaluator
/// - they are harness definitions, not repository code).
pub fn probe_flag(n: i64) -> bool {
    n & 1 == 1
}
pub fn probe_opt(n: i64) -> Option<i64> {
    if n % 3 == 0 { None } else { Some(n) }
}

#[derive(Clone, Debug, PartialEq)]
pub enum IoEvent {
    Insert { name: String, keys: FactKeyList, values: FactValueList },
    Delete { name: String, keys: FactKeyList },
    Query { name: String, keys: FactKeyList },
    Effect { name: String, fields: Vec<KVPair>, recalled: bool },
    Call { module: usize, proc: usize, args: Vec<Value> },
}

/// Harness-injected I/O failures.
#[derive(Clone, Copy, Debug, Default)]
pub struct Inject {
    /// fail the n-th (0-based) fact insert/delete with `MachineIOError::Internal`
    pub fail_write_at: Option<usize>,
    /// fail the n-th fact query with `MachineIOError::Internal`
    pub fail_query_at: Option<usize>,
}

#[derive(Default)]
pub struct MonitorIO {
    pub log: RefCell<Vec<IoEvent>>,
    pub facts: BTreeMap<(Identifier, FactKeyList), FactValueList>,
    pub inject: Inject,
    writes: usize,
    queries: RefCell<usize>,
}

impl MonitorIO {
    pub fn new() -> Self {
        Self::default()
    }
    pub fn calls(&self) -> Vec<(usize, usize, Vec<Value>)> {
        self.log
            .borrow()
            .iter()
            .filter_map(|e| match e {
                IoEvent::Call { module, proc, args } => Some((*module, *proc, args.clone())),
                _ => None,
            })
            .collect()
    }
    pub fn fact_ops(&self) -> usize {
        self.log
            .borrow()
            .iter()
            .filter(|e| matches!(e, IoEvent::Insert { .. } | IoEvent::Delete { .. }))
            .count()
    }
    pub fn effects(&self) -> Vec<(String, bool)> {
        self.log
            .borrow()
            .iter()
            .filter_map(|e| match e {
                IoEvent::Effect { name, recalled, .. } => Some((name.clone(), *recalled)),
                _ => None,
            })
            .collect()
    }
    pub fn events(&self) -> usize {
        self.log.borrow().len()
    }
}

impl MachineIO<MachineStack> for MonitorIO {
    type QueryIterator =
        Box<dyn Iterator<Item = Result<(FactKeyList, FactValueList), MachineIOError>>>;

    fn fact_insert(
        &mut self,
        name: Identifier,
        key: impl IntoIterator<Item = FactKey>,
        value: impl IntoIterator<Item = FactValue>,
    ) -> Result<(), MachineIOError> {
        let keys: Vec<_> = key.into_iter().collect();
        let values: Vec<_> = value.into_iter().collect();
        self.log.borrow_mut().push(IoEvent::Insert {
            name: name.to_string(),
            keys: keys.clone(),
            values: values.clone(),
        });
        let n = self.writes;
        self.writes += 1;
        if self.inject.fail_write_at == Some(n) {
            return Err(MachineIOError::Internal);
        }
        match self.facts.entry((name, keys)) {
            std::collections::btree_map::Entry::Vacant(e) => {
                e.insert(values);
                Ok(())
            }
            std::collections::btree_map::Entry::Occupied(_) => Err(MachineIOError::FactExists),
        }
    }

    fn fact_delete(
        &mut self,
        name: Identifier,
        key: impl IntoIterator<Item = FactKey>,
    ) -> Result<(), MachineIOError> {
        let keys: Vec<_> = key.into_iter().collect();
        self.log
            .borrow_mut()
            .push(IoEvent::Delete { name: name.to_string(), keys: keys.clone() });
        let n = self.writes;
        self.writes += 1;
        if self.inject.fail_write_at == Some(n) {
            return Err(MachineIOError::Internal);
        }
        match self.facts.remove(&(name, keys)) {
            Some(_) => Ok(()),
            None => Err(MachineIOError::FactNotFound),
        }
    }

    fn fact_query(
        &self,
        name: Identifier,
        key: impl IntoIterator<Item = FactKey>,
    ) -> Result<Self::QueryIterator, MachineIOError> {
        let keys: Vec<_> = key.into_iter().collect();
        self.log
            .borrow_mut()
            .push(IoEvent::Query { name: name.to_string(), keys: keys.clone() });
        let n = *self.queries.borrow();
        *self.queries.borrow_mut() += 1;
        if self.inject.fail_query_at == Some(n) {
            return Err(MachineIOError::Internal);
        }
        let out: Vec<_> = self
            .facts
            .iter()
            .filter(|((n, k), _)| *n == name && k.starts_with(&keys))
            .map(|((_, k), v)| Ok((k.clone(), v.clone())))
            .collect();
        Ok(Box::new(out.into_iter()))
    }

    fn effect(
        &mut self,
        name: Identifier,
        fields: impl IntoIterator<Item = KVPair>,
        _command: CmdId,
        recalled: bool,
    ) {
        self.log.borrow_mut().push(IoEvent::Effect {
            name: name.to_string(),
            fields: fields.into_iter().collect(),
            recalled,
        });
    }

    fn call(
        &self,
        module: usize,
        procedure: usize,
        stack: &mut MachineStack,
        _ctx: &CommandContext,
    ) -> Result<(), MachineError> {
        if module != 0 {
            return Err(MachineError::new(MachineErrorType::FfiModuleNotDefined(module)));
        }
        // All probe functions take one int.
        let v = stack.pop_value().map_err(MachineError::new)?;
        self.log
            .borrow_mut()
            .push(IoEvent::Call { module, proc: procedure, args: vec![v.clone()] });
        let Value::Int(n) = v else {
            return Err(MachineError::new(MachineErrorType::Unknown(
                "probe: argument is not an int".into(),
            )));
        };
        let r = match procedure {
            0 => Value::Int(n),
            1 => Value::Bool(probe_flag(n)),
            2 => Value::from(probe_opt(n)),
            3 => return Err(MachineError::new(MachineErrorType::Unknown(INJECTED_FFI.into()))),
            _ => {
                return Err(MachineError::new(MachineErrorType::FfiProcedureNotDefined(
                    ident!("probe"),
                    procedure,
                )));
            }
        };
        stack.push_value(r).map_err(MachineError::new)
    }
}

pub fn ident_of(s: &str) -> Identifier {
    s.parse().unwrap_or_else(|e| panic!("bad identifier {s:?}: {e:?}"))
}

pub fn text_of(s: &str) -> Text {
    s.parse().unwrap_or_else(|e| panic!("bad text {s:?}: {e:?}"))
}

/// Reference value -> VM value (needs the module for enum / struct names).
pub fn to_vm(m: &Module, v: &Val) -> Value {
    match v {
        Val::Bool(b) => Value::Bool(*b),
        Val::Int(i) => Value::Int(*i),
        Val::Str(s) => Value::String(text_of(s)),
        Val::Id(b) => Value::Id(BaseId::from_bytes(*b)),
        Val::Enum(e, k) => Value::Enum(ident_of(&m.enums[*e].name), *k as i64),
        Val::Struct(s, fs) => Value::Struct(Struct {
            name: ident_of(&m.structs[*s].name),
            fields: fs.iter().map(|(n, x)| (ident_of(n), to_vm(m, x))).collect(),
        }),
        Val::Opt(o) => Value::Option(o.as_ref().map(|x| Box::new(to_vm(m, x)))),
        Val::Res(Ok(x)) => Value::Result(Ok(Box::new(to_vm(m, x)))),
        Val::Res(Err(x)) => Value::Result(Err(Box::new(to_vm(m, x)))),
    }
}

pub fn policy_ctx(name: &str) -> CommandContext {
    CommandContext::Policy(PolicyContext {
        name: ident_of(name),
        id: CmdId::default(),
        author: DeviceId::default(),
        version: BaseId::default(),
    })
}

pub fn action_ctx(name: &str) -> CommandContext {
    CommandContext::Action(ActionContext { name: ident_of(name), head_id: CmdId::default() })
}
