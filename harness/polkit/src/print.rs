//! Printer: IR -> policy source (fully parenthesised) -> complete policy document.
//!
//! Parenthesisation rules that matter for the PEG grammar (policy.pest):
//!   * every operand of a prefix/infix/postfix operator is wrapped in `( )`;
//!   * every expression in statement position / match-arm position is wrapped in `( )` so the
//!     following token can never be consumed as an infix operator or a call argument list;
//!   * negative integer patterns are wrapped in `( )` (otherwise `(e) -1 => ..` would lex the
//!     `-` as the infix subtract operator of the preceding arm expression).
use crate::ir::*;
use std::fmt::Write;

pub fn ty(m: &Module, t: &Ty) -> String {
    match t {
        Ty::Bool => "bool".into(),
        Ty::Int => "int".into(),
        Ty::Str => "string".into(),
        Ty::Id => "id".into(),
        Ty::Enum(e) => format!("enum {}", m.enums[*e].name),
        Ty::Struct(s) => format!("struct {}", m.structs[*s].name),
        Ty::Opt(t) => format!("option[{}]", ty(m, t)),
        Ty::Res(a, b) => format!("result[{}, {}]", ty(m, a), ty(m, b)),
    }
}

pub fn string_lit(s: &str) -> String {
    let mut o = String::with_capacity(s.len() + 2);
    o.push('"');
    for c in s.chars() {
        match c {
            '"' => o.push_str("\\\""),
            '\\' => o.push_str("\\\\"),
            '\n' => o.push_str("\\n"),
            c if (c as u32) < 0x20 || c as u32 == 0x7f => {
                let _ = write!(o, "\\x{:02x}", c as u32);
            }
            c => o.push(c),
        }
    }
    o.push('"');
    o
}

/// Literal form of a value. Panics on ids (no literal syntax) - generators never produce them.
pub fn val(m: &Module, v: &Val) -> String {
    match v {
        Val::Bool(b) => b.to_string(),
        Val::Int(i) => i.to_string(),
        Val::Str(s) => string_lit(s),
        Val::Id(_) => panic!("id literal is not expressible"),
        Val::Enum(e, k) => format!("{}::{}", m.enums[*e].name, m.enums[*e].variants[*k]),
        Val::Struct(s, fs) => {
            // print in definition order where possible
            let def = &m.structs[*s];
            let mut parts = vec![];
            for (n, _) in &def.fields {
                if let Some(x) = fs.get(n) {
                    parts.push(format!("{n}: {}", val(m, x)));
                }
            }
            for (n, x) in fs {
                if !def.fields.iter().any(|(d, _)| d == n) {
                    parts.push(format!("{n}: {}", val(m, x)));
                }
            }
            format!("{} {{ {} }}", def.name, parts.join(", "))
        }
        Val::Opt(None) => "None".into(),
        Val::Opt(Some(x)) => format!("Some({})", val(m, x)),
        Val::Res(Ok(x)) => format!("Ok({})", val(m, x)),
        Val::Res(Err(x)) => format!("Err({})", val(m, x)),
    }
}

fn pat_item(m: &Module, p: &PatItem) -> String {
    match p {
        PatItem::Lit(Val::Int(i)) if *i < 0 => format!("({i})"),
        PatItem::Lit(v) => val(m, v),
        PatItem::BindSome(n) => format!("Some({n})"),
        PatItem::BindOk(n) => format!("Ok({n})"),
        PatItem::BindErr(n) => format!("Err({n})"),
    }
}

fn pat(m: &Module, p: &Pat) -> String {
    match p {
        Pat::Default => "_".into(),
        Pat::Vals(v) => v.iter().map(|x| pat_item(m, x)).collect::<Vec<_>>().join(" | "),
    }
}

pub fn fact_lit(m: &Module, f: &FactLit) -> String {
    let d = &m.facts[f.fact];
    let fld = |(n, e): &(String, Option<Expr>)| match e {
        Some(e) => format!("{n}: {}", expr(m, e)),
        None => format!("{n}: ?"),
    };
    let mut s = format!("{}[{}]", d.name, f.keys.iter().map(fld).collect::<Vec<_>>().join(", "));
    if let Some(v) = &f.vals {
        let _ = write!(s, "=>{{{}}}", v.iter().map(fld).collect::<Vec<_>>().join(", "));
    }
    s
}

fn block(m: &Module, b: &Block, ind: usize) -> String {
    let mut s = String::from("{\n");
    stmts(m, &b.0, ind + 1, &mut s);
    let _ = writeln!(s, "{}: {}", "    ".repeat(ind + 1), expr(m, &b.1));
    let _ = write!(s, "{}}}", "    ".repeat(ind));
    s
}

fn args(m: &Module, a: &[Expr]) -> String {
    a.iter().map(|e| expr(m, e)).collect::<Vec<_>>().join(", ")
}

/// Always returns a self-delimiting form: either an atom that cannot absorb what follows or
/// something wrapped in parentheses.
pub fn expr(m: &Module, e: &Expr) -> String {
    match e {
        Expr::Lit(v) => match v {
            Val::Int(i) if *i < 0 => format!("({i})"),
            _ => format!("({})", val(m, v)),
        },
        Expr::Var(n) => format!("({n})"),
        Expr::Some(x) => format!("Some({})", expr(m, x)),
        Expr::Ok(x) => format!("Ok({})", expr(m, x)),
        Expr::Err(x) => format!("Err({})", expr(m, x)),
        Expr::StructLit(s, fs, srcs) => {
            let mut parts: Vec<String> =
                fs.iter().map(|(n, x)| format!("{n}: {}", expr(m, x))).collect();
            parts.extend(srcs.iter().map(|s| format!("...{s}")));
            format!("({} {{ {} }})", m.structs[*s].name, parts.join(", "))
        }
        Expr::Dot(x, f) => format!("({}.{f})", expr(m, x)),
        Expr::Substruct(x, s) => format!("({} substruct {})", expr(m, x), m.structs[*s].name),
        Expr::Cast(x, s) => format!("({} as {})", expr(m, x), m.structs[*s].name),
        Expr::Not(x) => format!("(!{})", expr(m, x)),
        Expr::And(a, b) => format!("({} && {})", expr(m, a), expr(m, b)),
        Expr::Or(a, b) => format!("({} || {})", expr(m, a), expr(m, b)),
        Expr::Cmp(op, a, b) => format!("({} {} {})", expr(m, a), op.sym(), expr(m, b)),
        Expr::Coalesce(a, b) => format!("({} or {})", expr(m, a), expr(m, b)),
        Expr::Is(x, some) => format!("({} is {})", expr(m, x), if *some { "Some" } else { "None" }),
        Expr::Arith(op, a, b) => format!("{}({}, {})", op.name(), expr(m, a), expr(m, b)),
        Expr::If(c, t, f) => {
            format!("(if {} {} else {})", expr(m, c), block(m, t, 2), block(m, f, 2))
        }
        Expr::Block(b) => format!("({})", block(m, b, 2)),
        Expr::Match(s, arms) => {
            let mut o = format!("(match {} {{\n", expr(m, s));
            for (p, x) in arms {
                let _ = writeln!(o, "            {} => {}", pat(m, p), expr(m, x));
            }
            o.push_str("        })");
            o
        }
        Expr::Call(f, a) => format!("{}({})", m.funcs[*f].name, args(m, a)),
        Expr::Probe(p, a) => format!("probe::{}({})", p.name(), expr(m, a)),
        Expr::Todo => "(todo())".into(),
        Expr::Return(x) => format!("(return {})", expr(m, x)),
        Expr::Recall(n, a) => format!("(recall {n}({}))", args(m, a)),
        Expr::Query(f) => format!("(query {})", fact_lit(m, f)),
        Expr::Exists(f) => format!("(exists {})", fact_lit(m, f)),
        Expr::Count(k, n, f) => {
            let kw = match k {
                CountKind::UpTo => "count_up_to",
                CountKind::AtLeast => "at_least",
                CountKind::AtMost => "at_most",
                CountKind::Exactly => "exactly",
            };
            format!("({kw} {n} {})", fact_lit(m, f))
        }
        Expr::Raw(s) => s.clone(),
    }
}

pub fn stmts(m: &Module, ss: &[Stmt], ind: usize, o: &mut String) {
    let pad = "    ".repeat(ind);
    for s in ss {
        match s {
            Stmt::Let(n, e) => {
                let _ = writeln!(o, "{pad}let {n} = {}", expr(m, e));
            }
            Stmt::Check(c, e) => {
                let _ = writeln!(o, "{pad}check {} else {}", expr(m, c), expr(m, e));
            }
            Stmt::If(brs, fb) => {
                for (i, (c, b)) in brs.iter().enumerate() {
                    if i == 0 {
                        let _ = writeln!(o, "{pad}if {} {{", expr(m, c));
                    } else {
                        let _ = writeln!(o, "{pad}}} else if {} {{", expr(m, c));
                    }
                    stmts(m, b, ind + 1, o);
                }
                if let Some(b) = fb {
                    let _ = writeln!(o, "{pad}}} else {{");
                    stmts(m, b, ind + 1, o);
                }
                let _ = writeln!(o, "{pad}}}");
            }
            Stmt::Match(e, arms) => {
                let _ = writeln!(o, "{pad}match {} {{", expr(m, e));
                for (p, b) in arms {
                    let _ = writeln!(o, "{pad}    {} => {{", pat(m, p));
                    stmts(m, b, ind + 2, o);
                    let _ = writeln!(o, "{pad}    }}");
                }
                let _ = writeln!(o, "{pad}}}");
            }
            Stmt::DebugAssert(e) => {
                let _ = writeln!(o, "{pad}debug_assert({})", expr(m, e));
            }
            Stmt::Return(e) => {
                let _ = writeln!(o, "{pad}return {}", expr(m, e));
            }
            Stmt::Finish(b) => {
                let _ = writeln!(o, "{pad}finish {{");
                stmts(m, b, ind + 1, o);
                let _ = writeln!(o, "{pad}}}");
            }
            Stmt::Create(f) => {
                let _ = writeln!(o, "{pad}create {}", fact_lit(m, f));
            }
            Stmt::Update(f, to) => {
                let to: Vec<String> =
                    to.iter().map(|(n, e)| format!("{n}: {}", expr(m, e))).collect();
                let _ = writeln!(o, "{pad}update {} to {{{}}}", fact_lit(m, f), to.join(", "));
            }
            Stmt::Delete(f) => {
                let _ = writeln!(o, "{pad}delete {}", fact_lit(m, f));
            }
            Stmt::Emit(e) => {
                let _ = writeln!(o, "{pad}emit {}", expr(m, e));
            }
            Stmt::FinishCall(n, a) => {
                let _ = writeln!(o, "{pad}{n}({})", args(m, a));
            }
            Stmt::Recall(n, a) => {
                let _ = writeln!(o, "{pad}recall {n}({})", args(m, a));
            }
            Stmt::Publish(e) => {
                let _ = writeln!(o, "{pad}publish {}", expr(m, e));
            }
            Stmt::ActionCall(n, a) => {
                let _ = writeln!(o, "{pad}action {n}({})", args(m, a));
            }
            Stmt::Map(f, n, b) => {
                let _ = writeln!(o, "{pad}map {} as {n} {{", fact_lit(m, f));
                stmts(m, b, ind + 1, o);
                let _ = writeln!(o, "{pad}}}");
            }
            Stmt::Raw(s) => {
                let _ = writeln!(o, "{pad}{s}");
            }
        }
    }
}

fn params(m: &Module, ps: &[(String, Ty)]) -> String {
    ps.iter().map(|(n, t)| format!("{n} {}", ty(m, t))).collect::<Vec<_>>().join(", ")
}

/// The policy source (what goes inside the ```policy fence).
pub fn source(m: &Module) -> String {
    let mut o = String::new();
    o.push_str("use probe\n\n");
    for e in &m.enums {
        let _ = writeln!(o, "enum {} {{ {} }}", e.name, e.variants.join(", "));
    }
    for (si, s) in m.structs.iter().enumerate() {
        let kw = match s.kind {
            StructKind::Plain => "struct",
            StructKind::Effect => "effect",
            StructKind::FactMirror | StructKind::CommandMirror => continue,
        };
        let mut parts = vec![];
        let mut skip = 0;
        if let Some(b) = s.insert_base {
            debug_assert!(b != si);
            parts.push(format!("+{}", m.structs[b].name));
            skip = m.structs[b].fields.len();
        }
        for (n, t) in s.fields.iter().skip(skip) {
            parts.push(format!("{n} {}", ty(m, t)));
        }
        let _ = writeln!(o, "{kw} {} {{ {} }}", s.name, parts.join(", "));
    }
    for f in &m.facts {
        let _ = writeln!(
            o,
            "{}fact {}[{}]=>{{{}}}",
            if f.immutable { "immutable " } else { "" },
            f.name,
            params(m, &f.keys),
            params(m, &f.vals)
        );
    }
    for (n, _, v) in &m.globals {
        let _ = writeln!(o, "let {n} = {}", val(m, v));
    }
    o.push('\n');
    for f in &m.funcs {
        let _ = writeln!(o, "function {}({}) {} {{", f.name, params(m, &f.params), ty(m, &f.ret));
        stmts(m, &f.body, 1, &mut o);
        o.push_str("}\n\n");
    }
    for f in &m.finish_funcs {
        let _ = writeln!(o, "finish function {}({}) {{", f.name, params(m, &f.params));
        stmts(m, &f.body, 1, &mut o);
        o.push_str("}\n\n");
    }
    for c in &m.commands {
        let _ = writeln!(o, "command {} {{", c.name);
        let _ = writeln!(o, "    fields {{ {} }}", params(m, &c.fields));
        o.push_str("    seal { return todo() }\n    open { return todo() }\n");
        o.push_str("    policy {\n");
        stmts(m, &c.policy, 2, &mut o);
        o.push_str("    }\n");
        for r in &c.recalls {
            let _ = writeln!(o, "    recall {}({}) {{", r.name, params(m, &r.params));
            stmts(m, &r.body, 2, &mut o);
            o.push_str("    }\n");
        }
        o.push_str("}\n\n");
    }
    for a in &m.actions {
        let _ = writeln!(o, "action {}({}) {{", a.name, params(m, &a.params));
        stmts(m, &a.body, 1, &mut o);
        o.push_str("}\n\n");
    }
    o
}

/// Complete policy document: YAML front matter + one fenced `policy` block.
pub fn document(m: &Module) -> String {
    format!("---\npolicy-version: 2\n---\n\n# generated\n\n```policy\n{}```\n", source(m))
}
