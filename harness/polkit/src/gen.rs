//! Generators: well-typed-by-construction random modules of pure functions, argument vectors,
//! and "bomb" programs for short-circuit checking.
//!
//! Typing rules relied on (lower.rs / types.rs of the pinned tree):
//!   * a name may not be (re)defined while visible in any enclosing block of the same function
//!     or as a global; names of closed sibling blocks may be reused;
//!   * `None`, `Ok(x)`, `Err(x)`, `todo()`, `return e` have `never` holes that unify with
//!     anything, but positions that need a structural type (`.field`, `substruct`, `as`,
//!     `is Some`, lhs of `or`, match scrutinee, `let` initialisers used later) must not be
//!     statically `never` - tracked with the `nv` flag below;
//!   * match: literal patterns must be distinct, a binding must be alone in its arm and come
//!     after the literals of its variant, default must be last.
use std::collections::BTreeMap;

use vcore::Rng;

use crate::ir::*;

#[derive(Clone, Debug)]
pub struct GenCfg {
    pub max_depth: usize,
    pub max_nodes: usize,
    /// deliberately reuse names of closed sibling / nested scopes
    pub reuse_names: bool,
    /// plant `todo()` / `return e` in expression positions
    pub never_exprs: bool,
    /// plant `probe::*` foreign calls
    pub probes: bool,
    /// allow `probe::fail` (harness-injected FFI error)
    pub fail_probe: bool,
    /// allow functions that can run off their end
    pub fall_off: bool,
    /// use `exists` / `count_up_to` / `at_least` / ... / `query` on the module's facts
    pub facts: bool,
    /// QUIRK (C24 hostile mode): struct literals that omit fields (accepted by the compiler)
    pub quirk_partial_struct: bool,
    /// QUIRK (C24 hostile mode): `None | Some(x)` / `Ok(x) | Err(e)` alternations
    pub quirk_bind_alt: bool,
}

/// Statement context the generator works in (decides which never-typed expressions exist).
#[derive(Clone, Debug, PartialEq)]
pub enum Ctx {
    Pure,
    /// command policy block: recall blocks (name, parameters) that may be invoked
    Policy(Vec<(String, Vec<(String, Ty)>)>),
    Recall,
    Action,
}

impl Default for GenCfg {
    fn default() -> Self {
        Self {
            max_depth: 6,
            max_nodes: 40,
            reuse_names: false,
            never_exprs: true,
            probes: true,
            fail_probe: false,
            fall_off: true,
            facts: false,
            quirk_partial_struct: false,
            quirk_bind_alt: false,
        }
    }
}

pub const INT_BOUNDS: [i64; 7] = [i64::MIN, i64::MIN + 1, -1, 0, 1, i64::MAX - 1, i64::MAX];

pub fn gen_int(rng: &mut Rng) -> i64 {
    match rng.below(10) {
        0..=3 => *rng.pick(&INT_BOUNDS),
        4..=6 => rng.range(0, 6) as i64 - 2,
        7 => (rng.u64() as i64) >> rng.range(0, 62),
        8 => {
            // near a boundary
            let b = *rng.pick(&INT_BOUNDS);
            b.saturating_add(rng.range(0, 4) as i64 - 2)
        }
        _ => rng.u64() as i64,
    }
}

pub fn gen_string(rng: &mut Rng) -> String {
    const ALPHA: &[&str] = &[
        "a", "b", "Z", "0", " ", "_", "-", "\"", "\\", "\n", "\t", "\u{1}", "\u{7f}", "é", "ß",
        "日", "😀", "{", "}", ":", "|", "=>", "//", "/*", "'", "?",
    ];
    match rng.below(8) {
        0 | 1 => String::new(),
        2 => "a".into(),
        3 => {
            // long
            let n = rng.urange(100, 400);
            (0..n).map(|i| char::from(b'a' + (i % 26) as u8)).collect()
        }
        _ => {
            let n = rng.urange(1, 12);
            (0..n).map(|_| *rng.pick(ALPHA)).collect()
        }
    }
}

pub fn gen_id(rng: &mut Rng) -> [u8; 32] {
    let mut b = [0u8; 32];
    match rng.below(4) {
        0 => {}
        1 => b = [0xff; 32],
        2 => b[31] = rng.u64() as u8,
        _ => rng.fill(&mut b),
    }
    b
}

/// Random value of a type. `allow_id`: ids may appear (argument vectors) or not (literals).
pub fn gen_val(rng: &mut Rng, m: &Module, t: &Ty, allow_id: bool, depth: usize) -> Val {
    match t {
        Ty::Bool => Val::Bool(rng.bool()),
        Ty::Int => Val::Int(gen_int(rng)),
        Ty::Str => Val::Str(gen_string(rng)),
        Ty::Id => {
            assert!(allow_id, "id value requested where none is expressible");
            Val::Id(gen_id(rng))
        }
        Ty::Enum(e) => Val::Enum(*e, rng.usize(m.enums[*e].variants.len())),
        Ty::Struct(s) => Val::Struct(
            *s,
            m.structs[*s]
                .fields
                .iter()
                .map(|(n, ft)| (n.clone(), gen_val(rng, m, ft, allow_id, depth + 1)))
                .collect(),
        ),
        Ty::Opt(x) => {
            if rng.chance(1, 3) {
                Val::none()
            } else {
                Val::some(gen_val(rng, m, x, allow_id, depth + 1))
            }
        }
        Ty::Res(a, b) => {
            let a_ok = allow_id || !a.contains_id(m);
            let b_ok = allow_id || !b.contains_id(m);
            if (rng.bool() && a_ok) || !b_ok {
                Val::ok(gen_val(rng, m, a, allow_id, depth + 1))
            } else {
                Val::err(gen_val(rng, m, b, allow_id, depth + 1))
            }
        }
    }
}

/// Can a literal of this type be written without an id?
pub fn literal_ok(m: &Module, t: &Ty) -> bool {
    match t {
        Ty::Id => false,
        Ty::Struct(s) => m.structs[*s].fields.iter().all(|(_, t)| literal_ok(m, t)),
        Ty::Opt(_) => true, // None
        Ty::Res(a, b) => literal_ok(m, a) || literal_ok(m, b),
        _ => true,
    }
}

/// Literal value of a type without ids (uses None / the id-free side where needed).
pub fn gen_lit(rng: &mut Rng, m: &Module, t: &Ty) -> Val {
    match t {
        Ty::Opt(x) if !literal_ok(m, x) => Val::none(),
        Ty::Opt(x) => {
            if rng.chance(1, 3) {
                Val::none()
            } else {
                Val::some(gen_lit(rng, m, x))
            }
        }
        Ty::Res(a, b) => {
            let a_ok = literal_ok(m, a);
            let b_ok = literal_ok(m, b);
            if (rng.bool() && a_ok) || !b_ok {
                Val::ok(gen_lit(rng, m, a))
            } else {
                Val::err(gen_lit(rng, m, b))
            }
        }
        Ty::Struct(s) => Val::Struct(
            *s,
            m.structs[*s].fields.iter().map(|(n, ft)| (n.clone(), gen_lit(rng, m, ft))).collect(),
        ),
        _ => gen_val(rng, m, t, false, 0),
    }
}

// ---------------------------------------------------------------------------------------------
// Module skeleton: enums, struct families, globals
// ---------------------------------------------------------------------------------------------

fn scalar_ty(rng: &mut Rng, m: &Module, with_id: bool) -> Ty {
    loop {
        let t = match rng.below(9) {
            0 | 1 => Ty::Int,
            2 => Ty::Bool,
            3 => Ty::Str,
            4 if !m.enums.is_empty() => Ty::Enum(rng.usize(m.enums.len())),
            5 if with_id => Ty::Id,
            6 => Ty::opt(Ty::Int),
            7 => Ty::opt(Ty::Str),
            _ => Ty::Int,
        };
        return t;
    }
}

/// Any type of the module's universe, nesting bounded.
pub fn any_ty(rng: &mut Rng, m: &Module, with_id: bool, depth: usize) -> Ty {
    let k = if depth >= 2 { rng.below(6) } else { rng.below(10) };
    match k {
        0..=4 => scalar_ty(rng, m, with_id),
        5 if !m.structs.is_empty() => {
            let s = rng.usize(m.structs.len());
            if !with_id && Ty::Struct(s).contains_id(m) { Ty::Int } else { Ty::Struct(s) }
        }
        5 => Ty::Bool,
        6 | 7 => Ty::opt(any_ty(rng, m, with_id, depth + 1)),
        _ => Ty::res(any_ty(rng, m, with_id, depth + 1), any_ty(rng, m, with_id, depth + 1)),
    }
}

pub fn gen_skeleton(rng: &mut Rng) -> Module {
    let mut m = Module::default();
    for e in 0..rng.urange(1, 3) {
        let n = rng.urange(2, 4);
        m.enums.push(EnumDef {
            name: format!("En{e}"),
            variants: (0..n).map(|k| format!("V{k}")).collect(),
        });
    }
    // Struct family: S0 base, S1 superset of S0, S2 permutation of S0 (cast compatible),
    // S3 nests S0, optional extras.
    let mut fld = 0usize;
    let mut fresh = |rng: &mut Rng, m: &Module, with_id: bool, depth: usize| {
        let t = if depth == 0 { any_ty(rng, m, with_id, 1) } else { scalar_ty(rng, m, with_id) };
        let n = format!("f{}", (b'a' + (fld % 26) as u8) as char);
        let n = if fld >= 26 { format!("{n}{}", fld / 26) } else { n };
        fld += 1;
        (n, t)
    };
    let with_id = rng.chance(1, 3);
    let n0 = rng.urange(1, 3);
    let base: Vec<(String, Ty)> = (0..n0).map(|_| fresh(rng, &m, with_id, 1)).collect();
    m.structs.push(StructDef { name: "S0".into(), fields: base.clone(), insert_base: None, kind: StructKind::Plain });
    let mut sup = base.clone();
    for _ in 0..rng.urange(1, 2) {
        sup.push(fresh(rng, &m, false, 0));
    }
    m.structs.push(StructDef {
        name: "S1".into(),
        fields: sup,
        insert_base: if rng.bool() { Some(0) } else { None },
        kind: StructKind::Plain,
    });
    let mut perm = base.clone();
    rng.shuffle(&mut perm);
    m.structs.push(StructDef { name: "S2".into(), fields: perm, insert_base: None, kind: StructKind::Plain });
    if rng.bool() {
        let mut f = vec![("inner".to_string(), Ty::Struct(0))];
        f.push(fresh(rng, &m, false, 1));
        m.structs.push(StructDef { name: "S3".into(), fields: f, insert_base: None, kind: StructKind::Plain });
    }
    if rng.bool() {
        // disjoint second composition source: fields of S1 that are not in S0
        let extra: Vec<(String, Ty)> = m.structs[1].fields[n0..].to_vec();
        m.structs.push(StructDef { name: "S4".into(), fields: extra, insert_base: None, kind: StructKind::Plain });
    }
    if rng.chance(1, 6) {
        // a struct without fields (legal: `struct_def = "{" list? "}"`)
        let n = format!("S{}", m.structs.len() + 1);
        m.structs.push(StructDef { name: n, fields: vec![], insert_base: None, kind: StructKind::Plain });
    }
    for g in 0..rng.urange(0, 2) {
        let t = loop {
            let t = any_ty(rng, &m, false, 1);
            if literal_ok(&m, &t) {
                break t;
            }
        };
        let v = gen_lit(rng, &m, &t);
        m.globals.push((format!("g{g}"), t, v));
    }
    m
}

// ---------------------------------------------------------------------------------------------
// Function bodies
// ---------------------------------------------------------------------------------------------

pub struct Cx<'a> {
    pub rng: &'a mut Rng,
    pub m: &'a Module,
    /// functions with index < callable may be called
    pub callable: usize,
    pub cfg: &'a GenCfg,
    scopes: Vec<Vec<(String, Ty)>>,
    ret: Ty,
    nodes: usize,
    next_var: usize,
    closed: Vec<String>,
    pub probe_ctr: i64,
    pub ctx: Ctx,
}

impl<'a> Cx<'a> {
    pub fn new(rng: &'a mut Rng, m: &'a Module, callable: usize, cfg: &'a GenCfg, params: &[(String, Ty)], ret: Ty) -> Self {
        Cx {
            rng,
            m,
            callable,
            cfg,
            scopes: vec![params.to_vec()],
            ret,
            nodes: cfg.max_nodes,
            next_var: 0,
            closed: vec![],
            probe_ctr: 0,
            ctx: Ctx::Pure,
        }
    }

    fn visible(&self, n: &str) -> bool {
        self.scopes.iter().any(|s| s.iter().any(|(k, _)| k == n))
            || self.m.globals.iter().any(|(k, _, _)| k == n)
    }

    fn vars_of(&self, t: &Ty) -> Vec<String> {
        let mut v: Vec<String> = self
            .scopes
            .iter()
            .flatten()
            .filter(|(_, vt)| vt == t)
            .map(|(n, _)| n.clone())
            .collect();
        v.extend(self.m.globals.iter().filter(|(_, gt, _)| gt == t).map(|(n, _, _)| n.clone()));
        v
    }

    fn has_id(&self) -> bool {
        !self.vars_of(&Ty::Id).is_empty()
    }

    /// Can an expression of this type be produced here (ids need an id variable)?
    fn producible(&self, t: &Ty) -> bool {
        literal_ok(self.m, t) || self.has_id() || !self.vars_of(t).is_empty()
    }

    fn fresh_name(&mut self) -> String {
        if self.cfg.reuse_names && !self.closed.is_empty() && self.rng.chance(2, 3) {
            let cands: Vec<String> =
                self.closed.iter().filter(|n| !self.visible(n)).cloned().collect();
            if !cands.is_empty() {
                return self.rng.pick(&cands).clone();
            }
        }
        loop {
            let n = format!("v{}", self.next_var);
            self.next_var += 1;
            if !self.visible(&n) {
                return n;
            }
        }
    }

    pub fn visible_vars(&self) -> Vec<(String, Ty)> {
        self.scopes.iter().flatten().cloned().collect()
    }
    pub fn push_scope(&mut self) {
        self.push();
    }
    pub fn pop_scope(&mut self) {
        self.pop();
    }
    pub fn bind_var(&mut self, n: &str, t: Ty) {
        self.bind(n, t);
    }
    pub fn fresh(&mut self) -> String {
        self.fresh_name()
    }
    pub fn can_produce(&self, t: &Ty) -> bool {
        self.producible(t)
    }

    fn push(&mut self) {
        self.scopes.push(vec![]);
    }
    fn pop(&mut self) {
        let s = self.scopes.pop().expect("scope");
        for (n, _) in s {
            if !self.closed.contains(&n) {
                self.closed.push(n);
            }
        }
    }
    fn bind(&mut self, n: &str, t: Ty) {
        debug_assert!(!self.visible(n));
        self.scopes.last_mut().unwrap().push((n.into(), t));
    }

    fn pick_ty(&mut self) -> Ty {
        for _ in 0..8 {
            let t = any_ty(self.rng, self.m, self.has_id(), 0);
            if self.producible(&t) {
                return t;
            }
        }
        Ty::Int
    }

    fn next_probe(&mut self) -> i64 {
        self.probe_ctr += 1;
        self.probe_ctr
    }

    fn leaf(&mut self, t: &Ty) -> Expr {
        let vars = self.vars_of(t);
        if !vars.is_empty() && (self.rng.chance(4, 5) || !literal_ok(self.m, t)) {
            return Expr::Var(self.rng.pick(&vars).clone());
        }
        match t {
            Ty::Id => {
                let ids = self.vars_of(&Ty::Id);
                if ids.is_empty() {
                    // unreachable by construction (id-typed positions require an id variable)
                    return Expr::Todo;
                }
                Expr::Var(self.rng.pick(&ids).clone())
            }
            Ty::Struct(s) if !literal_ok(self.m, t) => {
                let fs = self.m.structs[*s].fields.clone();
                Expr::StructLit(*s, fs.iter().map(|(n, ft)| (n.clone(), self.leaf(ft))).collect(), vec![])
            }
            Ty::Opt(x) if !literal_ok(self.m, x) => {
                if self.rng.bool() {
                    Expr::Lit(Val::none())
                } else {
                    Expr::Some(Box::new(self.leaf(x)))
                }
            }
            Ty::Res(a, b) if !literal_ok(self.m, a) || !literal_ok(self.m, b) => {
                if self.rng.bool() {
                    Expr::Ok(Box::new(self.leaf(a)))
                } else {
                    Expr::Err(Box::new(self.leaf(b)))
                }
            }
            _ => Expr::Lit(gen_lit(self.rng, self.m, t)),
        }
    }

    pub fn never(&mut self, depth: usize) -> Expr {
        if self.rng.chance(1, 3) {
            return Expr::Todo;
        }
        match self.ctx.clone() {
            Ctx::Pure => {
                let rt = self.ret.clone();
                Expr::Return(Box::new(self.expr(&rt, depth.saturating_sub(1).min(2), false)))
            }
            Ctx::Policy(recalls) if !recalls.is_empty() => {
                let (n, ps) = self.rng.pick(&recalls).clone();
                let args = ps.iter().map(|(_, t)| self.expr(t, depth.saturating_sub(1).min(2), false)).collect();
                Expr::Recall(n, args)
            }
            _ => Expr::Todo,
        }
    }

    /// Fact literal for queries: leading keys given, trailing keys bound; values omitted,
    /// or listed with a mix of expressions and binds.
    pub fn query_lit(&mut self, fact: usize, d: usize) -> FactLit {
        let def = self.m.facts[fact].clone();
        let given = self.rng.urange(0, def.keys.len());
        let keys = def
            .keys
            .iter()
            .enumerate()
            .map(|(i, (n, t))| (n.clone(), if i < given { Some(self.expr(t, d.min(2), false)) } else { None }))
            .collect();
        let vals = if !def.vals.is_empty() && self.rng.chance(1, 3) {
            Some(
                def.vals
                    .iter()
                    .map(|(n, t)| (n.clone(), if self.rng.bool() && self.producible(t) { Some(self.expr(t, d.min(2), false)) } else { None }))
                    .collect(),
            )
        } else {
            None
        };
        FactLit { fact, keys, vals }
    }

    fn fact_struct(&self, fact: usize) -> Option<usize> {
        let n = &self.m.facts[fact].name;
        self.m.structs.iter().position(|s| s.kind == StructKind::FactMirror && s.name == *n)
    }

    pub fn block(&mut self, t: &Ty, depth: usize, nv: bool) -> Block {
        self.push();
        let n = if self.nodes > 6 { self.rng.urange(0, 2) } else { 0 };
        let mut ss = vec![];
        for _ in 0..n {
            if let Some(s) = self.stmt(depth, false) {
                ss.push(s);
            }
        }
        let e = self.expr(t, depth, nv);
        self.pop();
        (ss, e)
    }

    /// Distinct literal patterns + optional binding/default arms for a scrutinee type.
    /// Returns arms as (pattern, binding (name, type)).
    fn patterns(&mut self, st: &Ty) -> Vec<(Pat, Option<(String, Ty)>)> {
        let mut arms: Vec<(Pat, Option<(String, Ty)>)> = vec![];
        let mut lits: Vec<Val> = vec![];
        let mut need_default = true;
        match st {
            Ty::Bool => {
                if self.rng.bool() {
                    let first = self.rng.bool();
                    add_lits(self.rng, &mut arms, &mut lits, vec![Val::Bool(first), Val::Bool(!first)]);
                    need_default = self.rng.chance(1, 4);
                } else {
                    let b = self.rng.bool();
                    add_lits(self.rng, &mut arms, &mut lits, vec![Val::Bool(b)]);
                }
            }
            Ty::Enum(e) => {
                let n = self.m.enums[*e].variants.len();
                let mut ks: Vec<usize> = (0..n).collect();
                self.rng.shuffle(&mut ks);
                let all = self.rng.bool();
                let take = if all { n } else { self.rng.urange(1, n - 1) };
                add_lits(self.rng, &mut arms, &mut lits, ks[..take].iter().map(|k| Val::Enum(*e, *k)).collect());
                need_default = !all || self.rng.chance(1, 4);
            }
            Ty::Opt(x) if self.cfg.quirk_bind_alt && self.rng.bool() => {
                let n = self.fresh_name();
                let mut items = vec![PatItem::Lit(Val::none()), PatItem::BindSome(n.clone())];
                if self.rng.bool() {
                    items.swap(0, 1);
                }
                arms.push((Pat::Vals(items), Some((n, (**x).clone()))));
                need_default = self.rng.bool();
            }
            Ty::Res(a, _) if self.cfg.quirk_bind_alt && self.rng.bool() => {
                let n = self.fresh_name();
                let e = self.fresh_name();
                let mut items = vec![PatItem::BindOk(n.clone()), PatItem::BindErr(e)];
                if self.rng.bool() {
                    items.swap(0, 1);
                }
                arms.push((Pat::Vals(items), Some((n, (**a).clone()))));
                need_default = self.rng.bool();
            }
            Ty::Opt(x) => {
                let mut cands = vec![];
                let none_first = self.rng.bool();
                if none_first || self.rng.bool() {
                    cands.push(Val::none());
                }
                if literal_ok(self.m, x) {
                    for _ in 0..self.rng.urange(0, 2) {
                        cands.push(Val::some(gen_lit(self.rng, self.m, x)));
                    }
                }
                if !none_first {
                    self.rng.shuffle(&mut cands);
                }
                let has_none = cands.contains(&Val::none());
                add_lits(self.rng, &mut arms, &mut lits, cands);
                if self.rng.chance(2, 3) {
                    let n = self.fresh_name();
                    arms.push((Pat::Vals(vec![PatItem::BindSome(n.clone())]), Some((n, (**x).clone()))));
                    if has_none {
                        need_default = self.rng.chance(1, 4);
                    }
                }
            }
            Ty::Res(a, b) => {
                let mut cands = vec![];
                if literal_ok(self.m, a) {
                    for _ in 0..self.rng.urange(0, 2) {
                        cands.push(Val::ok(gen_lit(self.rng, self.m, a)));
                    }
                }
                if literal_ok(self.m, b) {
                    for _ in 0..self.rng.urange(0, 2) {
                        cands.push(Val::err(gen_lit(self.rng, self.m, b)));
                    }
                }
                self.rng.shuffle(&mut cands);
                add_lits(self.rng, &mut arms, &mut lits, cands);
                let ok_b = self.rng.chance(2, 3);
                let err_b = self.rng.chance(2, 3);
                let mut binds = vec![];
                if ok_b {
                    binds.push(true);
                }
                if err_b {
                    binds.push(false);
                }
                self.rng.shuffle(&mut binds);
                for is_ok in binds {
                    let n = self.fresh_name();
                    // binding names of different arms may coincide only if not visible; each arm
                    // has its own scope so a fresh name per arm is always fine.
                    if is_ok {
                        arms.push((Pat::Vals(vec![PatItem::BindOk(n.clone())]), Some((n, (**a).clone()))));
                    } else {
                        arms.push((Pat::Vals(vec![PatItem::BindErr(n.clone())]), Some((n, (**b).clone()))));
                    }
                }
                if ok_b && err_b {
                    need_default = self.rng.chance(1, 4);
                }
            }
            t => {
                // int / string / struct / id-free anything: literals + default
                let n = self.rng.urange(1, 3);
                let cands: Vec<Val> = (0..n).map(|_| gen_lit(self.rng, self.m, t)).collect();
                add_lits(self.rng, &mut arms, &mut lits, cands);
            }
        }
        if need_default || arms.is_empty() {
            arms.push((Pat::Default, None));
        }
        arms
    }

    fn scrutinee_ty(&mut self) -> Ty {
        for _ in 0..8 {
            let t = match self.rng.below(8) {
                0 => Ty::Bool,
                1 => Ty::Int,
                2 => Ty::Str,
                3 => Ty::Enum(self.rng.usize(self.m.enums.len())),
                4 | 5 => Ty::opt(any_ty(self.rng, self.m, self.has_id(), 2)),
                6 => Ty::res(any_ty(self.rng, self.m, self.has_id(), 2), any_ty(self.rng, self.m, self.has_id(), 2)),
                _ => {
                    let s = self.rng.usize(self.m.structs.len());
                    Ty::Struct(s)
                }
            };
            let lit_needed = !matches!(t, Ty::Opt(_) | Ty::Res(..));
            if self.producible(&t) && (!lit_needed || literal_ok(self.m, &t)) {
                return t;
            }
        }
        Ty::Int
    }

    /// Expression of type `t`. `nv`: the expression may be statically of type never.
    pub fn expr(&mut self, t: &Ty, depth: usize, nv: bool) -> Expr {
        if self.nodes == 0 || depth == 0 {
            return self.leaf(t);
        }
        self.nodes -= 1;
        let d = depth - 1;
        if nv && self.cfg.never_exprs && depth + 2 <= self.cfg.max_depth && self.rng.chance(1, 24) {
            return self.never(d);
        }
        // type-directed constructors first, generic ones after
        let roll = self.rng.below(100);
        // generic productions (any type)
        if roll < 10 {
            let c = self.expr(&Ty::Bool, d, true);
            let a = self.block(t, d, nv);
            let b = self.block(t, d, nv);
            return Expr::If(Box::new(c), Box::new(a), Box::new(b));
        }
        if roll < 15 {
            return Expr::Block(Box::new(self.block(t, d, nv)));
        }
        if roll < 25 {
            let st = self.scrutinee_ty();
            let s = self.expr(&st, d, false);
            let pats = self.patterns(&st);
            let holes = has_hole(&s);
            let mut arms = vec![];
            for (p, b) in pats {
                self.push();
                if let Some((n, bt)) = b {
                    self.bind(&n, if holes { never_marker() } else { bt });
                }
                let e = self.expr(t, d, nv);
                self.pop();
                arms.push((p, e));
            }
            return Expr::Match(Box::new(s), arms);
        }
        if roll < 33 {
            let fs: Vec<usize> = (0..self.callable)
                .filter(|f| {
                    self.m.funcs[*f].ret == *t && self.m.funcs[*f].params.iter().all(|(_, pt)| self.producible(pt))
                })
                .collect();
            if !fs.is_empty() {
                let f = *self.rng.pick(&fs);
                let ps = self.m.funcs[f].params.clone();
                let args = ps.iter().map(|(_, pt)| self.expr(pt, d, true)).collect();
                return Expr::Call(f, args);
            }
        }
        if roll < 41 {
            let a = self.expr(&Ty::opt(t.clone()), d, false);
            let b = self.expr(t, d, nv);
            return Expr::Coalesce(Box::new(a), Box::new(b));
        }
        if roll < 48 {
            // field access on a struct that has a field of this type
            let mut cands = vec![];
            for (si, s) in self.m.structs.iter().enumerate() {
                for (n, ft) in &s.fields {
                    if ft == t && self.producible(&Ty::Struct(si)) {
                        cands.push((si, n.clone()));
                    }
                }
            }
            if !cands.is_empty() {
                let (si, f) = self.rng.pick(&cands).clone();
                let s = self.expr(&Ty::Struct(si), d, false);
                return Expr::Dot(Box::new(s), f);
            }
        }
        if self.cfg.facts && !self.m.facts.is_empty() && self.rng.chance(1, 4) {
            let fact = self.rng.usize(self.m.facts.len());
            match t {
                Ty::Bool => {
                    let f = Box::new(self.query_lit(fact, d));
                    return match self.rng.below(5) {
                        0 | 1 => Expr::Exists(f),
                        2 => Expr::Count(CountKind::AtLeast, self.rng.range(1, 3) as i64, f),
                        3 => Expr::Count(CountKind::AtMost, self.rng.range(1, 3) as i64, f),
                        _ => Expr::Count(CountKind::Exactly, self.rng.range(1, 3) as i64, f),
                    };
                }
                Ty::Int => {
                    let f = Box::new(self.query_lit(fact, d));
                    return Expr::Count(CountKind::UpTo, self.rng.range(1, 5) as i64, f);
                }
                Ty::Opt(x) if matches!(**x, Ty::Struct(s) if Some(s) == self.fact_struct(fact)) => {
                    return Expr::Query(Box::new(self.query_lit(fact, d)));
                }
                _ => {}
            }
        }
        match t {
            Ty::Bool => match self.rng.below(12) {
                0 => Expr::Not(Box::new(self.expr(&Ty::Bool, d, true))),
                1 | 2 => {
                    let a = self.expr(&Ty::Bool, d, true);
                    let b = self.expr(&Ty::Bool, d, true);
                    Expr::And(Box::new(a), Box::new(b))
                }
                3 | 4 => {
                    let a = self.expr(&Ty::Bool, d, true);
                    let b = self.expr(&Ty::Bool, d, true);
                    Expr::Or(Box::new(a), Box::new(b))
                }
                5 | 6 => {
                    let op = *self.rng.pick(&[CmpOp::Lt, CmpOp::Le, CmpOp::Gt, CmpOp::Ge]);
                    let a = self.expr(&Ty::Int, d, true);
                    let b = self.expr(&Ty::Int, d, true);
                    Expr::Cmp(op, Box::new(a), Box::new(b))
                }
                7 | 8 => {
                    let ot = self.pick_ty();
                    let op = if self.rng.bool() { CmpOp::Eq } else { CmpOp::Ne };
                    let a = self.expr(&ot, d, true);
                    let b = if self.rng.chance(1, 4) { a.clone_pure().unwrap_or_else(|| self.expr(&ot, d, true)) } else { self.expr(&ot, d, true) };
                    Expr::Cmp(op, Box::new(a), Box::new(b))
                }
                9 => {
                    let ot = Ty::opt(self.pick_ty());
                    let a = self.expr(&ot, d, false);
                    Expr::Is(Box::new(a), self.rng.bool())
                }
                10 if self.cfg.probes => {
                    let n = self.next_probe();
                    Expr::Probe(ProbeFn::Flag, Box::new(Expr::Lit(Val::Int(n))))
                }
                _ => self.leaf(t),
            },
            Ty::Int => match self.rng.below(8) {
                0..=3 => {
                    let op = if self.rng.bool() { ArithOp::SatAdd } else { ArithOp::SatSub };
                    let a = self.expr(&Ty::Int, d, true);
                    let b = self.expr(&Ty::Int, d, true);
                    Expr::Arith(op, Box::new(a), Box::new(b))
                }
                4 if self.cfg.probes => {
                    let a = if self.rng.bool() {
                        let n = self.next_probe();
                        Expr::Lit(Val::Int(n))
                    } else {
                        self.expr(&Ty::Int, d, true)
                    };
                    let f = if self.cfg.fail_probe && self.rng.chance(1, 10) { ProbeFn::Fail } else { ProbeFn::Hit };
                    Expr::Probe(f, Box::new(a))
                }
                _ => self.leaf(t),
            },
            Ty::Opt(x) => {
                let k = self.rng.below(8);
                if **x == Ty::Int && k < 3 {
                    let op = if self.rng.bool() { ArithOp::Add } else { ArithOp::Sub };
                    let a = self.expr(&Ty::Int, d, true);
                    let b = self.expr(&Ty::Int, d, true);
                    Expr::Arith(op, Box::new(a), Box::new(b))
                } else if **x == Ty::Int && k == 3 && self.cfg.probes {
                    let a = self.expr(&Ty::Int, d, true);
                    Expr::Probe(ProbeFn::Opt, Box::new(a))
                } else if k < 6 && self.producible(x) {
                    Expr::Some(Box::new(self.expr(x, d, true)))
                } else if k == 6 {
                    Expr::Lit(Val::none())
                } else {
                    self.leaf(t)
                }
            }
            Ty::Res(a, b) => {
                let k = self.rng.below(5);
                if k < 2 && self.producible(a) {
                    Expr::Ok(Box::new(self.expr(a, d, true)))
                } else if k < 4 && self.producible(b) {
                    Expr::Err(Box::new(self.expr(b, d, true)))
                } else {
                    self.leaf(t)
                }
            }
            Ty::Struct(s) => self.struct_expr(*s, d),
            _ => self.leaf(t),
        }
    }

    fn struct_expr(&mut self, s: usize, d: usize) -> Expr {
        let def = self.m.structs[s].clone();
        let k = self.rng.below(10);
        // substruct from a superset struct
        if k < 2 {
            let sups: Vec<usize> = (0..self.m.structs.len())
                .filter(|&o| {
                    o != s
                        && def.fields.iter().all(|f| self.m.structs[o].fields.contains(f))
                        && self.producible(&Ty::Struct(o))
                })
                .collect();
            if !sups.is_empty() {
                let o = *self.rng.pick(&sups);
                let e = self.expr(&Ty::Struct(o), d, false);
                return Expr::Substruct(Box::new(e), s);
            }
        }
        // cast from a struct with the same field set
        if k < 4 {
            let same: Vec<usize> = (0..self.m.structs.len())
                .filter(|&o| {
                    let of = &self.m.structs[o].fields;
                    of.len() == def.fields.len()
                        && def.fields.iter().all(|f| of.contains(f))
                        && self.producible(&Ty::Struct(o))
                })
                .collect();
            if !same.is_empty() {
                let o = *self.rng.pick(&same);
                let e = self.expr(&Ty::Struct(o), d, false);
                return Expr::Cast(Box::new(e), s);
            }
        }
        // composition from visible struct variables whose fields are a strict subset
        if k < 7 {
            let mut srcs: Vec<(String, usize)> = vec![];
            for sc in &self.scopes {
                for (n, vt) in sc {
                    if let Ty::Struct(o) = vt {
                        let of = &self.m.structs[*o].fields;
                        // `this` is a keyword, not an identifier: `...this` does not parse
                        if n != "this" && of.iter().all(|f| def.fields.contains(f)) {
                            srcs.push((n.clone(), *o));
                        }
                    }
                }
            }
            for (n, gt, _) in &self.m.globals {
                if let Ty::Struct(o) = gt {
                    if self.m.structs[*o].fields.iter().all(|f| def.fields.contains(f)) {
                        srcs.push((n.clone(), *o));
                    }
                }
            }
            if !srcs.is_empty() {
                self.rng.shuffle(&mut srcs);
                let mut chosen: Vec<(String, usize)> = vec![];
                let mut covered: Vec<String> = vec![];
                // explicit overrides first (may shadow source fields)
                let mut explicit: Vec<String> = vec![];
                for (n, _) in &def.fields {
                    if self.rng.chance(1, 4) {
                        explicit.push(n.clone());
                    }
                }
                for (n, o) in srcs {
                    let fields: Vec<String> = self.m.structs[o]
                        .fields
                        .iter()
                        .map(|(f, _)| f.clone())
                        .filter(|f| !explicit.contains(f))
                        .collect();
                    if fields.is_empty() || fields.iter().any(|f| covered.contains(f)) {
                        continue;
                    }
                    covered.extend(fields);
                    chosen.push((n, o));
                    if chosen.len() == 2 || self.rng.bool() {
                        break;
                    }
                }
                if !chosen.is_empty() {
                    for (n, _) in &def.fields {
                        if !covered.contains(n) && !explicit.contains(n) {
                            explicit.push(n.clone());
                        }
                    }
                    // "no-op composition" is rejected: explicit fields must not cover everything
                    if explicit.len() < def.fields.len() {
                        let mut fs = vec![];
                        for (n, ft) in &def.fields {
                            if explicit.contains(n) {
                                fs.push((n.clone(), self.expr(ft, d, true)));
                            }
                        }
                        if self.rng.bool() {
                            self.rng.shuffle(&mut fs);
                        }
                        return Expr::StructLit(s, fs, chosen.into_iter().map(|(n, _)| n).collect());
                    }
                }
            }
        }
        let mut fs: Vec<(String, Expr)> =
            def.fields.iter().map(|(n, ft)| (n.clone(), self.expr(ft, d, true))).collect();
        if self.rng.chance(1, 3) {
            self.rng.shuffle(&mut fs);
        }
        if self.cfg.quirk_partial_struct && fs.len() > 1 && self.rng.chance(1, 3) {
            let k = self.rng.usize(fs.len());
            fs.remove(k);
        }
        Expr::StructLit(s, fs, vec![])
    }

    fn stmt_list(&mut self, depth: usize, max: usize, may_return: bool) -> Vec<Stmt> {
        let mut ss = vec![];
        let n = self.rng.urange(0, max);
        for _ in 0..n {
            if let Some(s) = self.stmt(depth, may_return) {
                let stop = matches!(s, Stmt::Return(_));
                ss.push(s);
                if stop {
                    break;
                }
            }
        }
        ss
    }

    /// One statement valid in a pure function body / block expression.
    pub fn stmt(&mut self, depth: usize, may_return: bool) -> Option<Stmt> {
        if self.nodes == 0 {
            return None;
        }
        self.nodes -= 1;
        let d = depth.saturating_sub(1);
        Some(match self.rng.below(16) {
            0..=6 => {
                let t = self.pick_ty();
                let e = self.expr(&t, d, false);
                let n = self.fresh_name();
                // NB `let v = None` gives v the static type option[never]; that is kept on purpose
                // (uses such as `v or 3`, `v is None` are valid); only bindings taken from it and
                // then used structurally are rejected by the compiler - rare, counted as rejects.
                self.bind(&n, t);
                Stmt::Let(n, e)
            }
            7 | 8 => {
                let c = self.expr(&Ty::Bool, d, true);
                let c = if self.rng.bool() { Expr::Or(Box::new(c), Box::new(Expr::Lit(Val::Bool(true)))) } else { c };
                let e = self.never(d.min(3));
                Stmt::Check(c, e)
            }
            9 => {
                let c = self.expr(&Ty::Bool, d, true);
                // bias towards passing so that evaluation continues most of the time
                let c = if self.rng.chance(2, 3) { Expr::Or(Box::new(c), Box::new(Expr::Lit(Val::Bool(true)))) } else { c };
                Stmt::DebugAssert(c)
            }
            10..=12 => {
                let nb = self.rng.urange(1, 2);
                let mut brs = vec![];
                for _ in 0..nb {
                    let c = self.expr(&Ty::Bool, d, true);
                    self.push();
                    let b = self.stmt_list(d, 2, may_return);
                    self.pop();
                    brs.push((c, b));
                }
                let fb = if self.rng.bool() {
                    self.push();
                    let b = self.stmt_list(d, 2, may_return);
                    self.pop();
                    Some(b)
                } else {
                    None
                };
                Stmt::If(brs, fb)
            }
            13 | 14 => {
                let st = self.scrutinee_ty();
                let s = self.expr(&st, d, false);
                let pats = self.patterns(&st);
                let holes = has_hole(&s);
                let mut arms = vec![];
                for (p, b) in pats {
                    self.push();
                    if let Some((n, bt)) = b {
                        self.bind(&n, if holes { never_marker() } else { bt });
                    }
                    let body = self.stmt_list(d, 2, may_return);
                    self.pop();
                    arms.push((p, body));
                }
                Stmt::Match(s, arms)
            }
            _ if may_return => {
                let rt = self.ret.clone();
                Stmt::Return(self.expr(&rt, d, true))
            }
            _ => return None,
        })
    }

    pub fn body(&mut self) -> Vec<Stmt> {
        let depth = self.cfg.max_depth;
        let mut ss = vec![];
        let n = self.rng.urange(0, 3);
        for _ in 0..n {
            if let Some(s) = self.stmt(depth, true) {
                let stop = matches!(s, Stmt::Return(_));
                ss.push(s);
                if stop {
                    return ss;
                }
            }
        }
        let rt = self.ret.clone();
        if self.cfg.fall_off && self.rng.chance(1, 25) {
            // may run off the end: the only return sits in a conditional
            let c = self.expr(&Ty::Bool, 2, true);
            let e = self.expr(&rt, depth.min(3), true);
            ss.push(Stmt::If(vec![(c, vec![Stmt::Return(e)])], None));
        } else {
            // give the final expression whatever budget is left (at least a few nodes)
            self.nodes = self.nodes.max(6);
            ss.push(Stmt::Return(self.expr(&rt, depth, true)));
        }
        ss
    }
}

/// Group candidate literals into arms of 1-2 alternatives, skipping duplicates.
fn add_lits(rng: &mut Rng, arms: &mut Vec<(Pat, Option<(String, Ty)>)>, lits: &mut Vec<Val>, cands: Vec<Val>) {
    let mut cur = vec![];
    for v in cands {
        if lits.contains(&v) {
            continue;
        }
        lits.push(v.clone());
        cur.push(PatItem::Lit(v));
        if rng.chance(2, 3) {
            arms.push((Pat::Vals(std::mem::take(&mut cur)), None));
        }
    }
    if !cur.is_empty() {
        arms.push((Pat::Vals(cur), None));
    }
}

/// Marker type for variables whose static type is `never` (bindings of a scrutinee whose
/// type has holes, e.g. `match None { Some(x) => .. }`): never requested by the generator.
pub fn never_marker() -> Ty {
    Ty::res(Ty::res(Ty::Id, Ty::Id), Ty::Id)
}

fn val_has_hole(v: &Val) -> bool {
    match v {
        Val::Opt(None) | Val::Res(_) => true,
        Val::Opt(Some(x)) => val_has_hole(x),
        _ => false,
    }
}

/// Does the compiler infer a type with `never` holes for this expression (approximation,
/// erring on the side of "yes")?
pub fn has_hole(e: &Expr) -> bool {
    match e {
        Expr::Lit(v) => val_has_hole(v),
        Expr::Some(x) => has_hole(x),
        Expr::Ok(_) | Expr::Err(_) | Expr::Todo | Expr::Return(_) | Expr::Recall(..) => true,
        Expr::If(_, t, f) => has_hole(&t.1) || has_hole(&f.1),
        Expr::Block(b) => has_hole(&b.1),
        Expr::Match(_, arms) => arms.iter().any(|(_, x)| has_hole(x)),
        Expr::Coalesce(a, b) => has_hole(a) || has_hole(b),
        _ => false,
    }
}

impl Expr {
    /// Clone when the expression is a plain literal / variable (used to build `x == x`).
    fn clone_pure(&self) -> Option<Expr> {
        match self {
            Expr::Lit(_) | Expr::Var(_) => Some(self.clone()),
            _ => None,
        }
    }
}

/// A full random module: skeleton + 3-8 pure functions, later ones may call earlier ones.
pub fn gen_module(rng: &mut Rng, cfg: &GenCfg) -> Module {
    let mut m = gen_skeleton(rng);
    let nf = rng.urange(3, 8);
    let mut probe_ctr = 0i64;
    for fi in 0..nf {
        let np = rng.urange(0, 4);
        let mut params: Vec<(String, Ty)> = vec![];
        let with_id = rng.chance(1, 4);
        for p in 0..np {
            let t = match rng.below(6) {
                0 | 1 => Ty::Int,
                2 => Ty::Bool,
                _ => any_ty(rng, &m, with_id, 0),
            };
            params.push((format!("p{p}"), t));
        }
        let mut ret = any_ty(rng, &m, with_id, 0);
        if rng.chance(1, 3) {
            ret = Ty::Int;
        }
        let has_id_param = params.iter().any(|(_, t)| *t == Ty::Id);
        if !has_id_param && (ret.contains_id(&m) || params.iter().any(|(_, t)| t.contains_id(&m))) {
            params.push((format!("p{np}"), Ty::Id));
        }
        let body = {
            let mut cx = Cx::new(rng, &m, fi, cfg, &params, ret.clone());
            cx.probe_ctr = probe_ctr;
            let b = cx.body();
            probe_ctr = cx.probe_ctr;
            b
        };
        m.funcs.push(FuncDef { name: format!("fn{fi}"), params, ret, body });
    }
    m
}

/// Argument vectors for a function: structured boundary sweeps + random.
pub fn gen_args(rng: &mut Rng, m: &Module, f: &FuncDef, n: usize) -> Vec<Vec<Val>> {
    let mut out: Vec<Vec<Val>> = vec![];
    if f.params.is_empty() {
        return vec![vec![]];
    }
    for i in 0..n {
        let mut v = vec![];
        for (pi, (_, t)) in f.params.iter().enumerate() {
            v.push(arg_val(rng, m, t, i + pi * 3));
        }
        if !out.contains(&v) {
            out.push(v);
        }
    }
    out
}

fn arg_val(rng: &mut Rng, m: &Module, t: &Ty, i: usize) -> Val {
    match t {
        // sweep the boundaries deterministically first, then random
        Ty::Int if i < 7 => Val::Int(INT_BOUNDS[i % 7]),
        Ty::Enum(e) => Val::Enum(*e, i % m.enums[*e].variants.len()),
        Ty::Str if i == 0 => Val::Str(String::new()),
        Ty::Str if i == 1 => Val::Str("x".repeat(300)),
        Ty::Opt(x) => match i % 3 {
            0 => Val::none(),
            _ => Val::some(arg_val(rng, m, x, i / 3)),
        },
        Ty::Res(a, b) => {
            if i % 2 == 0 {
                Val::ok(arg_val(rng, m, a, i / 2))
            } else {
                Val::err(arg_val(rng, m, b, i / 2))
            }
        }
        Ty::Struct(s) => Val::Struct(
            *s,
            m.structs[*s]
                .fields
                .iter()
                .enumerate()
                .map(|(k, (n, ft))| (n.clone(), arg_val(rng, m, ft, i + k)))
                .collect::<BTreeMap<_, _>>(),
        ),
        _ => gen_val(rng, m, t, true, 0),
    }
}
