//! polkit: typed IR of the policy language, printer, reference evaluator, generators and the
//! monitoring `MachineIO` used by the policy-toolchain monitors (C22-C24, C28-C30).
pub mod bombs;
pub mod cmdgen;
pub mod eval;
pub mod r#gen;
pub mod io;
pub mod ir;
pub mod mutate;
pub mod print;
pub mod run;
