//! Glue: real parser + compiler + VM driven from the IR.
use aranya_policy_compiler::Compiler;
use aranya_policy_lang::lang::parse_policy_document;
use aranya_policy_vm::{
    ExitReason, Instruction, Label, LabelType, Machine, MachineError, MachineErrorType,
    MachineStatus, Stack as _, Value,
};

use crate::{
    io::{FFI_SCHEMAS, MonitorIO, ident_of, policy_ctx, to_vm},
    ir::{Module, Val},
};

#[derive(Debug)]
pub enum Rejected {
    Parse(String),
    Compile(String),
    Load(String),
}

/// Parse (document form) and compile with the probe FFI schema, debug mode ALWAYS on.
pub fn compile_doc(doc: &str) -> Result<Machine, Rejected> {
    let pol = parse_policy_document(doc).map_err(|e| Rejected::Parse(e.to_string()))?;
    let module = Compiler::new(&pol)
        .ffi_modules(FFI_SCHEMAS)
        .debug(true)
        .compile()
        .map_err(|e| Rejected::Compile(e.to_string()))?;
    Machine::from_module(module).map_err(|e| Rejected::Load(e.to_string()))
}

/// Value pushed below the arguments to detect over-trimming of the stack.
pub const SENTINEL: i64 = 0x5E17_1E7;

pub struct VmRun {
    pub exit: Result<ExitReason, MachineError>,
    /// stack at exit, bottom first (including the sentinel if untouched)
    pub stack: Vec<Value>,
    pub io: MonitorIO,
    pub steps: u64,
    /// instruction kinds executed
    pub kinds: Vec<&'static str>,
    /// kind of the last instruction executed (the failing one on errors)
    pub last_kind: &'static str,
}

pub fn kind_of(i: &Instruction) -> &'static str {
    match i {
        Instruction::Const(_) => "Const",
        Instruction::Identifier(_) => "Identifier",
        Instruction::Def(_) => "Def",
        Instruction::Get(_) => "Get",
        Instruction::Dup => "Dup",
        Instruction::Pop => "Pop",
        Instruction::Block => "Block",
        Instruction::End => "End",
        Instruction::Jump(_) => "Jump",
        Instruction::Branch(_) => "Branch",
        Instruction::Next => "Next",
        Instruction::Last => "Last",
        Instruction::Call(_) => "Call",
        Instruction::Recall(_) => "Recall",
        Instruction::ExtCall(..) => "ExtCall",
        Instruction::Return => "Return",
        Instruction::Exit(_) => "Exit",
        Instruction::Add => "Add",
        Instruction::Sub => "Sub",
        Instruction::SaturatingAdd => "SaturatingAdd",
        Instruction::SaturatingSub => "SaturatingSub",
        Instruction::Not => "Not",
        Instruction::Gt => "Gt",
        Instruction::Lt => "Lt",
        Instruction::Eq => "Eq",
        Instruction::FactNew(_) => "FactNew",
        Instruction::FactKeySet(_) => "FactKeySet",
        Instruction::FactValueSet(_) => "FactValueSet",
        Instruction::StructNew(_) => "StructNew",
        Instruction::StructSet(_) => "StructSet",
        Instruction::StructGet(_) => "StructGet",
        Instruction::MStructSet(_) => "MStructSet",
        Instruction::MStructGet(_) => "MStructGet",
        Instruction::Cast(_) => "Cast",
        Instruction::Wrap(_) => "Wrap",
        Instruction::Is(_) => "Is",
        Instruction::Unwrap(_) => "Unwrap",
        Instruction::Publish => "Publish",
        Instruction::Create => "Create",
        Instruction::Delete => "Delete",
        Instruction::Update => "Update",
        Instruction::Emit => "Emit",
        Instruction::Query => "Query",
        Instruction::FactCount(_) => "FactCount",
        Instruction::QueryStart => "QueryStart",
        Instruction::QueryNext(_) => "QueryNext",
        Instruction::Serialize => "Serialize",
        Instruction::Deserialize => "Deserialize",
        Instruction::SaveSP => "SaveSP",
        Instruction::RestoreSP => "RestoreSP",
        Instruction::Meta(_) => "Meta",
    }
}

pub const STEP_BUDGET: u64 = 200_000;

/// Run pure function `fname` on `args` in a fresh run state (single-stepped so instruction
/// kinds can be recorded). `None` exit = step budget exhausted (never a verdict).
pub fn run_function(machine: &Machine, m: &Module, fname: &str, args: &[Val], track_kinds: bool) -> Option<VmRun> {
    let mut io = MonitorIO::new();
    let mut kinds: Vec<&'static str> = vec![];
    let mut steps = 0u64;
    let mut last_kind = "?";
    let (exit, stack) = {
        let mut rs = machine.create_run_state(&mut io, policy_ctx(fname));
        if let Err(e) = rs.set_pc_by_label(&Label::new(ident_of(fname), LabelType::Function)) {
            return Some(VmRun { exit: Err(e), stack: vec![], io, steps, kinds, last_kind: "?" });
        }
        rs.stack.push(Value::Int(SENTINEL)).expect("push sentinel");
        for a in args {
            rs.stack.push_value(to_vm(m, a)).expect("push arg");
        }
        let exit = loop {
            if steps >= STEP_BUDGET {
                return None;
            }
            steps += 1;
            if let Some(i) = machine.progmem.get(rs.pc()) {
                let k = kind_of(i);
                last_kind = k;
                if track_kinds && !kinds.contains(&k) {
                    kinds.push(k);
                }
            }
            match rs.step() {
                Ok(MachineStatus::Executing) => {}
                Ok(MachineStatus::Exited(r)) => break Ok(r),
                Err(e) => break Err(e),
            }
        };
        (exit, rs.stack.as_slice().to_vec())
    };
    Some(VmRun { exit, stack, io, steps, kinds, last_kind })
}

/// Classification of a machine error for C24 (see pol_sem for the per-variant justification).
#[derive(Clone, Copy, Debug, PartialEq, Eq)]
pub enum ErrClass {
    /// I/O error or FFI error (harness-injected or data dependent): acceptable end
    IoOrFfi,
    /// value-stack exhaustion: excepted by the property statement
    StackExhaustion,
    /// the VM "went wrong": type mismatch, bad jump, underflow, (un)defined name, ...
    WentWrong,
    /// the harness called the VM incorrectly - not a verdict
    Harness,
}

pub fn err_name(e: &MachineErrorType) -> &'static str {
    match e {
        MachineErrorType::StackUnderflow => "StackUnderflow",
        MachineErrorType::StackOverflow => "StackOverflow",
        MachineErrorType::AlreadyDefined(_) => "AlreadyDefined",
        MachineErrorType::NotDefined(_) => "NotDefined",
        MachineErrorType::InvalidType { .. } => "InvalidType",
        MachineErrorType::InvalidStructMember(_) => "InvalidStructMember",
        MachineErrorType::InvalidFact(_) => "InvalidFact",
        MachineErrorType::InvalidSchema(_) => "InvalidSchema",
        MachineErrorType::UnresolvedTarget(_) => "UnresolvedTarget",
        MachineErrorType::InvalidAddress(_) => "InvalidAddress",
        MachineErrorType::BadState(_) => "BadState",
        MachineErrorType::IntegerOverflow => "IntegerOverflow",
        MachineErrorType::InvalidInstruction => "InvalidInstruction",
        MachineErrorType::CallStack => "CallStack",
        MachineErrorType::IO(_) => "IO",
        MachineErrorType::FfiModuleNotDefined(_) => "FfiModuleNotDefined",
        MachineErrorType::FfiProcedureNotDefined(..) => "FfiProcedureNotDefined",
        MachineErrorType::ContextMismatch => "ContextMismatch",
        MachineErrorType::Serialize(_) => "Serialize",
        MachineErrorType::Deserialize(_) => "Deserialize",
        MachineErrorType::Bug(_) => "Bug",
        MachineErrorType::Unknown(_) => "Unknown",
    }
}

/// Every `MachineErrorType` variant is classified explicitly (no wildcard) so that a new
/// variant in the repository breaks the build of the monitor instead of being silently accepted.
pub fn classify(e: &MachineErrorType) -> ErrClass {
    use ErrClass::*;
    match e {
        // "a stack underflow" - named in the statement.
        MachineErrorType::StackUnderflow => WentWrong,
        // value stack (100 slots) exhausted: "stack exhaustion excepted".
        MachineErrorType::StackOverflow => StackExhaustion,
        // "an undefined or redefined variable" - named in the statement.
        MachineErrorType::AlreadyDefined(_) | MachineErrorType::NotDefined(_) => WentWrong,
        // "a VM type mismatch" - named in the statement.
        MachineErrorType::InvalidType { .. } => WentWrong,
        // "an unknown struct member" - named in the statement.
        MachineErrorType::InvalidStructMember(_) => WentWrong,
        // Raised by `update` when the fact to replace is absent or its current value differs
        // from the literal: depends on the fact database content exactly like
        // IO(FactNotFound) - counted with the I/O class (and reported as a counter).
        MachineErrorType::InvalidFact(_) => IoOrFfi,
        // Struct/fact literal does not match its schema at publish/emit/query: the compiler
        // type-checked the literal, so this is a type mismatch that slipped through.
        MachineErrorType::InvalidSchema(_) => WentWrong,
        // "an unresolved or invalid jump" - named in the statement.
        MachineErrorType::UnresolvedTarget(_) | MachineErrorType::InvalidAddress(_) => WentWrong,
        // Internal state invalid (no saved SP, scope stack empty, wrong context for emit...).
        MachineErrorType::BadState(_) => WentWrong,
        // Never produced by compiled arithmetic (checked ops yield None, saturating ops clamp);
        // if it shows up execution did not end in one of the four allowed ways.
        MachineErrorType::IntegerOverflow => WentWrong,
        // Instruction used in the wrong context / malformed: compiler emitted bad code.
        MachineErrorType::InvalidInstruction => WentWrong,
        // Return without call etc.: broken call discipline.
        MachineErrorType::CallStack => WentWrong,
        // "an I/O ... error".
        MachineErrorType::IO(_) => IoOrFfi,
        // The compiler resolved module/procedure ids against the schema it was given; the
        // harness serves exactly that schema, so these mean the emitted ids are wrong.
        MachineErrorType::FfiModuleNotDefined(_) | MachineErrorType::FfiProcedureNotDefined(..) => WentWrong,
        // Entry point called with the wrong CommandContext: a harness mistake.
        MachineErrorType::ContextMismatch => Harness,
        // Only seal/open code paths (Serialize/Deserialize instructions), which the harness
        // does not drive; a (de)serialisation failure is a data error of the I/O class.
        MachineErrorType::Serialize(_) | MachineErrorType::Deserialize(_) => IoOrFfi,
        // `buggy` bug inside the VM: not an allowed end.
        MachineErrorType::Bug(_) => WentWrong,
        // Catch-all used by `Cast` failures (type mismatch) and by the harness for injected
        // FFI errors (recognised by their marker text).
        MachineErrorType::Unknown(s) => {
            if s.contains(crate::io::INJECTED_FFI) { IoOrFfi } else { WentWrong }
        }
    }
}
