//! Reference evaluator for pure policy functions, written from the language semantics
//! (policy book v2 as reflected in the repository's parser / lowering rules), NOT by calling
//! the VM.  It is a plain environment-passing tree interpreter:
//!
//!   * strict, left-to-right evaluation of operands, call arguments and struct fields;
//!   * `a && b` = `if a { b } else { false }`, `a || b` = `if a { true } else { b }`,
//!     `a or b` = value inside `a` when `a` is `Some`, else `b` (b evaluated only then);
//!   * `if` / `match` evaluate exactly the selected branch; `match` selects the first arm with a
//!     pattern alternative that equals the scrutinee (literal) or whose variant matches (binding);
//!   * `add`/`sub` are checked (`None` on overflow), `saturating_*` saturate at the i64 bounds;
//!   * `==`/`!=` are structural (struct name + all fields; enum name + variant);
//!   * `S { f: e, ...v }` takes the listed fields, then every other field from `v`;
//!   * `e substruct S` keeps exactly the fields of `S`; `e as S` renames the struct;
//!   * `check c else e`: when `c` is false `e` (type never) is evaluated; `debug_assert(c)`
//!     panics when false (debug mode is always on in the harness);
//!   * `todo()` panics; `return e` leaves the current function with `e`; running off the end of
//!     a function panics;
//!   * block scoping: a `let`/binding is visible until the end of its block / arm / branch.
use std::collections::BTreeMap;

use crate::{
    io::{probe_flag, probe_opt},
    ir::*,
};

#[derive(Clone, Debug, PartialEq, Eq)]
pub enum Outcome {
    Value(Val),
    Panic,
    /// Policy evaluation ended through a failed check (only reachable via `recall` in this
    /// language version; pure functions never produce it).
    CheckFail,
    /// A harness-injected FFI failure (`probe::fail`) stopped evaluation.
    FfiFail,
}

/// The reference could not evaluate the program (generator bug or unsupported construct):
/// never a verdict about the repository.
#[derive(Clone, Debug, PartialEq, Eq)]
pub enum RefError {
    Unbound(String),
    Redefined(String),
    Type(String),
    Unsupported(&'static str),
    Fuel,
}

pub type Trace = Vec<(usize, usize, Vec<Val>)>;

#[derive(Clone, Debug, PartialEq, Eq)]
pub struct RefRun {
    pub outcome: Outcome,
    pub trace: Trace,
    /// evaluation steps (for size statistics)
    pub steps: u64,
    /// (operator, operand type tag) pairs exercised
    pub ops: Vec<(&'static str, &'static str)>,
    /// how many integer operands of arithmetic/comparison were i64 boundary values
    pub boundary_operands: u64,
}

enum Stop {
    Return(Val),
    Panic,
    Ffi,
    Bug(RefError),
}

type R<T> = Result<T, Stop>;

fn bug<T>(e: RefError) -> R<T> {
    Err(Stop::Bug(e))
}

pub fn is_boundary(i: i64) -> bool {
    matches!(i, i64::MIN | i64::MAX | -1 | 0 | 1) || i == i64::MIN + 1 || i == i64::MAX - 1
}

fn tag(v: &Val) -> &'static str {
    match v {
        Val::Bool(_) => "bool",
        Val::Int(_) => "int",
        Val::Str(_) => "string",
        Val::Id(_) => "id",
        Val::Enum(..) => "enum",
        Val::Struct(..) => "struct",
        Val::Opt(_) => "option",
        Val::Res(_) => "result",
    }
}

struct Ev<'m> {
    m: &'m Module,
    trace: Trace,
    /// function frames, each a stack of block scopes
    frames: Vec<Vec<Vec<(String, Val)>>>,
    fuel: u64,
    steps: u64,
    ops: Vec<(&'static str, &'static str)>,
    boundary: u64,
}

impl<'m> Ev<'m> {
    fn tick(&mut self) -> R<()> {
        self.steps += 1;
        if self.steps > self.fuel {
            return bug(RefError::Fuel);
        }
        Ok(())
    }

    fn op(&mut self, o: &'static str, t: &'static str) {
        if self.ops.len() < 256 {
            self.ops.push((o, t));
        }
    }

    fn lookup(&self, n: &str) -> R<Val> {
        let frame = self.frames.last().expect("frame");
        for sc in frame.iter().rev() {
            if let Some((_, v)) = sc.iter().rev().find(|(k, _)| k == n) {
                return Ok(v.clone());
            }
        }
        if let Some((_, _, v)) = self.m.globals.iter().find(|(k, _, _)| k == n) {
            return Ok(v.clone());
        }
        bug(RefError::Unbound(n.into()))
    }

    fn define(&mut self, n: &str, v: Val) -> R<()> {
        // The language forbids redefinition of a visible name; a generator that does it is wrong.
        let frame = self.frames.last().expect("frame");
        if frame.iter().any(|sc| sc.iter().any(|(k, _)| k == n))
            || self.m.globals.iter().any(|(k, _, _)| k == n)
        {
            return bug(RefError::Redefined(n.into()));
        }
        self.frames.last_mut().unwrap().last_mut().unwrap().push((n.into(), v));
        Ok(())
    }

    fn push(&mut self) {
        self.frames.last_mut().unwrap().push(vec![]);
    }
    fn pop(&mut self) {
        self.frames.last_mut().unwrap().pop();
    }

    fn boolean(&mut self, e: &Expr) -> R<bool> {
        match self.expr(e)? {
            Val::Bool(b) => Ok(b),
            v => bug(RefError::Type(format!("expected bool, got {}", tag(&v)))),
        }
    }

    fn int(&mut self, e: &Expr) -> R<i64> {
        match self.expr(e)? {
            Val::Int(i) => Ok(i),
            v => bug(RefError::Type(format!("expected int, got {}", tag(&v)))),
        }
    }

    fn block(&mut self, b: &Block) -> R<Val> {
        self.push();
        self.stmts(&b.0)?;
        let v = self.expr(&b.1)?;
        self.pop();
        Ok(v)
    }

    /// Returns the index of the selected arm and the binding to introduce, if any.
    fn select<'a, T>(&mut self, s: &Val, arms: &'a [(Pat, T)]) -> R<(&'a T, Option<(String, Val)>)> {
        for (p, body) in arms {
            match p {
                Pat::Default => return Ok((body, None)),
                Pat::Vals(items) => {
                    for it in items {
                        match (it, s) {
                            (PatItem::Lit(l), _) if l == s => return Ok((body, None)),
                            (PatItem::BindSome(n), Val::Opt(Some(x))) => {
                                return Ok((body, Some((n.clone(), (**x).clone()))));
                            }
                            (PatItem::BindOk(n), Val::Res(Ok(x))) => {
                                return Ok((body, Some((n.clone(), (**x).clone()))));
                            }
                            (PatItem::BindErr(n), Val::Res(Err(x))) => {
                                return Ok((body, Some((n.clone(), (**x).clone()))));
                            }
                            _ => {}
                        }
                    }
                }
            }
        }
        bug(RefError::Type("non-exhaustive match".into()))
    }

    fn expr(&mut self, e: &Expr) -> R<Val> {
        self.tick()?;
        Ok(match e {
            Expr::Lit(v) => v.clone(),
            Expr::Var(n) => self.lookup(n)?,
            Expr::Some(x) => Val::some(self.expr(x)?),
            Expr::Ok(x) => Val::ok(self.expr(x)?),
            Expr::Err(x) => Val::err(self.expr(x)?),
            Expr::StructLit(sid, fs, srcs) => {
                let mut out = BTreeMap::new();
                for (n, x) in fs {
                    let v = self.expr(x)?;
                    out.insert(n.clone(), v);
                }
                for s in srcs {
                    let Val::Struct(_, sf) = self.lookup(s)? else {
                        return bug(RefError::Type("struct composition source is not a struct".into()));
                    };
                    for (n, v) in sf {
                        out.entry(n).or_insert(v);
                    }
                }
                let def = &self.m.structs[*sid];
                if out.len() != def.fields.len() || !def.fields.iter().all(|(n, _)| out.contains_key(n)) {
                    return bug(RefError::Unsupported("incomplete struct literal"));
                }
                self.op("struct-literal", if srcs.is_empty() { "plain" } else { "composed" });
                Val::Struct(*sid, out)
            }
            Expr::Dot(x, f) => match self.expr(x)? {
                Val::Struct(_, fs) => match fs.get(f) {
                    Some(v) => v.clone(),
                    None => return bug(RefError::Type(format!("no field {f}"))),
                },
                v => return bug(RefError::Type(format!("dot on {}", tag(&v)))),
            },
            Expr::Substruct(x, sid) => match self.expr(x)? {
                Val::Struct(_, fs) => {
                    let mut out = BTreeMap::new();
                    for (n, _) in &self.m.structs[*sid].fields {
                        match fs.get(n) {
                            Some(v) => {
                                out.insert(n.clone(), v.clone());
                            }
                            None => return bug(RefError::Type(format!("substruct: no field {n}"))),
                        }
                    }
                    self.op("substruct", "struct");
                    Val::Struct(*sid, out)
                }
                v => return bug(RefError::Type(format!("substruct on {}", tag(&v)))),
            },
            Expr::Cast(x, sid) => match self.expr(x)? {
                Val::Struct(_, fs) => {
                    self.op("as", "struct");
                    Val::Struct(*sid, fs)
                }
                v => return bug(RefError::Type(format!("cast on {}", tag(&v)))),
            },
            Expr::Not(x) => {
                self.op("!", "bool");
                Val::Bool(!self.boolean(x)?)
            }
            Expr::And(a, b) => {
                self.op("&&", "bool");
                if self.boolean(a)? { Val::Bool(self.boolean(b)?) } else { Val::Bool(false) }
            }
            Expr::Or(a, b) => {
                self.op("||", "bool");
                if self.boolean(a)? { Val::Bool(true) } else { Val::Bool(self.boolean(b)?) }
            }
            Expr::Cmp(op, a, b) => {
                let x = self.expr(a)?;
                let y = self.expr(b)?;
                self.op(op.sym(), tag(&x));
                match op {
                    CmpOp::Eq => Val::Bool(x == y),
                    CmpOp::Ne => Val::Bool(x != y),
                    _ => {
                        let (Val::Int(x), Val::Int(y)) = (&x, &y) else {
                            return bug(RefError::Type("ordering on non-int".into()));
                        };
                        if is_boundary(*x) {
                            self.boundary += 1;
                        }
                        if is_boundary(*y) {
                            self.boundary += 1;
                        }
                        Val::Bool(match op {
                            CmpOp::Lt => x < y,
                            CmpOp::Le => x <= y,
                            CmpOp::Gt => x > y,
                            CmpOp::Ge => x >= y,
                            _ => unreachable!(),
                        })
                    }
                }
            }
            Expr::Coalesce(a, b) => match self.expr(a)? {
                Val::Opt(Some(v)) => {
                    self.op("or", tag(&v));
                    *v
                }
                Val::Opt(None) => {
                    self.op("or", "none");
                    self.expr(b)?
                }
                v => return bug(RefError::Type(format!("coalesce on {}", tag(&v)))),
            },
            Expr::Is(x, some) => match self.expr(x)? {
                Val::Opt(o) => {
                    self.op(if *some { "is Some" } else { "is None" }, "option");
                    Val::Bool(o.is_some() == *some)
                }
                v => return bug(RefError::Type(format!("is on {}", tag(&v)))),
            },
            Expr::Arith(op, a, b) => {
                let x = self.int(a)?;
                let y = self.int(b)?;
                self.op(op.name(), "int");
                if is_boundary(x) {
                    self.boundary += 1;
                }
                if is_boundary(y) {
                    self.boundary += 1;
                }
                // Written with i128 on purpose (independent of the VM's checked_/saturating_ calls).
                let wide = match op {
                    ArithOp::Add | ArithOp::SatAdd => x as i128 + y as i128,
                    ArithOp::Sub | ArithOp::SatSub => x as i128 - y as i128,
                };
                let fits = wide >= i64::MIN as i128 && wide <= i64::MAX as i128;
                match op {
                    ArithOp::Add | ArithOp::Sub => {
                        if fits {
                            Val::some(Val::Int(wide as i64))
                        } else {
                            self.op(op.name(), "overflow");
                            Val::none()
                        }
                    }
                    ArithOp::SatAdd | ArithOp::SatSub => {
                        if fits {
                            Val::Int(wide as i64)
                        } else {
                            self.op(op.name(), "overflow");
                            Val::Int(if wide < 0 { i64::MIN } else { i64::MAX })
                        }
                    }
                }
            }
            Expr::If(c, t, f) => {
                self.op("if-expr", "bool");
                if self.boolean(c)? { self.block(t)? } else { self.block(f)? }
            }
            Expr::Block(b) => {
                self.op("block", "expr");
                self.block(b)?
            }
            Expr::Match(s, arms) => {
                let sv = self.expr(s)?;
                self.op("match-expr", tag(&sv));
                let (body, bind) = self.select(&sv, arms)?;
                self.push();
                if let Some((n, v)) = bind {
                    self.op("match-bind", tag(&v));
                    self.define(&n, v)?;
                }
                let v = self.expr(body)?;
                self.pop();
                v
            }
            Expr::Call(f, args) => {
                let mut vals = vec![];
                for a in args {
                    vals.push(self.expr(a)?);
                }
                self.op("call", "fn");
                self.call(*f, vals)?
            }
            Expr::Probe(p, a) => {
                let n = self.int(a)?;
                self.trace.push((0, *p as usize, vec![Val::Int(n)]));
                self.op("probe", p.name());
                match p {
                    ProbeFn::Hit => Val::Int(n),
                    ProbeFn::Flag => Val::Bool(probe_flag(n)),
                    ProbeFn::Opt => match probe_opt(n) {
                        Some(x) => Val::some(Val::Int(x)),
                        None => Val::none(),
                    },
                    ProbeFn::Fail => return Err(Stop::Ffi),
                }
            }
            Expr::Todo => {
                self.op("todo", "never");
                return Err(Stop::Panic);
            }
            Expr::Return(x) => {
                let v = self.expr(x)?;
                self.op("return-expr", tag(&v));
                return Err(Stop::Return(v));
            }
            Expr::Recall(..) => return bug(RefError::Unsupported("recall")),
            Expr::Query(_) | Expr::Exists(_) | Expr::Count(..) => {
                return bug(RefError::Unsupported("fact query"));
            }
            Expr::Raw(_) => return bug(RefError::Unsupported("raw source")),
        })
    }

    fn stmts(&mut self, ss: &[Stmt]) -> R<()> {
        for s in ss {
            self.tick()?;
            match s {
                Stmt::Let(n, e) => {
                    let v = self.expr(e)?;
                    self.define(n, v)?;
                }
                Stmt::Check(c, e) => {
                    let ok = self.boolean(c)?;
                    self.op("check", if ok { "pass" } else { "fail" });
                    if !ok {
                        self.expr(e)?;
                        return bug(RefError::Type("check else expression terminated normally".into()));
                    }
                }
                Stmt::If(brs, fb) => {
                    self.op("if-stmt", "bool");
                    let mut taken = false;
                    for (c, b) in brs {
                        if self.boolean(c)? {
                            self.push();
                            self.stmts(b)?;
                            self.pop();
                            taken = true;
                            break;
                        }
                    }
                    if !taken && let Some(b) = fb {
                        self.push();
                        self.stmts(b)?;
                        self.pop();
                    }
                }
                Stmt::Match(e, arms) => {
                    let sv = self.expr(e)?;
                    self.op("match-stmt", tag(&sv));
                    let (body, bind) = self.select(&sv, arms)?;
                    self.push();
                    if let Some((n, v)) = bind {
                        self.op("match-bind", tag(&v));
                        self.define(&n, v)?;
                    }
                    self.stmts(body)?;
                    self.pop();
                }
                Stmt::DebugAssert(e) => {
                    let ok = self.boolean(e)?;
                    self.op("debug_assert", if ok { "pass" } else { "fail" });
                    if !ok {
                        return Err(Stop::Panic);
                    }
                }
                Stmt::Return(e) => {
                    let v = self.expr(e)?;
                    self.op("return", tag(&v));
                    return Err(Stop::Return(v));
                }
                _ => return bug(RefError::Unsupported("command statement")),
            }
        }
        Ok(())
    }

    fn call(&mut self, f: usize, args: Vec<Val>) -> R<Val> {
        let def = &self.m.funcs[f];
        if def.params.len() != args.len() {
            return bug(RefError::Type("arity".into()));
        }
        if self.frames.len() > 200 {
            return bug(RefError::Unsupported("deep recursion"));
        }
        let scope: Vec<(String, Val)> =
            def.params.iter().map(|(n, _)| n.clone()).zip(args).collect();
        self.frames.push(vec![scope]);
        let r = self.stmts(&def.body);
        self.frames.pop();
        match r {
            Err(Stop::Return(v)) => Ok(v),
            // Running off the end of a function is a panic.
            Ok(()) => Err(Stop::Panic),
            Err(e) => Err(e),
        }
    }
}

/// Evaluate function `f` of module `m` on `args`.
pub fn run_function(m: &Module, f: usize, args: &[Val]) -> Result<RefRun, RefError> {
    let mut ev = Ev {
        m,
        trace: vec![],
        frames: vec![],
        fuel: 200_000,
        steps: 0,
        ops: vec![],
        boundary: 0,
    };
    let r = ev.call(f, args.to_vec());
    let outcome = match r {
        Ok(v) => Outcome::Value(v),
        Err(Stop::Panic) => Outcome::Panic,
        Err(Stop::Ffi) => Outcome::FfiFail,
        Err(Stop::Return(_)) => unreachable!("return escapes call"),
        Err(Stop::Bug(e)) => return Err(e),
    };
    Ok(RefRun { outcome, trace: ev.trace, steps: ev.steps, ops: ev.ops, boundary_operands: ev.boundary })
}
