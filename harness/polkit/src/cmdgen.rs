//! Generator of modules with facts, effects, finish functions, commands (policy / recall /
//! finish blocks) and actions - the workload of C24 (second mode) and C30.
//!
//! Syntax facts checked against policy.pest / lower.rs of the pinned tree:
//!   * `command N { fields {..} seal {..} open {..} policy {..} recall name(args) {..}* }`
//!   * `finish { .. }` must be the last statement of its block; inside it only create / update /
//!     delete / emit / finish-function calls (and debug_assert) with "simple" expressions
//!     (literals, identifiers, struct literals, field access, Some/None, enum references);
//!   * `recall name(args)` is a statement and a never-typed expression, valid only in policy
//!     blocks; a finish block inside a recall block exits with Check;
//!   * fact literals: all keys in schema order, binds (`?`) only trailing; values either
//!     omitted or all listed in order; create needs all values, no binds.
use vcore::Rng;

use crate::{
    r#gen::{Ctx, Cx, GenCfg, any_ty, gen_skeleton, gen_val, literal_ok},
    ir::*,
};

fn key_ty(rng: &mut Rng, m: &Module) -> Ty {
    match rng.below(6) {
        0 | 1 => Ty::Int,
        2 => Ty::Bool,
        3 => Ty::Str,
        4 => Ty::Enum(rng.usize(m.enums.len())),
        _ => Ty::Int,
    }
}

fn small_ty(rng: &mut Rng, m: &Module) -> Ty {
    match rng.below(8) {
        0..=2 => Ty::Int,
        3 => Ty::Bool,
        4 => Ty::Str,
        5 => Ty::Enum(rng.usize(m.enums.len())),
        6 => Ty::opt(Ty::Int),
        _ => Ty::Id,
    }
}

/// Values from a deliberately small space so that creates collide / deletes hit.
pub fn small_val(rng: &mut Rng, m: &Module, t: &Ty) -> Val {
    match t {
        Ty::Int => Val::Int(rng.range(0, 3) as i64),
        Ty::Str => Val::Str((*rng.pick(&["", "a", "b"])).to_string()),
        Ty::Opt(x) => {
            if rng.bool() { Val::none() } else { Val::some(small_val(rng, m, x)) }
        }
        Ty::Id => {
            let mut b = [0u8; 32];
            b[31] = rng.range(0, 2) as u8;
            Val::Id(b)
        }
        _ => gen_val(rng, m, t, true, 0),
    }
}

/// Expression allowed inside finish blocks / finish functions.
fn fin_expr(cx: &mut FinCx, t: &Ty, depth: usize) -> Expr {
    let vars: Vec<String> = cx.vars.iter().filter(|(_, vt)| vt == t).map(|(n, _)| n.clone()).collect();
    if !vars.is_empty() && cx.rng.chance(3, 5) {
        return Expr::Var(cx.rng.pick(&vars).clone());
    }
    // field of a visible struct variable
    let mut dots = vec![];
    for (n, vt) in &cx.vars {
        if let Ty::Struct(s) = vt {
            for (f, ft) in &cx.m.structs[*s].fields {
                if ft == t {
                    dots.push((n.clone(), f.clone()));
                }
            }
        }
    }
    if !dots.is_empty() && cx.rng.chance(1, 2) {
        let (n, f) = cx.rng.pick(&dots).clone();
        return Expr::Dot(Box::new(Expr::Var(n)), f);
    }
    match t {
        Ty::Opt(x) if depth > 0 && cx.rng.bool() && (literal_ok(cx.m, x) || has_var(cx, x)) => {
            Expr::Some(Box::new(fin_expr(cx, x, depth - 1)))
        }
        Ty::Opt(_) => Expr::Lit(Val::none()),
        Ty::Struct(s) if depth > 0 => {
            let fs = cx.m.structs[*s].fields.clone();
            Expr::StructLit(*s, fs.iter().map(|(n, ft)| (n.clone(), fin_expr(cx, ft, depth - 1))).collect(), vec![])
        }
        Ty::Id => {
            if let Some(v) = vars.first() {
                Expr::Var(v.clone())
            } else if let Some((n, f)) = dots.first() {
                Expr::Dot(Box::new(Expr::Var(n.clone())), f.clone())
            } else {
                // no id available: unreachable by construction (callers check `fin_ok`)
                Expr::Lit(Val::none())
            }
        }
        _ => Expr::Lit(small_val(cx.rng, cx.m, t)),
    }
}

fn has_var(cx: &FinCx, t: &Ty) -> bool {
    cx.vars.iter().any(|(_, vt)| vt == t)
        || cx.vars.iter().any(|(_, vt)| matches!(vt, Ty::Struct(s) if cx.m.structs[*s].fields.iter().any(|(_, ft)| ft == t)))
}

/// Can a finish expression of this type be produced (ids / results need a variable)?
fn fin_ok(cx: &FinCx, t: &Ty) -> bool {
    match t {
        Ty::Id | Ty::Res(..) => has_var(cx, t),
        Ty::Opt(_) => true,
        Ty::Struct(s) => has_var(cx, t) || cx.m.structs[*s].fields.iter().all(|(_, ft)| fin_ok(cx, ft)),
        _ => true,
    }
}

pub struct FinCx<'a> {
    pub rng: &'a mut Rng,
    pub m: &'a Module,
    pub vars: Vec<(String, Ty)>,
    /// finish functions callable (index < n)
    pub callable_ff: usize,
}

fn full_lit(cx: &mut FinCx, fact: usize, with_vals: bool) -> Option<FactLit> {
    let def = cx.m.facts[fact].clone();
    if !def.keys.iter().chain(def.vals.iter()).all(|(_, t)| fin_ok(cx, t)) {
        return None;
    }
    let keys = def.keys.iter().map(|(n, t)| (n.clone(), Some(fin_expr(cx, t, 2)))).collect();
    let vals = if with_vals {
        Some(def.vals.iter().map(|(n, t)| (n.clone(), Some(fin_expr(cx, t, 2)))).collect())
    } else {
        None
    };
    Some(FactLit { fact, keys, vals })
}

pub fn finish_stmts(cx: &mut FinCx, max: usize) -> Vec<Stmt> {
    let mut out = vec![];
    let n = cx.rng.urange(0, max);
    for _ in 0..n {
        let k = cx.rng.below(10);
        let s = match k {
            0..=2 if !cx.m.facts.is_empty() => {
                let f = cx.rng.usize(cx.m.facts.len());
                full_lit(cx, f, true).map(Stmt::Create)
            }
            3 if !cx.m.facts.is_empty() => {
                let f = cx.rng.usize(cx.m.facts.len());
                full_lit(cx, f, false).map(Stmt::Delete)
            }
            4 if !cx.m.facts.is_empty() => {
                let f = cx.rng.usize(cx.m.facts.len());
                let def = cx.m.facts[f].clone();
                if def.immutable || def.vals.is_empty() {
                    None
                } else {
                    let with_vals = cx.rng.chance(1, 3);
                    full_lit(cx, f, with_vals).map(|l| {
                        let to = def.vals.iter().map(|(n, t)| (n.clone(), fin_expr(cx, t, 2))).collect();
                        Stmt::Update(l, to)
                    })
                }
            }
            5..=7 => {
                let effs: Vec<usize> = (0..cx.m.structs.len())
                    .filter(|s| cx.m.structs[*s].kind == StructKind::Effect && fin_ok(cx, &Ty::Struct(*s)))
                    .collect();
                if effs.is_empty() {
                    None
                } else {
                    let s = *cx.rng.pick(&effs);
                    let fs = cx.m.structs[s].fields.clone();
                    let mut fields: Vec<(String, Expr)> =
                        fs.iter().map(|(n, t)| (n.clone(), fin_expr(cx, t, 2))).collect();
                    if cx.rng.chance(1, 3) {
                        cx.rng.shuffle(&mut fields);
                    }
                    Some(Stmt::Emit(Expr::StructLit(s, fields, vec![])))
                }
            }
            _ if cx.callable_ff > 0 => {
                let f = cx.rng.usize(cx.callable_ff);
                let ff = cx.m.finish_funcs[f].clone();
                if ff.params.iter().all(|(_, t)| fin_ok(cx, t)) {
                    let args = ff.params.iter().map(|(_, t)| fin_expr(cx, t, 2)).collect();
                    Some(Stmt::FinishCall(ff.name.clone(), args))
                } else {
                    None
                }
            }
            _ => None,
        };
        if let Some(s) = s {
            out.push(s);
        }
    }
    out
}

/// Visible variables of a `Cx`-generated prefix are passed in so finish blocks can use them.
struct BodyGen<'a, 'b> {
    cx: Cx<'a>,
    m: &'b Module,
    in_recall: bool,
}

impl BodyGen<'_, '_> {
    fn finish(&mut self) -> Stmt {
        let vars = self.cx.visible_vars();
        let mut r = self.cx.rng.fork(0xF1);
        let _ = self.cx.rng.u64();
        let mut f = FinCx { rng: &mut r, m: self.m, vars, callable_ff: self.m.finish_funcs.len() };
        Stmt::Finish(finish_stmts(&mut f, 4))
    }

    /// Statement list that ends in a terminal (finish / recall / nested branching / nothing).
    fn terminal(&mut self, depth: usize) -> Vec<Stmt> {
        let mut ss = vec![];
        for _ in 0..self.cx.rng.urange(0, 3) {
            if let Some(s) = self.cx.stmt(3, false) {
                ss.push(s);
            }
        }
        let k = self.cx.rng.below(12);
        match k {
            0..=5 => ss.push(self.finish()),
            6 | 7 if depth > 0 => {
                let c = self.cx.expr(&Ty::Bool, 3, true);
                self.cx.push_scope();
                let a = self.terminal(depth - 1);
                self.cx.pop_scope();
                let b = if self.cx.rng.chance(3, 4) {
                    self.cx.push_scope();
                    let b = self.terminal(depth - 1);
                    self.cx.pop_scope();
                    Some(b)
                } else {
                    None
                };
                ss.push(Stmt::If(vec![(c, a)], b));
            }
            8 | 9 if depth > 0 => {
                // match on an option / enum field with a terminal per arm
                let t = if self.cx.rng.bool() { Ty::opt(Ty::Int) } else { Ty::Enum(0) };
                let s = self.cx.expr(&t, 3, false);
                let arms: Vec<(Pat, Option<(String, Ty)>)> = match &t {
                    Ty::Opt(_) => {
                        let n = self.cx.fresh();
                        vec![
                            (Pat::Vals(vec![PatItem::BindSome(n.clone())]), Some((n, Ty::Int))),
                            (Pat::Vals(vec![PatItem::Lit(Val::none())]), None),
                        ]
                    }
                    _ => vec![(Pat::Vals(vec![PatItem::Lit(Val::Enum(0, 0))]), None), (Pat::Default, None)],
                };
                let mut out = vec![];
                for (p, b) in arms {
                    self.cx.push_scope();
                    if let Some((n, bt)) = b {
                        self.cx.bind_var(&n, bt);
                    }
                    let body = self.terminal(depth - 1);
                    self.cx.pop_scope();
                    out.push((p, body));
                }
                ss.push(Stmt::Match(s, out));
            }
            10 if !self.in_recall => {
                if let Ctx::Policy(recalls) = self.cx.ctx.clone()
                    && !recalls.is_empty()
                {
                    let (n, ps) = self.cx.rng.pick(&recalls).clone();
                    let args = ps.iter().map(|(_, t)| self.cx.expr(t, 2, false)).collect();
                    ss.push(Stmt::Recall(n, args));
                } else {
                    ss.push(self.finish());
                }
            }
            // no terminal: policy falls off its end (panic) / recall block ends (check)
            _ => {}
        }
        ss
    }
}

#[derive(Clone, Debug, Default)]
pub struct CmdCfg {
    /// reuse names of closed scopes
    pub reuse_names: bool,
}

/// Module with facts, effects, pure + finish functions, commands and actions.
pub fn gen_command_module(rng: &mut Rng, ccfg: &CmdCfg) -> Module {
    let mut m = gen_skeleton(rng);
    // effects
    for e in 0..rng.urange(1, 2) {
        let n = rng.urange(0, 3);
        let fields = (0..n).map(|k| (format!("e{k}"), small_ty(rng, &m))).collect();
        m.structs.push(StructDef { name: format!("Ef{e}"), fields, insert_base: None, kind: StructKind::Effect });
    }
    // facts (+ mirror structs)
    for f in 0..rng.urange(1, 3) {
        let nk = rng.urange(1, 2);
        let nv = rng.urange(0, 2);
        let keys: Vec<(String, Ty)> = (0..nk).map(|k| (format!("k{k}"), key_ty(rng, &m))).collect();
        let vals: Vec<(String, Ty)> = (0..nv).map(|k| (format!("w{k}"), small_ty(rng, &m))).collect();
        let name = format!("Fa{f}");
        m.structs.push(StructDef {
            name: name.clone(),
            fields: keys.iter().chain(vals.iter()).cloned().collect(),
            insert_base: None,
            kind: StructKind::FactMirror,
        });
        m.facts.push(FactDef { name, keys, vals, immutable: rng.chance(1, 5) });
    }
    let cfg = GenCfg { facts: true, reuse_names: ccfg.reuse_names, fall_off: false, max_nodes: 24, ..GenCfg::default() };
    // pure functions
    for fi in 0..rng.urange(1, 3) {
        let mut params: Vec<(String, Ty)> = vec![];
        for p in 0..rng.urange(0, 2) {
            params.push((format!("p{p}"), if rng.bool() { Ty::Int } else { any_ty(rng, &m, false, 1) }));
        }
        let ret = match rng.below(3) {
            0 => Ty::Bool,
            1 => Ty::Int,
            _ => any_ty(rng, &m, false, 1),
        };
        let body = {
            let mut cx = Cx::new(rng, &m, fi, &cfg, &params, ret.clone());
            cx.body()
        };
        m.funcs.push(FuncDef { name: format!("fn{fi}"), params, ret, body });
    }
    // finish functions
    for fi in 0..rng.urange(0, 2) {
        let params: Vec<(String, Ty)> = (0..rng.urange(0, 3)).map(|p| (format!("q{p}"), small_ty(rng, &m))).collect();
        let body = {
            let mut r2 = rng.fork(0xFF + fi as u64);
            let mut f = FinCx { rng: &mut r2, m: &m, vars: params.clone(), callable_ff: fi };
            finish_stmts(&mut f, 3)
        };
        let _ = rng.u64();
        m.finish_funcs.push(FinishFuncDef { name: format!("ff{fi}"), params, body });
    }
    // commands
    let ncmd = rng.urange(1, 2);
    for ci in 0..ncmd {
        let name = format!("Cmd{ci}");
        let fields: Vec<(String, Ty)> = (0..rng.urange(1, 4)).map(|k| (format!("c{k}"), small_ty(rng, &m))).collect();
        m.structs.push(StructDef { name: name.clone(), fields: fields.clone(), insert_base: None, kind: StructKind::CommandMirror });
        let this_ty = Ty::Struct(m.structs.len() - 1);
        // recall block signatures first (policy needs them)
        let nrec = rng.urange(0, 2);
        let sigs: Vec<(String, Vec<(String, Ty)>)> = (0..nrec)
            .map(|r| {
                let ps = (0..rng.urange(0, 2)).map(|p| (format!("r{p}"), small_ty(rng, &m))).collect();
                (format!("rc{r}"), ps)
            })
            .collect();
        m.commands.push(CommandDef { name: name.clone(), fields, policy: vec![], recalls: vec![] });
        let policy = {
            let params = vec![("this".to_string(), this_ty.clone())];
            let mut cx = Cx::new(rng, &m, m.funcs.len(), &cfg, &params, Ty::Bool);
            cx.ctx = Ctx::Policy(sigs.clone());
            let mut bg = BodyGen { cx, m: &m, in_recall: false };
            bg.terminal(2)
        };
        let mut recalls = vec![];
        for (rn, ps) in &sigs {
            let mut params = ps.clone();
            params.push(("this".to_string(), this_ty.clone()));
            let mut cx = Cx::new(rng, &m, m.funcs.len(), &cfg, &params, Ty::Bool);
            cx.ctx = Ctx::Recall;
            let mut bg = BodyGen { cx, m: &m, in_recall: true };
            let body = bg.terminal(1);
            recalls.push(RecallDef { name: rn.clone(), params: ps.clone(), body });
        }
        let c = m.commands.last_mut().unwrap();
        c.policy = policy;
        c.recalls = recalls;
    }
    // actions
    for ai in 0..rng.urange(1, 2) {
        let params: Vec<(String, Ty)> = (0..rng.urange(0, 3)).map(|p| (format!("a{p}"), small_ty(rng, &m))).collect();
        let body = {
            let mut cx = Cx::new(rng, &m, m.funcs.len(), &cfg, &params, Ty::Bool);
            cx.ctx = Ctx::Action;
            let mut ss = vec![];
            for _ in 0..cx.rng.urange(0, 2) {
                if let Some(s) = cx.stmt(3, false) {
                    ss.push(s);
                }
            }
            for _ in 0..cx.rng.urange(1, 3) {
                match cx.rng.below(6) {
                    0 if ai > 0 => {
                        let a = cx.rng.usize(ai);
                        let ad = cx.m.actions[a].clone();
                        if ad.params.iter().all(|(_, t)| cx.can_produce(t)) {
                            let args = ad.params.iter().map(|(_, t)| cx.expr(t, 2, false)).collect();
                            ss.push(Stmt::ActionCall(ad.name.clone(), args));
                        }
                    }
                    1 if !cx.m.facts.is_empty() => {
                        let f = cx.rng.usize(cx.m.facts.len());
                        let lit = cx.query_lit(f, 2);
                        let v = cx.fresh();
                        // body: publish a command built from literals
                        let cmd = cx.rng.usize(cx.m.commands.len());
                        let sid = cx.m.structs.iter().position(|s| s.kind == StructKind::CommandMirror && s.name == cx.m.commands[cmd].name).unwrap();
                        cx.push_scope();
                        let mstruct = cx.m.structs.iter().position(|s| s.kind == StructKind::FactMirror && s.name == cx.m.facts[f].name).unwrap();
                        cx.bind_var(&v, Ty::Struct(mstruct));
                        let mut body = vec![];
                        if cx.can_produce(&Ty::Struct(sid)) {
                            body.push(Stmt::Publish(cx.expr(&Ty::Struct(sid), 3, false)));
                        }
                        cx.pop_scope();
                        ss.push(Stmt::Map(lit, v, body));
                    }
                    _ => {
                        let cmd = cx.rng.usize(cx.m.commands.len());
                        let sid = cx.m.structs.iter().position(|s| s.kind == StructKind::CommandMirror && s.name == cx.m.commands[cmd].name).unwrap();
                        if cx.can_produce(&Ty::Struct(sid)) {
                            ss.push(Stmt::Publish(cx.expr(&Ty::Struct(sid), 3, false)));
                        }
                    }
                }
            }
            ss
        };
        m.actions.push(ActionDef { name: format!("act{ai}"), params, body });
    }
    m
}

/// Initial fact store content: (fact index, key values, value values).
pub fn gen_store(rng: &mut Rng, m: &Module) -> Vec<(usize, Vec<Val>, Vec<Val>)> {
    let mut out: Vec<(usize, Vec<Val>, Vec<Val>)> = vec![];
    for (fi, f) in m.facts.iter().enumerate() {
        for _ in 0..rng.urange(0, 5) {
            let k: Vec<Val> = f.keys.iter().map(|(_, t)| small_val(rng, m, t)).collect();
            if out.iter().any(|(i, ok, _)| *i == fi && *ok == k) {
                continue;
            }
            let v = f.vals.iter().map(|(_, t)| small_val(rng, m, t)).collect();
            out.push((fi, k, v));
        }
    }
    out
}

/// Near-miss programs for C30: a finish-only statement placed outside any finish context.
/// Returns (label, module); every one of them must be rejected by the compiler.
pub fn near_misses(rng: &mut Rng) -> Vec<(&'static str, Module)> {
    let mut out = vec![];
    let mk = |rng: &mut Rng| {
        // deterministic small base: one fact, one effect, one finish function, one command
        let mut m = gen_skeleton(rng);
        m.structs.push(StructDef { name: "Ef0".into(), fields: vec![("e0".into(), Ty::Int)], insert_base: None, kind: StructKind::Effect });
        m.structs.push(StructDef { name: "Fa0".into(), fields: vec![("k0".into(), Ty::Int), ("w0".into(), Ty::Int)], insert_base: None, kind: StructKind::FactMirror });
        m.facts.push(FactDef { name: "Fa0".into(), keys: vec![("k0".into(), Ty::Int)], vals: vec![("w0".into(), Ty::Int)], immutable: false });
        m.finish_funcs.push(FinishFuncDef { name: "ff0".into(), params: vec![("q0".into(), Ty::Int)], body: vec![Stmt::Raw("emit Ef0 { e0: q0 }".into())] });
        m.structs.push(StructDef { name: "Cmd0".into(), fields: vec![("c0".into(), Ty::Int)], insert_base: None, kind: StructKind::CommandMirror });
        m.commands.push(CommandDef {
            name: "Cmd0".into(),
            fields: vec![("c0".into(), Ty::Int)],
            policy: vec![Stmt::Raw("finish { emit Ef0 { e0: this.c0 } }".into())],
            recalls: vec![RecallDef { name: "rc0".into(), params: vec![], body: vec![] }],
        });
        m
    };
    let bad = [
        ("emit", "emit Ef0 { e0: 1 }"),
        ("create", "create Fa0[k0: 1]=>{w0: 2}"),
        ("delete", "delete Fa0[k0: 1]"),
        ("update", "update Fa0[k0: 1] to {w0: 3}"),
        ("finish-call", "ff0(1)"),
    ];
    for (what, stmt) in bad {
        // directly in the policy block, before the finish block
        let mut m = mk(rng);
        m.commands[0].policy.insert(0, Stmt::Raw(stmt.into()));
        out.push((leak(format!("{what}-in-policy")), m));
        // inside an if in the policy block
        let mut m = mk(rng);
        m.commands[0].policy.insert(0, Stmt::Raw(format!("if this.c0 > 0 {{ {stmt} }}")));
        out.push((leak(format!("{what}-in-policy-if")), m));
        // inside a match arm in the policy block
        let mut m = mk(rng);
        m.commands[0].policy.insert(0, Stmt::Raw(format!("match this.c0 {{ 1 => {{ {stmt} }} _ => {{}} }}")));
        out.push((leak(format!("{what}-in-policy-match")), m));
        // in a recall block outside finish
        let mut m = mk(rng);
        m.commands[0].recalls[0].body.push(Stmt::Raw(stmt.into()));
        out.push((leak(format!("{what}-in-recall")), m));
        // in a pure function
        let mut m = mk(rng);
        m.funcs.push(FuncDef { name: "fnx".into(), params: vec![], ret: Ty::Int, body: vec![Stmt::Raw(stmt.into()), Stmt::Raw("return 1".into())] });
        m.commands[0].policy.insert(0, Stmt::Raw("let zz = fnx()".into()));
        out.push((leak(format!("{what}-in-function")), m));
        // in an action
        let mut m = mk(rng);
        m.actions.push(ActionDef { name: "actx".into(), params: vec![], body: vec![Stmt::Raw(stmt.into())] });
        out.push((leak(format!("{what}-in-action")), m));
    }
    // Second family: the other half of the mechanism. Expressions inside finish statements must be
    // infallible, wherever they are nested, because a panic there would come after earlier writes
    // of the same finish block. Each program first creates a fact and then uses a pure function
    // that panics for arguments <= 0 in one nesting position of a later finish statement.
    let fallible = [
        ("emit-field", "emit Ef0 { e0: fx(this.c0) }"),
        ("emit-field-in-some", "emit Ef1 { o0: Some(fx(this.c0)) }"),
        ("emit-field-in-nested-some", "emit Ef2 { oo0: Some(Some(fx(this.c0))) }"),
        ("create-key", "create Fa0[k0: fx(this.c0)]=>{w0: 2}"),
        ("create-value", "create Fa0[k0: 7]=>{w0: fx(this.c0)}"),
        ("create-value-in-some", "create Fa1[k0: 7]=>{ow0: Some(fx(this.c0))}"),
        ("update-to", "update Fa0[k0: 1] to {w0: fx(this.c0)}"),
        ("delete-key", "delete Fa0[k0: fx(this.c0)]"),
        ("finish-call-arg", "ff0(fx(this.c0))"),
        ("emit-struct-field-access", "emit Ef0 { e0: Ef0 { e0: fx(this.c0) }.e0 }"),
        ("emit-todo-in-some", "emit Ef1 { o0: Some(todo()) }"),
    ];
    for (what, stmt) in fallible {
        let mut m = mk(rng);
        m.structs.push(StructDef { name: "Ef1".into(), fields: vec![("o0".into(), Ty::Opt(Box::new(Ty::Int)))], insert_base: None, kind: StructKind::Effect });
        m.structs.push(StructDef { name: "Ef2".into(), fields: vec![("oo0".into(), Ty::Opt(Box::new(Ty::Opt(Box::new(Ty::Int)))))], insert_base: None, kind: StructKind::Effect });
        m.structs.push(StructDef { name: "Fa1".into(), fields: vec![("k0".into(), Ty::Int), ("ow0".into(), Ty::Opt(Box::new(Ty::Int)))], insert_base: None, kind: StructKind::FactMirror });
        m.facts.push(FactDef { name: "Fa1".into(), keys: vec![("k0".into(), Ty::Int)], vals: vec![("ow0".into(), Ty::Opt(Box::new(Ty::Int)))], immutable: false });
        m.funcs.push(FuncDef { name: "fx".into(), params: vec![("x".into(), Ty::Int)], ret: Ty::Int, body: vec![Stmt::Raw("if x > 0 { return x }".into()), Stmt::Raw("return todo()".into())] });
        m.commands[0].policy = vec![Stmt::Raw(format!("finish {{ create Fa0[k0: 99]=>{{w0: 1}} {stmt} }}"))];
        out.push((leak(format!("fallible-{what}-in-finish")), m));
        // and the same inside a finish function called from the finish block
        let mut m2 = mk(rng);
        m2.structs.push(StructDef { name: "Ef1".into(), fields: vec![("o0".into(), Ty::Opt(Box::new(Ty::Int)))], insert_base: None, kind: StructKind::Effect });
        m2.structs.push(StructDef { name: "Ef2".into(), fields: vec![("oo0".into(), Ty::Opt(Box::new(Ty::Opt(Box::new(Ty::Int)))))], insert_base: None, kind: StructKind::Effect });
        m2.structs.push(StructDef { name: "Fa1".into(), fields: vec![("k0".into(), Ty::Int), ("ow0".into(), Ty::Opt(Box::new(Ty::Int)))], insert_base: None, kind: StructKind::FactMirror });
        m2.facts.push(FactDef { name: "Fa1".into(), keys: vec![("k0".into(), Ty::Int)], vals: vec![("ow0".into(), Ty::Opt(Box::new(Ty::Int)))], immutable: false });
        m2.funcs.push(FuncDef { name: "fx".into(), params: vec![("x".into(), Ty::Int)], ret: Ty::Int, body: vec![Stmt::Raw("if x > 0 { return x }".into()), Stmt::Raw("return todo()".into())] });
        m2.finish_funcs.push(FinishFuncDef { name: "ffx".into(), params: vec![("q0".into(), Ty::Int)], body: vec![Stmt::Raw(stmt.replace("this.c0", "q0"))] });
        m2.commands[0].policy = vec![Stmt::Raw("finish { create Fa0[k0: 99]=>{w0: 1} ffx(this.c0) }".into())];
        out.push((leak(format!("fallible-{what}-in-finish-function")), m2));
    }
    out
}

fn leak(s: String) -> &'static str {
    Box::leak(s.into_boxed_str())
}
