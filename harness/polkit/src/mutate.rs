//! Type-breaking mutations of generated (well-typed) modules - workload `illtyped` of C24.
//!
//! The typed generators only produce programs the type checker is supposed to accept, so a
//! checker that accepts too much is invisible to them.  This module takes such a module and
//! applies ONE mutation that (very likely) makes it ill-typed.  The compiler is expected to
//! reject the mutant; when it accepts it the program is executed and must not go wrong.
//!
//! The IR carries no types.  `Walker` re-derives the type the generator intended for every
//! expression position: top-down from declarations where the context fixes the type
//! (`check` mode: return values, call arguments, struct fields, constructor payloads, branches
//! of typed expressions), bottom-up (`synth`) elsewhere (let initialisers, scrutinees, operands
//! of `==`).  Synthesised types may have `never` holes (`None`, `Ok(x)`); positions whose type
//! is not completely known are not mutated.
//!
//! `add_consumers` appends, for every function and global, a well-typed wrapper that takes the
//! value apart according to its DECLARED type (arithmetic on ints, branching on bools, match
//! on options/results, field access on structs, a checked `as` cast for strings/ids/enums), so
//! that an ill-typed value that slipped through the checker ends in a VM type error instead of
//! being silently returned.
use vcore::Rng;

use crate::{
    r#gen::{self, Cx, GenCfg},
    ir::*,
};

// ---------------------------------------------------------------------------------------------
// Partial types
// ---------------------------------------------------------------------------------------------

/// Type with `never` holes.
#[derive(Clone, Debug, PartialEq, Eq)]
pub enum PT {
    Never,
    Bool,
    Int,
    Str,
    Id,
    Enum(usize),
    Struct(usize),
    Opt(Box<PT>),
    Res(Box<PT>, Box<PT>),
}

impl PT {
    pub fn of(t: &Ty) -> PT {
        match t {
            Ty::Bool => PT::Bool,
            Ty::Int => PT::Int,
            Ty::Str => PT::Str,
            Ty::Id => PT::Id,
            Ty::Enum(e) => PT::Enum(*e),
            Ty::Struct(s) => PT::Struct(*s),
            Ty::Opt(x) => PT::Opt(Box::new(PT::of(x))),
            Ty::Res(a, b) => PT::Res(Box::new(PT::of(a)), Box::new(PT::of(b))),
        }
    }
    /// The complete type, if there is no hole.
    pub fn ty(&self) -> Option<Ty> {
        Some(match self {
            PT::Never => return None,
            PT::Bool => Ty::Bool,
            PT::Int => Ty::Int,
            PT::Str => Ty::Str,
            PT::Id => Ty::Id,
            PT::Enum(e) => Ty::Enum(*e),
            PT::Struct(s) => Ty::Struct(*s),
            PT::Opt(x) => Ty::opt(x.ty()?),
            PT::Res(a, b) => Ty::res(a.ty()?, b.ty()?),
        })
    }
    pub fn join(self, o: PT) -> PT {
        match (self, o) {
            (PT::Never, x) | (x, PT::Never) => x,
            (PT::Opt(a), PT::Opt(b)) => PT::Opt(Box::new(a.join(*b))),
            (PT::Res(a, b), PT::Res(c, d)) => PT::Res(Box::new(a.join(*c)), Box::new(b.join(*d))),
            (a, _) => a,
        }
    }
    fn of_val(v: &Val) -> PT {
        match v {
            Val::Bool(_) => PT::Bool,
            Val::Int(_) => PT::Int,
            Val::Str(_) => PT::Str,
            Val::Id(_) => PT::Id,
            Val::Enum(e, _) => PT::Enum(*e),
            Val::Struct(s, _) => PT::Struct(*s),
            Val::Opt(None) => PT::Opt(Box::new(PT::Never)),
            Val::Opt(Some(x)) => PT::Opt(Box::new(PT::of_val(x))),
            Val::Res(Ok(x)) => PT::Res(Box::new(PT::of_val(x)), Box::new(PT::Never)),
            Val::Res(Err(x)) => PT::Res(Box::new(PT::Never), Box::new(PT::of_val(x))),
        }
    }
}

/// Do the outermost constructors differ (then no value of one type fits the other)?
pub fn head_differs(a: &Ty, b: &Ty) -> bool {
    match (a, b) {
        (Ty::Enum(i), Ty::Enum(j)) | (Ty::Struct(i), Ty::Struct(j)) => i != j,
        _ => std::mem::discriminant(a) != std::mem::discriminant(b),
    }
}

// ---------------------------------------------------------------------------------------------
// Environment
// ---------------------------------------------------------------------------------------------

#[derive(Clone, Debug, Default)]
pub struct Env {
    scopes: Vec<Vec<(String, PT)>>,
}

impl Env {
    fn push(&mut self) {
        self.scopes.push(vec![]);
    }
    fn pop(&mut self) {
        self.scopes.pop();
    }
    fn bind(&mut self, n: &str, t: PT) {
        if self.scopes.is_empty() {
            self.push();
        }
        self.scopes.last_mut().unwrap().push((n.to_string(), t));
    }
    fn get(&self, sig: &Module, n: &str) -> PT {
        for s in self.scopes.iter().rev() {
            if let Some((_, t)) = s.iter().rev().find(|(k, _)| k == n) {
                return t.clone();
            }
        }
        sig.globals.iter().find(|(k, _, _)| k == n).map(|(_, t, _)| PT::of(t)).unwrap_or(PT::Never)
    }
    /// Visible local variables; those whose type is not completely known get the generator's
    /// never-marker type (so that fresh code avoids their names but never uses them).
    pub fn locals(&self) -> Vec<(String, Ty)> {
        self.scopes.iter().flatten().map(|(n, t)| (n.clone(), t.ty().unwrap_or_else(r#gen::never_marker))).collect()
    }
    /// Visible variables (locals + globals) with a completely known type.
    pub fn typed_vars(&self, sig: &Module) -> Vec<(String, Ty)> {
        let mut v: Vec<(String, Ty)> = self.scopes.iter().flatten().filter_map(|(n, t)| t.ty().map(|t| (n.clone(), t))).collect();
        v.extend(sig.globals.iter().map(|(n, t, _)| (n.clone(), t.clone())));
        v
    }
}

// ---------------------------------------------------------------------------------------------
// Walker
// ---------------------------------------------------------------------------------------------

/// Syntactic position of an expression (decides how the checker learns its type).
#[derive(Clone, Copy, Debug, PartialEq, Eq, Hash)]
pub enum Pos {
    OkPayload,
    ErrPayload,
    SomePayload,
    IfBranch,
    MatchArm,
    CoalesceRhs,
    CoalesceLhs,
    BlockResult,
    StructField,
    CallArg,
    Return,
    CmpOperand,
    LetInit,
    FactField,
    Cond,
    Scrutinee,
    Operand,
    Other,
}

impl Pos {
    pub fn name(self) -> &'static str {
        match self {
            Pos::OkPayload => "ok-payload",
            Pos::ErrPayload => "err-payload",
            Pos::SomePayload => "some-payload",
            Pos::IfBranch => "if-branch",
            Pos::MatchArm => "match-arm",
            Pos::CoalesceRhs => "coalesce-rhs",
            Pos::CoalesceLhs => "coalesce-lhs",
            Pos::BlockResult => "block-result",
            Pos::StructField => "struct-field",
            Pos::CallArg => "call-arg",
            Pos::Return => "return",
            Pos::CmpOperand => "cmp-operand",
            Pos::LetInit => "let-init",
            Pos::FactField => "fact-field",
            Pos::Cond => "condition",
            Pos::Scrutinee => "scrutinee",
            Pos::Operand => "operand",
            Pos::Other => "other",
        }
    }
    /// Selection weight: positions whose type is inferred by unification weigh most.
    fn weight(self) -> u64 {
        match self {
            Pos::OkPayload | Pos::ErrPayload | Pos::SomePayload => 8,
            Pos::IfBranch | Pos::MatchArm | Pos::CoalesceRhs | Pos::BlockResult => 6,
            Pos::StructField | Pos::CallArg | Pos::Return | Pos::CmpOperand => 4,
            Pos::LetInit | Pos::CoalesceLhs => 3,
            Pos::FactField => 2,
            _ => 1,
        }
    }
}

#[derive(Clone, Copy, Debug, PartialEq, Eq)]
pub enum Owner {
    Func(usize),
    FinishFunc(usize),
    Policy(usize),
    Recall(usize, usize),
    Action(usize),
}

pub struct Site<'a> {
    pub idx: usize,
    /// intended type of the position, when completely known
    pub ty: Option<Ty>,
    pub pos: Pos,
    pub env: &'a Env,
    pub sig: &'a Module,
    pub owner: Owner,
    pub ret: Option<&'a Ty>,
    /// inside a finish block / finish function (only "simple" expressions are legal there)
    pub in_finish: bool,
}

pub trait Visitor {
    /// Called for every expression position before its children are visited.
    fn expr(&mut self, e: &mut Expr, site: &Site<'_>);
    /// Called for every statement before its children are visited (`site.ty` is `None`).
    fn stmt(&mut self, _s: &mut Stmt, _site: &Site<'_>) {}
    /// Called for the pattern of every match arm; `scrut` = type of the scrutinee.
    fn pat(&mut self, _p: &mut Pat, _scrut: &PT, _site: &Site<'_>) {}
    /// Stop the traversal (a mutation was applied).
    fn done(&self) -> bool;
}

pub struct Walker<'a> {
    sig: &'a Module,
    env: Env,
    owner: Owner,
    ret: Option<Ty>,
    in_finish: bool,
    counter: usize,
}

fn pat_binds(p: &Pat, st: &PT) -> Vec<(String, PT)> {
    let mut out = vec![];
    if let Pat::Vals(items) = p {
        for it in items {
            match (it, st) {
                (PatItem::BindSome(n), PT::Opt(x)) => out.push((n.clone(), (**x).clone())),
                (PatItem::BindOk(n), PT::Res(a, _)) => out.push((n.clone(), (**a).clone())),
                (PatItem::BindErr(n), PT::Res(_, b)) => out.push((n.clone(), (**b).clone())),
                (PatItem::BindSome(n) | PatItem::BindOk(n) | PatItem::BindErr(n), _) => out.push((n.clone(), PT::Never)),
                _ => {}
            }
        }
    }
    out
}

impl<'a> Walker<'a> {
    fn fact_struct(&self, fact: usize) -> Option<usize> {
        let n = &self.sig.facts.get(fact)?.name;
        self.sig.structs.iter().position(|s| s.kind == StructKind::FactMirror && s.name == *n)
    }

    fn recall_sig(&self, name: &str) -> Option<&'a [(String, Ty)]> {
        let ci = match self.owner {
            Owner::Policy(c) | Owner::Recall(c, _) => c,
            _ => return None,
        };
        self.sig.commands.get(ci)?.recalls.iter().find(|r| r.name == name).map(|r| r.params.as_slice())
    }

    // ---- bottom-up types (read only) ----

    fn synth_block(&mut self, b: &Block) -> PT {
        self.env.push();
        self.synth_bind_stmts(&b.0);
        let t = self.synth(&b.1);
        self.env.pop();
        t
    }

    /// Bind the `let`s of a statement list (only the top level matters for what follows).
    fn synth_bind_stmts(&mut self, ss: &[Stmt]) {
        for s in ss {
            if let Stmt::Let(n, e) = s {
                let t = self.synth(e);
                self.env.bind(n, t);
            }
        }
    }

    pub fn synth(&mut self, e: &Expr) -> PT {
        match e {
            Expr::Lit(v) => PT::of_val(v),
            Expr::Var(n) => self.env.get(self.sig, n),
            Expr::Some(x) => PT::Opt(Box::new(self.synth(x))),
            Expr::Ok(x) => PT::Res(Box::new(self.synth(x)), Box::new(PT::Never)),
            Expr::Err(x) => PT::Res(Box::new(PT::Never), Box::new(self.synth(x))),
            Expr::StructLit(s, ..) | Expr::Substruct(_, s) | Expr::Cast(_, s) => PT::Struct(*s),
            Expr::Dot(x, f) => match self.synth(x) {
                PT::Struct(s) => self.sig.structs.get(s).and_then(|d| d.fields.iter().find(|(n, _)| n == f)).map(|(_, t)| PT::of(t)).unwrap_or(PT::Never),
                _ => PT::Never,
            },
            Expr::Not(_) | Expr::And(..) | Expr::Or(..) | Expr::Cmp(..) | Expr::Is(..) | Expr::Exists(_) => PT::Bool,
            Expr::Coalesce(a, b) => {
                let ta = match self.synth(a) {
                    PT::Opt(x) => *x,
                    _ => PT::Never,
                };
                let tb = self.synth(b);
                ta.join(tb)
            }
            Expr::Arith(op, ..) => match op {
                ArithOp::Add | ArithOp::Sub => PT::Opt(Box::new(PT::Int)),
                _ => PT::Int,
            },
            Expr::If(_, t, f) => {
                let a = self.synth_block(t);
                let b = self.synth_block(f);
                a.join(b)
            }
            Expr::Block(b) => self.synth_block(b),
            Expr::Match(s, arms) => {
                let st = self.synth(s);
                let mut t = PT::Never;
                for (p, x) in arms {
                    self.env.push();
                    for (n, bt) in pat_binds(p, &st) {
                        self.env.bind(&n, bt);
                    }
                    let at = self.synth(x);
                    self.env.pop();
                    t = t.join(at);
                }
                t
            }
            Expr::Call(f, _) => self.sig.funcs.get(*f).map(|f| PT::of(&f.ret)).unwrap_or(PT::Never),
            Expr::Probe(p, _) => match p {
                ProbeFn::Hit | ProbeFn::Fail => PT::Int,
                ProbeFn::Flag => PT::Bool,
                ProbeFn::Opt => PT::Opt(Box::new(PT::Int)),
            },
            Expr::Todo | Expr::Return(_) | Expr::Recall(..) | Expr::Raw(_) => PT::Never,
            Expr::Query(f) => match self.fact_struct(f.fact) {
                Some(s) => PT::Opt(Box::new(PT::Struct(s))),
                None => PT::Never,
            },
            Expr::Count(k, ..) => match k {
                CountKind::UpTo => PT::Int,
                _ => PT::Bool,
            },
        }
    }

    // ---- traversal ----

    fn site_call<'s>(&'s self, idx: usize, ty: Option<Ty>, pos: Pos) -> Site<'s> {
        Site { idx, ty, pos, env: &self.env, sig: self.sig, owner: self.owner, ret: self.ret.as_ref(), in_finish: self.in_finish }
    }

    fn args(&mut self, args: &mut [Expr], params: Option<&[(String, Ty)]>, v: &mut dyn Visitor) {
        for (i, a) in args.iter_mut().enumerate() {
            let t = params.and_then(|p| p.get(i)).map(|(_, t)| t.clone());
            self.expr(a, t, Pos::CallArg, v);
        }
    }

    fn fact(&mut self, f: &mut FactLit, v: &mut dyn Visitor) {
        let Some(def) = self.sig.facts.get(f.fact) else { return };
        for (n, e) in f.keys.iter_mut() {
            if let Some(e) = e {
                let t = def.keys.iter().find(|(k, _)| k == n).map(|(_, t)| t.clone());
                self.expr(e, t, Pos::FactField, v);
            }
        }
        for (n, e) in f.vals.iter_mut().flatten() {
            if let Some(e) = e {
                let t = def.vals.iter().find(|(k, _)| k == n).map(|(_, t)| t.clone());
                self.expr(e, t, Pos::FactField, v);
            }
        }
    }

    fn block(&mut self, b: &mut Block, expected: Option<Ty>, pos: Pos, v: &mut dyn Visitor) {
        self.env.push();
        self.stmts(&mut b.0, v);
        self.expr(&mut b.1, expected, pos, v);
        self.env.pop();
    }

    pub fn expr(&mut self, e: &mut Expr, expected: Option<Ty>, pos: Pos, v: &mut dyn Visitor) {
        if v.done() {
            return;
        }
        let ty = match &expected {
            Some(t) => Some(t.clone()),
            None => self.synth(e).ty(),
        };
        let idx = self.counter;
        self.counter += 1;
        {
            let site = self.site_call(idx, ty.clone(), pos);
            v.expr(e, &site);
        }
        if v.done() {
            return;
        }
        match e {
            Expr::Lit(_) | Expr::Var(_) | Expr::Todo | Expr::Raw(_) => {}
            Expr::Some(x) => {
                let t = match &ty {
                    Some(Ty::Opt(t)) => Some((**t).clone()),
                    _ => None,
                };
                self.expr(x, t, Pos::SomePayload, v);
            }
            Expr::Ok(x) => {
                let t = match &ty {
                    Some(Ty::Res(a, _)) => Some((**a).clone()),
                    _ => None,
                };
                self.expr(x, t, Pos::OkPayload, v);
            }
            Expr::Err(x) => {
                let t = match &ty {
                    Some(Ty::Res(_, b)) => Some((**b).clone()),
                    _ => None,
                };
                self.expr(x, t, Pos::ErrPayload, v);
            }
            Expr::StructLit(s, fs, _) => {
                let s = *s;
                for (n, x) in fs.iter_mut() {
                    let t = self.sig.structs.get(s).and_then(|d| d.fields.iter().find(|(k, _)| k == n)).map(|(_, t)| t.clone());
                    self.expr(x, t, Pos::StructField, v);
                }
            }
            Expr::Dot(x, _) | Expr::Substruct(x, _) | Expr::Cast(x, _) | Expr::Is(x, _) => self.expr(x, None, Pos::Operand, v),
            Expr::Not(x) => self.expr(x, Some(Ty::Bool), Pos::Operand, v),
            Expr::And(a, b) | Expr::Or(a, b) => {
                self.expr(a, Some(Ty::Bool), Pos::Operand, v);
                self.expr(b, Some(Ty::Bool), Pos::Operand, v);
            }
            Expr::Cmp(op, a, b) => {
                let t = match op {
                    CmpOp::Eq | CmpOp::Ne => {
                        let ta = self.synth(a);
                        let tb = self.synth(b);
                        ta.join(tb).ty()
                    }
                    _ => Some(Ty::Int),
                };
                self.expr(a, t.clone(), Pos::CmpOperand, v);
                self.expr(b, t, Pos::CmpOperand, v);
            }
            Expr::Coalesce(a, b) => {
                self.expr(a, ty.clone().map(Ty::opt), Pos::CoalesceLhs, v);
                self.expr(b, ty, Pos::CoalesceRhs, v);
            }
            Expr::Arith(_, a, b) => {
                self.expr(a, Some(Ty::Int), Pos::Operand, v);
                self.expr(b, Some(Ty::Int), Pos::Operand, v);
            }
            Expr::If(c, t, f) => {
                self.expr(c, Some(Ty::Bool), Pos::Cond, v);
                self.block(t, ty.clone(), Pos::IfBranch, v);
                self.block(f, ty, Pos::IfBranch, v);
            }
            Expr::Block(b) => self.block(b, ty, Pos::BlockResult, v),
            Expr::Match(s, arms) => {
                let st = self.synth(s);
                self.expr(s, None, Pos::Scrutinee, v);
                for (p, x) in arms.iter_mut() {
                    if v.done() {
                        return;
                    }
                    {
                        let idx = self.counter;
                        self.counter += 1;
                        let site = self.site_call(idx, None, Pos::Other);
                        v.pat(p, &st, &site);
                    }
                    self.env.push();
                    for (n, bt) in pat_binds(p, &st) {
                        self.env.bind(&n, bt);
                    }
                    self.expr(x, ty.clone(), Pos::MatchArm, v);
                    self.env.pop();
                }
            }
            Expr::Call(f, a) => {
                let ps = self.sig.funcs.get(*f).map(|f| f.params.as_slice());
                self.args(a, ps, v);
            }
            Expr::Probe(_, x) => self.expr(x, Some(Ty::Int), Pos::CallArg, v),
            Expr::Return(x) => {
                let t = self.ret.clone();
                self.expr(x, t, Pos::Return, v);
            }
            Expr::Recall(n, a) => {
                let ps = self.recall_sig(n);
                self.args(a, ps, v);
            }
            Expr::Query(f) | Expr::Exists(f) | Expr::Count(_, _, f) => self.fact(f, v),
        }
    }

    pub fn stmts(&mut self, ss: &mut [Stmt], v: &mut dyn Visitor) {
        for s in ss.iter_mut() {
            if v.done() {
                return;
            }
            {
                let idx = self.counter;
                self.counter += 1;
                let site = self.site_call(idx, None, Pos::Other);
                v.stmt(s, &site);
            }
            if v.done() {
                return;
            }
            match s {
                Stmt::Let(n, e) => {
                    let t = self.synth(e);
                    self.expr(e, None, Pos::LetInit, v);
                    self.env.bind(n, t);
                }
                Stmt::Check(c, e) => {
                    self.expr(c, Some(Ty::Bool), Pos::Cond, v);
                    self.expr(e, None, Pos::Other, v);
                }
                Stmt::If(brs, fb) => {
                    for (c, b) in brs.iter_mut() {
                        self.expr(c, Some(Ty::Bool), Pos::Cond, v);
                        self.env.push();
                        self.stmts(b, v);
                        self.env.pop();
                    }
                    if let Some(b) = fb {
                        self.env.push();
                        self.stmts(b, v);
                        self.env.pop();
                    }
                }
                Stmt::Match(e, arms) => {
                    let st = self.synth(e);
                    self.expr(e, None, Pos::Scrutinee, v);
                    for (p, b) in arms.iter_mut() {
                        if v.done() {
                            return;
                        }
                        {
                            let idx = self.counter;
                            self.counter += 1;
                            let site = self.site_call(idx, None, Pos::Other);
                            v.pat(p, &st, &site);
                        }
                        self.env.push();
                        for (n, bt) in pat_binds(p, &st) {
                            self.env.bind(&n, bt);
                        }
                        self.stmts(b, v);
                        self.env.pop();
                    }
                }
                Stmt::DebugAssert(e) => self.expr(e, Some(Ty::Bool), Pos::Cond, v),
                Stmt::Return(e) => {
                    let t = self.ret.clone();
                    self.expr(e, t, Pos::Return, v);
                }
                Stmt::Finish(b) => {
                    let was = self.in_finish;
                    self.in_finish = true;
                    self.env.push();
                    self.stmts(b, v);
                    self.env.pop();
                    self.in_finish = was;
                }
                Stmt::Create(f) | Stmt::Delete(f) => self.fact(f, v),
                Stmt::Update(f, to) => {
                    self.fact(f, v);
                    let fact = f.fact;
                    for (n, e) in to.iter_mut() {
                        let t = self.sig.facts.get(fact).and_then(|d| d.vals.iter().find(|(k, _)| k == n)).map(|(_, t)| t.clone());
                        self.expr(e, t, Pos::FactField, v);
                    }
                }
                Stmt::Emit(e) | Stmt::Publish(e) => self.expr(e, None, Pos::Other, v),
                Stmt::FinishCall(n, a) => {
                    let ps = self.sig.finish_funcs.iter().find(|f| f.name == *n).map(|f| f.params.as_slice());
                    self.args(a, ps, v);
                }
                Stmt::Recall(n, a) => {
                    let ps = self.recall_sig(n);
                    self.args(a, ps, v);
                }
                Stmt::ActionCall(n, a) => {
                    let ps = self.sig.actions.iter().find(|f| f.name == *n).map(|f| f.params.as_slice());
                    self.args(a, ps, v);
                }
                Stmt::Map(f, n, b) => {
                    self.fact(f, v);
                    let st = self.fact_struct(f.fact).map(PT::Struct).unwrap_or(PT::Never);
                    self.env.push();
                    self.env.bind(n, st);
                    self.stmts(b, v);
                    self.env.pop();
                }
                Stmt::Raw(_) => {}
            }
        }
    }
}

/// Visit every statement list of `m` (types are looked up in `sig`, a copy of the unmutated
/// module, so that `m` can be edited while walking).
pub fn walk_module(m: &mut Module, sig: &Module, v: &mut dyn Visitor) {
    let mut w = Walker { sig, env: Env::default(), owner: Owner::Func(0), ret: None, in_finish: false, counter: 0 };
    let body = |w: &mut Walker<'_>, owner: Owner, params: Vec<(String, Ty)>, ret: Option<Ty>, fin: bool, ss: &mut Vec<Stmt>, v: &mut dyn Visitor| {
        w.owner = owner;
        w.ret = ret;
        w.in_finish = fin;
        w.env = Env::default();
        w.env.push();
        for (n, t) in &params {
            w.env.bind(n, PT::of(t));
        }
        w.stmts(ss, v);
    };
    for (i, f) in m.funcs.iter_mut().enumerate() {
        body(&mut w, Owner::Func(i), f.params.clone(), Some(f.ret.clone()), false, &mut f.body, v);
    }
    for (i, f) in m.finish_funcs.iter_mut().enumerate() {
        body(&mut w, Owner::FinishFunc(i), f.params.clone(), None, true, &mut f.body, v);
    }
    for (ci, c) in m.commands.iter_mut().enumerate() {
        let this = sig.structs.iter().position(|s| s.kind == StructKind::CommandMirror && s.name == c.name);
        let this: Vec<(String, Ty)> = this.map(|s| ("this".to_string(), Ty::Struct(s))).into_iter().collect();
        body(&mut w, Owner::Policy(ci), this.clone(), None, false, &mut c.policy, v);
        for (ri, r) in c.recalls.iter_mut().enumerate() {
            let mut ps = r.params.clone();
            ps.extend(this.clone());
            body(&mut w, Owner::Recall(ci, ri), ps, None, false, &mut r.body, v);
        }
    }
    for (i, a) in m.actions.iter_mut().enumerate() {
        body(&mut w, Owner::Action(i), a.params.clone(), None, false, &mut a.body, v);
    }
}

// ---------------------------------------------------------------------------------------------
// Mutations
// ---------------------------------------------------------------------------------------------

#[derive(Clone, Copy, Debug, PartialEq, Eq, Hash)]
pub enum Class {
    /// no mutation (consumers only): accepted and must not go wrong
    Control,
    WrongExpr,
    CtorSwap,
    Decl,
    Arity,
    VarSwap,
    GlobalLet,
}

pub const CLASSES: [Class; 6] = [Class::WrongExpr, Class::CtorSwap, Class::Decl, Class::Arity, Class::VarSwap, Class::GlobalLet];

impl Class {
    pub fn name(self) -> &'static str {
        match self {
            Class::Control => "control",
            Class::WrongExpr => "wrong-expr",
            Class::CtorSwap => "ctor-swap",
            Class::Decl => "decl",
            Class::Arity => "arity",
            Class::VarSwap => "var-swap",
            Class::GlobalLet => "global-let",
        }
    }
}

pub struct Mutant {
    pub module: Module,
    pub class: Class,
    /// stable tag used in signatures: the class name, refined for classes whose sub-kinds
    /// exercise different checks of the compiler (`arity-recall`, `global-let-missing-field`..)
    pub tag: String,
    /// human readable description of the edit
    pub what: String,
}

enum Mode {
    Collect,
    Apply(usize),
}

struct Mutator<'r> {
    rng: &'r mut Rng,
    class: Class,
    mode: Mode,
    /// (site index, weight)
    cands: Vec<(usize, u64)>,
    applied: Option<(String, String)>,
}

fn fresh_cfg() -> GenCfg {
    GenCfg { max_depth: 3, max_nodes: 8, never_exprs: false, probes: false, fall_off: false, ..GenCfg::default() }
}

impl Mutator<'_> {
    fn callable(site: &Site<'_>) -> usize {
        match site.owner {
            Owner::Func(i) => i.min(site.sig.funcs.len()),
            _ => site.sig.funcs.len(),
        }
    }

    /// Freshly generated well-typed expression of type `t` in the scope of `site`.
    fn fresh(&mut self, site: &Site<'_>, t: &Ty, depth: usize) -> Expr {
        let cfg = fresh_cfg();
        let locals = site.env.locals();
        let ret = site.ret.cloned().unwrap_or(Ty::Int);
        let mut cx = Cx::new(self.rng, site.sig, Self::callable(site), &cfg, &locals, ret);
        // `return` (planted in `check .. else`) is only legal in pure functions
        cx.ctx = match site.owner {
            Owner::Func(_) => r#gen::Ctx::Pure,
            Owner::Policy(_) => r#gen::Ctx::Policy(vec![]),
            Owner::Recall(..) | Owner::FinishFunc(_) => r#gen::Ctx::Recall,
            Owner::Action(_) => r#gen::Ctx::Action,
        };
        cx.expr(t, if site.in_finish { 0 } else { depth }, false)
    }

    fn has_id(site: &Site<'_>) -> bool {
        site.env.typed_vars(site.sig).iter().any(|(_, t)| *t == Ty::Id)
    }

    fn usable(site: &Site<'_>, t: &Ty) -> bool {
        r#gen::literal_ok(site.sig, t) && (!t.contains_id(site.sig) || Self::has_id(site))
    }

    /// A type whose outermost constructor differs from `t`'s.
    fn other_ty(&mut self, site: &Site<'_>, t: &Ty) -> Ty {
        let m = site.sig;
        for _ in 0..24 {
            let u = match self.rng.below(13) {
                0 | 1 => Ty::Int,
                2 => Ty::Bool,
                3 => Ty::Str,
                4 if !m.enums.is_empty() => Ty::Enum(self.rng.usize(m.enums.len())),
                5 if !m.structs.is_empty() => Ty::Struct(self.rng.usize(m.structs.len())),
                6 => Ty::opt(t.clone()),
                7 => match t {
                    Ty::Opt(x) => (**x).clone(),
                    Ty::Res(a, _) => (**a).clone(),
                    _ => Ty::opt(Ty::Int),
                },
                8 => Ty::res(t.clone(), Ty::Int),
                9 => Ty::res(Ty::Int, t.clone()),
                10 => Ty::opt(Ty::Str),
                11 => match t {
                    Ty::Res(_, b) => (**b).clone(),
                    _ => Ty::res(Ty::Int, Ty::Str),
                },
                _ => r#gen::any_ty(self.rng, m, false, 1),
            };
            if head_differs(t, &u) && Self::usable(site, &u) {
                return u;
            }
        }
        if *t == Ty::Int { Ty::Bool } else { Ty::Int }
    }

    /// Expression that does NOT have type `t` (differs at the head or inside a constructor).
    fn bad(&mut self, site: &Site<'_>, t: &Ty, depth: usize) -> Expr {
        match t {
            Ty::Opt(a) if depth < 3 && self.rng.chance(1, 2) => Expr::Some(Box::new(self.bad(site, a, depth + 1))),
            Ty::Res(a, b) if depth < 3 && self.rng.chance(2, 3) => {
                if self.rng.bool() {
                    Expr::Ok(Box::new(self.bad(site, a, depth + 1)))
                } else {
                    Expr::Err(Box::new(self.bad(site, b, depth + 1)))
                }
            }
            _ => {
                let u = self.other_ty(site, t);
                let d = self.rng.urange(0, 2);
                self.fresh(site, &u, d)
            }
        }
    }

    /// Well-typed sibling for `bad`: shaped so that each branch only knows one half of the type.
    fn good(&mut self, site: &Site<'_>, t: &Ty, bad: &Expr) -> Expr {
        match (t, bad) {
            (Ty::Res(a, _), Expr::Err(_)) if self.rng.chance(3, 4) && Self::usable(site, a) => Expr::Ok(Box::new(self.fresh(site, a, 1))),
            (Ty::Res(_, b), Expr::Ok(_)) if self.rng.chance(3, 4) && Self::usable(site, b) => Expr::Err(Box::new(self.fresh(site, b, 1))),
            (Ty::Opt(_), Expr::Some(_)) if self.rng.bool() => Expr::Lit(Val::none()),
            _ if Self::usable(site, t) => self.fresh(site, t, 1),
            _ => Expr::Todo,
        }
    }

    fn cond(&mut self, site: &Site<'_>) -> Expr {
        let bools: Vec<String> = site.env.typed_vars(site.sig).into_iter().filter(|(_, t)| *t == Ty::Bool).map(|(n, _)| n).collect();
        if !bools.is_empty() && self.rng.chance(2, 3) {
            return Expr::Var(self.rng.pick(&bools).clone());
        }
        if self.rng.bool() { self.fresh(site, &Ty::Bool, 2) } else { Expr::Lit(Val::Bool(self.rng.bool())) }
    }

    /// Replacement for an expression of type `t`: an ill-typed expression, plain or placed
    /// next to a well-typed sibling in a construct whose type is found by unification.
    fn wrong(&mut self, site: &Site<'_>, t: &Ty) -> (Expr, &'static str) {
        let bad = self.bad(site, t, 0);
        if site.in_finish {
            return (bad, "plain");
        }
        let form = self.rng.below(20);
        if form < 9 {
            return (bad, "plain");
        }
        let good = self.good(site, t, &bad);
        let swap = self.rng.chance(1, 3);
        let (first, second) = if swap { (bad.clone(), good.clone()) } else { (good.clone(), bad.clone()) };
        match form {
            9..=12 => {
                let c = self.cond(site);
                (Expr::If(Box::new(c), Box::new((vec![], first)), Box::new((vec![], second))), "if")
            }
            13..=16 => {
                let c = self.cond(site);
                let p2 = if self.rng.bool() { Pat::Default } else { Pat::Vals(vec![PatItem::Lit(Val::Bool(false))]) };
                (Expr::Match(Box::new(c), vec![(Pat::Vals(vec![PatItem::Lit(Val::Bool(true))]), first), (p2, second)]), "match")
            }
            17 => (Expr::Coalesce(Box::new(Expr::Some(Box::new(good))), Box::new(bad)), "coalesce"),
            18 => (Expr::Coalesce(Box::new(Expr::Lit(Val::none())), Box::new(bad)), "coalesce-none"),
            _ => (Expr::Block(Box::new((vec![], bad))), "block"),
        }
    }

    fn consider(&mut self, idx: usize, weight: u64, apply: impl FnOnce(&mut Self) -> Option<(String, String)>) {
        match self.mode {
            Mode::Collect => self.cands.push((idx, weight)),
            Mode::Apply(k) if k == idx => {
                self.applied = apply(self);
                if self.applied.is_none() {
                    // nothing applicable after all: stop anyway
                    self.applied = Some((String::new(), String::new()));
                }
            }
            _ => {}
        }
    }
}

fn swap_val_ctor(v: &Val) -> Option<Val> {
    match v {
        Val::Res(Ok(x)) => Some(Val::Res(Err(x.clone()))),
        Val::Res(Err(x)) => Some(Val::Res(Ok(x.clone()))),
        Val::Opt(Some(x)) => Some((**x).clone()),
        _ => None,
    }
}

impl Visitor for Mutator<'_> {
    fn done(&self) -> bool {
        self.applied.is_some()
    }

    fn expr(&mut self, e: &mut Expr, site: &Site<'_>) {
        let idx = site.idx;
        match self.class {
            Class::WrongExpr => {
                let Some(t) = site.ty.clone() else { return };
                // ids / structs with ids in finish context need variables: fine, `fresh` copes
                self.consider(idx, site.pos.weight(), |s| {
                    let (w, form) = s.wrong(site, &t);
                    *e = w;
                    Some(("wrong-expr".into(), format!("{} of type {:?} replaced ({form})", site.pos.name(), t)))
                });
            }
            Class::CtorSwap => {
                let same_halves = matches!(&site.ty, Some(Ty::Res(a, b)) if a == b);
                let ctor = match e {
                    Expr::Ok(_) | Expr::Err(_) => !same_halves,
                    Expr::Some(_) => true,
                    Expr::Lit(v) => match v {
                        Val::Res(_) => !same_halves,
                        Val::Opt(Some(_)) => true,
                        _ => false,
                    },
                    _ => false,
                };
                if ctor {
                    self.consider(idx, 6 + site.pos.weight(), |_| {
                        let what = match e {
                            Expr::Ok(x) => {
                                *e = Expr::Err(x.clone());
                                "Ok(e) -> Err(e)"
                            }
                            Expr::Err(x) => {
                                *e = Expr::Ok(x.clone());
                                "Err(e) -> Ok(e)"
                            }
                            Expr::Some(x) => {
                                *e = (**x).clone();
                                "Some(e) -> e"
                            }
                            Expr::Lit(v) => {
                                *v = swap_val_ctor(v)?;
                                "literal constructor swapped/removed"
                            }
                            _ => return None,
                        };
                        Some(("ctor-swap".into(), format!("{what} at {}", site.pos.name())))
                    });
                } else if site.ty.is_some() && !matches!(e, Expr::Todo | Expr::Return(_) | Expr::Recall(..)) {
                    self.consider(idx, site.pos.weight().min(3), |_| {
                        let old = std::mem::replace(e, Expr::Todo);
                        *e = Expr::Some(Box::new(old));
                        Some(("ctor-swap".into(), format!("e -> Some(e) at {}", site.pos.name())))
                    });
                }
            }
            Class::Arity => match e {
                Expr::Call(..) | Expr::Recall(..) | Expr::Probe(..) => {
                    self.consider(idx, 1, |s| {
                        let (tag, args): (&str, &mut Vec<Expr>) = match e {
                            Expr::Call(_, a) => ("arity-call", a),
                            Expr::Recall(_, a) => ("arity-recall", a),
                            Expr::Probe(p, a) => {
                                let a = crate::print::expr(site.sig, a);
                                let txt = if s.rng.bool() { format!("probe::{}()", p.name()) } else { format!("probe::{}({a}, {a})", p.name()) };
                                *e = Expr::Raw(txt);
                                return Some(("arity-ffi".into(), "ffi call arity changed".into()));
                            }
                            _ => return None,
                        };
                        let what = change_arity(s.rng, args);
                        Some((tag.into(), what))
                    });
                }
                _ => {}
            },
            Class::VarSwap => {
                let (Expr::Var(n), Some(t)) = (&*e, &site.ty) else { return };
                let n = n.clone();
                let others: Vec<String> = site.env.typed_vars(site.sig).into_iter().filter(|(o, ot)| *o != n && head_differs(t, ot)).map(|(o, _)| o).collect();
                if others.is_empty() {
                    return;
                }
                self.consider(idx, site.pos.weight(), |s| {
                    let o = s.rng.pick(&others).clone();
                    let what = format!("variable {n} of type {t:?} -> {o} at {}", site.pos.name());
                    *e = Expr::Var(o);
                    Some(("var-swap".into(), what))
                });
            }
            _ => {}
        }
    }

    fn stmt(&mut self, st: &mut Stmt, site: &Site<'_>) {
        if self.class != Class::Arity {
            return;
        }
        if matches!(st, Stmt::FinishCall(..) | Stmt::Recall(..) | Stmt::ActionCall(..)) {
            self.consider(site.idx, 3, |s| {
                let (tag, args) = match st {
                    Stmt::FinishCall(_, a) => ("arity-finish-call", a),
                    Stmt::Recall(_, a) => ("arity-recall", a),
                    Stmt::ActionCall(_, a) => ("arity-action-call", a),
                    _ => return None,
                };
                let what = change_arity(s.rng, args);
                Some((tag.into(), what))
            });
        }
    }

    fn pat(&mut self, p: &mut Pat, scrut: &PT, site: &Site<'_>) {
        if self.class != Class::CtorSwap {
            return;
        }
        let Pat::Vals(items) = p else { return };
        if items.len() != 1 {
            return;
        }
        let differs = matches!(scrut, PT::Res(a, b) if a != b);
        if differs && matches!(items[0], PatItem::BindOk(_) | PatItem::BindErr(_)) {
            self.consider(site.idx, 4, |_| {
                items[0] = match &items[0] {
                    PatItem::BindOk(n) => PatItem::BindErr(n.clone()),
                    PatItem::BindErr(n) => PatItem::BindOk(n.clone()),
                    _ => return None,
                };
                Some(("ctor-swap-pattern".into(), "binding pattern Ok(x) <-> Err(x)".into()))
            });
        }
    }
}

fn change_arity(rng: &mut Rng, args: &mut Vec<Expr>) -> String {
    if !args.is_empty() && rng.chance(3, 5) {
        let k = rng.usize(args.len());
        args.remove(k);
        format!("argument {k} dropped ({} left)", args.len())
    } else {
        let extra = if !args.is_empty() && rng.bool() { args[rng.usize(args.len())].clone() } else { Expr::Lit(Val::Int(rng.range(0, 3) as i64)) };
        let k = rng.urange(0, args.len());
        args.insert(k, extra);
        format!("argument inserted at {k} ({} now)", args.len())
    }
}

/// A declared type different from `t`.
fn other_decl_ty(rng: &mut Rng, m: &Module, t: &Ty, with_id: bool) -> Ty {
    for _ in 0..24 {
        let u = match (rng.below(8), t) {
            (0 | 1, Ty::Res(a, b)) if a != b => Ty::res((**b).clone(), (**a).clone()),
            (2, Ty::Res(a, b)) => Ty::res((**a).clone(), other_decl_ty(rng, m, b, with_id)),
            (3, Ty::Res(a, b)) => Ty::res(other_decl_ty(rng, m, a, with_id), (**b).clone()),
            (0..=2, Ty::Opt(x)) => (**x).clone(),
            (3, Ty::Opt(x)) => Ty::opt(other_decl_ty(rng, m, x, with_id)),
            (4, _) => Ty::opt(t.clone()),
            (5, Ty::Struct(_)) if m.structs.len() > 1 => Ty::Struct(rng.usize(m.structs.len())),
            (5, Ty::Enum(_)) if m.enums.len() > 1 => Ty::Enum(rng.usize(m.enums.len())),
            (6, _) => r#gen::any_ty(rng, m, with_id, 1),
            _ => match rng.below(4) {
                0 => Ty::Int,
                1 => Ty::Bool,
                2 => Ty::Str,
                _ => Ty::opt(Ty::Int),
            },
        };
        if u != *t && (with_id || !u.contains_id(m)) {
            return u;
        }
    }
    if *t == Ty::Int { Ty::Bool } else { Ty::Int }
}

/// Class 3: change one declaration, leave bodies and callers alone.
fn mutate_decl(rng: &mut Rng, m: &mut Module) -> Option<(String, String)> {
    let snapshot = m.clone();
    for _ in 0..12 {
        match rng.below(12) {
            0..=3 if !m.funcs.is_empty() => {
                let f = rng.usize(m.funcs.len());
                let has_id = m.funcs[f].params.iter().any(|(_, t)| *t == Ty::Id);
                let old = m.funcs[f].ret.clone();
                let new = other_decl_ty(rng, &snapshot, &old, has_id);
                m.funcs[f].ret = new.clone();
                return Some(("decl".into(), format!("return type of {}: {old:?} -> {new:?}", m.funcs[f].name)));
            }
            4..=6 => {
                let cands: Vec<usize> = (0..m.funcs.len()).filter(|f| !m.funcs[*f].params.is_empty()).collect();
                if cands.is_empty() {
                    continue;
                }
                let f = *rng.pick(&cands);
                let p = rng.usize(m.funcs[f].params.len());
                let old = m.funcs[f].params[p].1.clone();
                let new = other_decl_ty(rng, &snapshot, &old, true);
                m.funcs[f].params[p].1 = new.clone();
                return Some(("decl".into(), format!("parameter {p} of {}: {old:?} -> {new:?}", m.funcs[f].name)));
            }
            7..=9 => {
                // own (printed) fields of plain structs / effects
                let mut cands = vec![];
                for (si, s) in m.structs.iter().enumerate() {
                    if !matches!(s.kind, StructKind::Plain | StructKind::Effect) {
                        continue;
                    }
                    let skip = s.insert_base.map(|b| m.structs[b].fields.len()).unwrap_or(0);
                    for k in skip..s.fields.len() {
                        cands.push((si, k));
                    }
                }
                if cands.is_empty() {
                    continue;
                }
                let (si, k) = *rng.pick(&cands);
                let old = m.structs[si].fields[k].1.clone();
                let with_id = old.contains_id(&snapshot);
                let mut new = other_decl_ty(rng, &snapshot, &old, with_id);
                fn has_struct(t: &Ty) -> bool {
                    match t {
                        Ty::Struct(_) => true,
                        Ty::Opt(x) => has_struct(x),
                        Ty::Res(a, b) => has_struct(a) || has_struct(b),
                        _ => false,
                    }
                }
                if has_struct(&new) {
                    // keep struct definitions acyclic (a cycle is a different, non-type error and
                    // would send the consumers and possibly the compiler into unbounded recursion)
                    new = if old == Ty::Int { Ty::Str } else { Ty::Int };
                }
                m.structs[si].fields[k].1 = new.clone();
                // structs that insert this one (`+Base`) inherit the change
                for o in 0..m.structs.len() {
                    if m.structs[o].insert_base == Some(si) && o != si && k < m.structs[o].fields.len() {
                        m.structs[o].fields[k].1 = new.clone();
                    }
                }
                // A global `let` holding a literal of this struct now has an ill-typed field: that is
                // exactly the situation of class 6 (and the same check of the compiler) - same tag.
                fn mentions(v: &Val, hit: &dyn Fn(usize) -> bool) -> bool {
                    match v {
                        Val::Struct(s, fs) => hit(*s) || fs.values().any(|x| mentions(x, hit)),
                        Val::Opt(Some(x)) | Val::Res(Ok(x)) | Val::Res(Err(x)) => mentions(x, hit),
                        _ => false,
                    }
                }
                let hit = |s: usize| s == si || m.structs[s].insert_base == Some(si);
                let tag = if m.globals.iter().any(|(_, _, v)| mentions(v, &hit)) { "global-let-field-type" } else { "decl" };
                return Some((tag.into(), format!("field {} of struct {}: {old:?} -> {new:?}", m.structs[si].fields[k].0, m.structs[si].name)));
            }
            10 => {
                // parameters of finish functions / recall blocks / actions
                let mut cands: Vec<(u8, usize, usize, usize)> = vec![];
                for (i, f) in m.finish_funcs.iter().enumerate() {
                    cands.extend((0..f.params.len()).map(|p| (0u8, i, 0, p)));
                }
                for (ci, c) in m.commands.iter().enumerate() {
                    for (ri, r) in c.recalls.iter().enumerate() {
                        cands.extend((0..r.params.len()).map(|p| (1u8, ci, ri, p)));
                    }
                }
                for (i, a) in m.actions.iter().enumerate() {
                    cands.extend((0..a.params.len()).map(|p| (2u8, i, 0, p)));
                }
                if cands.is_empty() {
                    continue;
                }
                let (k, i, j, p) = *rng.pick(&cands);
                let slot: &mut (String, Ty) = match k {
                    0 => &mut m.finish_funcs[i].params[p],
                    1 => &mut m.commands[i].recalls[j].params[p],
                    _ => &mut m.actions[i].params[p],
                };
                let old = slot.1.clone();
                let new = other_decl_ty(rng, &snapshot, &old, true);
                slot.1 = new.clone();
                let kind = ["finish function", "recall block", "action"][k as usize];
                return Some(("decl".into(), format!("parameter {p} of {kind} {i}/{j}: {old:?} -> {new:?}")));
            }
            _ => {
                // command fields (+ mirror struct), fact values (+ mirror struct)
                if !m.commands.is_empty() && rng.bool() {
                    let ci = rng.usize(m.commands.len());
                    if m.commands[ci].fields.is_empty() {
                        continue;
                    }
                    let k = rng.usize(m.commands[ci].fields.len());
                    let old = m.commands[ci].fields[k].1.clone();
                    let new = loop {
                        let n = match rng.below(5) {
                            0 => Ty::Int,
                            1 => Ty::Bool,
                            2 => Ty::Str,
                            3 => Ty::opt(Ty::Int),
                            _ => Ty::opt(Ty::Str),
                        };
                        if n != old {
                            break n;
                        }
                    };
                    let name = m.commands[ci].name.clone();
                    m.commands[ci].fields[k].1 = new.clone();
                    if let Some(s) = m.structs.iter_mut().find(|s| s.kind == StructKind::CommandMirror && s.name == name) {
                        s.fields[k].1 = new.clone();
                    }
                    return Some(("decl".into(), format!("field {k} of command {name}: {old:?} -> {new:?}")));
                }
                let cands: Vec<usize> = (0..m.facts.len()).filter(|f| !m.facts[*f].vals.is_empty()).collect();
                if cands.is_empty() {
                    continue;
                }
                let fi = *rng.pick(&cands);
                let k = rng.usize(m.facts[fi].vals.len());
                let old = m.facts[fi].vals[k].1.clone();
                let new = loop {
                    let n = match rng.below(4) {
                        0 => Ty::Int,
                        1 => Ty::Bool,
                        2 => Ty::Str,
                        _ => Ty::opt(Ty::Int),
                    };
                    if n != old {
                        break n;
                    }
                };
                let name = m.facts[fi].name.clone();
                let vname = m.facts[fi].vals[k].0.clone();
                m.facts[fi].vals[k].1 = new.clone();
                if let Some(s) = m.structs.iter_mut().find(|s| s.kind == StructKind::FactMirror && s.name == name) {
                    if let Some(f) = s.fields.iter_mut().find(|(n, _)| *n == vname) {
                        f.1 = new.clone();
                    }
                }
                return Some(("decl".into(), format!("value {vname} of fact {name}: {old:?} -> {new:?}")));
            }
        }
    }
    None
}

/// Literal of a type whose head differs from `t` (id free).
fn wrong_lit(rng: &mut Rng, m: &Module, t: &Ty) -> Val {
    for _ in 0..24 {
        let u = match rng.below(8) {
            0 | 1 => Ty::Int,
            2 => Ty::Bool,
            3 => Ty::Str,
            4 if !m.enums.is_empty() => Ty::Enum(rng.usize(m.enums.len())),
            5 => Ty::opt(if r#gen::literal_ok(m, t) { t.clone() } else { Ty::Int }),
            6 => Ty::res(Ty::Int, Ty::Str),
            _ => match t {
                Ty::Opt(x) | Ty::Res(x, _) if r#gen::literal_ok(m, x) => (**x).clone(),
                _ => Ty::Str,
            },
        };
        if head_differs(t, &u) {
            let v = r#gen::gen_lit(rng, m, &u);
            // `None` fits every option type: insist on a value that shows its type
            if matches!(v, Val::Opt(None)) {
                continue;
            }
            return v;
        }
    }
    if *t == Ty::Int { Val::Bool(true) } else { Val::Int(7) }
}

/// Make `v` (a literal of type `t`) ill-typed somewhere inside.
fn break_val(rng: &mut Rng, m: &Module, t: &Ty, v: &Val, depth: usize) -> Val {
    match (t, v) {
        (Ty::Opt(x), Val::Opt(Some(i))) if depth < 3 && rng.bool() => Val::some(break_val(rng, m, x, i, depth + 1)),
        (Ty::Res(a, _), Val::Res(Ok(i))) if depth < 3 && rng.bool() => Val::ok(break_val(rng, m, a, i, depth + 1)),
        (Ty::Res(_, b), Val::Res(Err(i))) if depth < 3 && rng.bool() => Val::err(break_val(rng, m, b, i, depth + 1)),
        (Ty::Struct(s), Val::Struct(_, fs)) if depth < 3 && !fs.is_empty() && rng.bool() => {
            let mut fs = fs.clone();
            let fields = &m.structs[*s].fields;
            let (n, ft) = rng.pick(fields).clone();
            if let Some(old) = fs.get(&n).cloned() {
                fs.insert(n, break_val(rng, m, &ft, &old, depth + 1));
            }
            Val::Struct(*s, fs)
        }
        _ => wrong_lit(rng, m, t),
    }
}

/// Class 6: a global `let` bound to a struct literal with an ill-typed / missing / unknown
/// field, plus functions that read it.
fn mutate_global(rng: &mut Rng, m: &mut Module) -> Option<(String, String)> {
    let cands: Vec<usize> = (0..m.structs.len())
        .filter(|s| m.structs[*s].kind == StructKind::Plain && !m.structs[*s].fields.is_empty() && r#gen::literal_ok(m, &Ty::Struct(*s)))
        .collect();
    if cands.is_empty() {
        return None;
    }
    let s = *rng.pick(&cands);
    let def = m.structs[s].clone();
    let Val::Struct(_, mut fs) = r#gen::gen_lit(rng, m, &Ty::Struct(s)) else { return None };
    let (fname, fty) = rng.pick(&def.fields).clone();
    let kind = rng.below(10);
    let (tag, what) = if kind < 7 {
        let old = fs.get(&fname).cloned()?;
        let new = break_val(rng, m, &fty, &old, 0);
        let what = format!("global gx = {} {{ .. {fname}: {new:?} .. }} where {fname} is declared {fty:?}", def.name);
        fs.insert(fname.clone(), new);
        ("global-let-field-type", what)
    } else if kind < 9 {
        fs.remove(&fname);
        ("global-let-missing-field", format!("global gx = {} {{ .. }} without field {fname}", def.name))
    } else {
        fs.insert("zz_unknown".into(), Val::Int(1));
        ("global-let-unknown-field", format!("global gx = {} {{ .. zz_unknown: 1 }}", def.name))
    };
    // a struct-typed global may also sit behind an option / inside another struct
    let (gty, gval) = match rng.below(4) {
        0 => (Ty::opt(Ty::Struct(s)), Val::some(Val::Struct(s, fs))),
        _ => (Ty::Struct(s), Val::Struct(s, fs)),
    };
    m.globals.push(("gx".into(), gty.clone(), gval));
    // readers: the field itself (declared type of the field), through the option when wrapped
    let fi = m.funcs.len();
    let read = |base: Expr| Expr::Dot(Box::new(base), fname.clone());
    let body = match &gty {
        Ty::Struct(_) => vec![Stmt::Return(read(Expr::Var("gx".into())))],
        _ => vec![Stmt::Return(Expr::Match(
            Box::new(Expr::Var("gx".into())),
            vec![
                (Pat::Vals(vec![PatItem::BindSome("zg".into())]), read(Expr::Var("zg".into()))),
                (Pat::Vals(vec![PatItem::Lit(Val::none())]), Expr::Todo),
            ],
        ))],
    };
    m.funcs.push(FuncDef { name: format!("fn{fi}"), params: vec![], ret: fty.clone(), body });
    // and a comparison with a well-typed literal of the struct
    let lit = r#gen::gen_lit(rng, m, &gty);
    m.funcs.push(FuncDef {
        name: format!("fn{}", fi + 1),
        params: vec![],
        ret: Ty::Bool,
        body: vec![Stmt::Return(Expr::Cmp(CmpOp::Eq, Box::new(Expr::Var("gx".into())), Box::new(Expr::Lit(lit))))],
    });
    Some((tag.into(), what))
}

/// Apply one mutation of `class` to a copy of `m`. `None`: the module offers no position for it.
pub fn mutate(m: &Module, class: Class, rng: &mut Rng) -> Option<Mutant> {
    let mut out = m.clone();
    let (tag, what) = match class {
        Class::Control => ("control".to_string(), "unchanged".to_string()),
        Class::Decl => mutate_decl(rng, &mut out)?,
        Class::GlobalLet => mutate_global(rng, &mut out)?,
        _ => {
            let mut mu = Mutator { rng, class, mode: Mode::Collect, cands: vec![], applied: None };
            walk_module(&mut out, m, &mut mu);
            if mu.cands.is_empty() {
                return None;
            }
            let weights: Vec<u64> = mu.cands.iter().map(|(_, w)| *w).collect();
            let pick = mu.cands[mu.rng.weighted(&weights)].0;
            mu.mode = Mode::Apply(pick);
            walk_module(&mut out, m, &mut mu);
            let (tag, what) = mu.applied?;
            if tag.is_empty() {
                return None;
            }
            (tag, what)
        }
    };
    add_consumers(&mut out);
    Some(Mutant { module: out, class, tag, what })
}

// ---------------------------------------------------------------------------------------------
// Consumers
// ---------------------------------------------------------------------------------------------

struct Consume {
    ctr: usize,
    /// (leaf type, struct A, struct B) pairs with the single field `v` for checked casts
    helpers: Vec<(Ty, usize, usize)>,
}

impl Consume {
    fn name(&mut self) -> String {
        self.ctr += 1;
        format!("zc{}", self.ctr)
    }

    fn helper(&mut self, m: &mut Module, t: &Ty) -> (usize, usize) {
        if let Some((_, a, b)) = self.helpers.iter().find(|(ht, _, _)| ht == t) {
            return (*a, *b);
        }
        let k = self.helpers.len();
        let a = m.structs.len();
        for side in ["a", "b"] {
            m.structs.push(StructDef { name: format!("Zk{k}{side}"), fields: vec![("v".into(), t.clone())], insert_base: None, kind: StructKind::Plain });
        }
        self.helpers.push((t.clone(), a, a + 1));
        (a, a + 1)
    }

    /// Int-typed expression that inspects `e` according to its declared type `t`.
    fn consume(&mut self, m: &mut Module, t: &Ty, e: Expr) -> Expr {
        let zero = || Expr::Lit(Val::Int(0));
        match t {
            Ty::Int => Expr::Arith(ArithOp::SatAdd, Box::new(e), Box::new(zero())),
            Ty::Bool => Expr::If(Box::new(e), Box::new((vec![], Expr::Lit(Val::Int(1)))), Box::new((vec![], zero()))),
            Ty::Str | Ty::Id | Ty::Enum(_) => {
                // `Zka { v: e } as Zkb` checks the run-time type of `v` against the definition
                let (a, b) = self.helper(m, t);
                let n = self.name();
                let cast = Expr::Cast(Box::new(Expr::StructLit(a, vec![("v".into(), e)], vec![])), b);
                Expr::Block(Box::new((vec![Stmt::Let(n, cast)], zero())))
            }
            Ty::Opt(x) => {
                let n = self.name();
                let inner = self.consume(m, x, Expr::Var(n.clone()));
                Expr::Match(Box::new(e), vec![(Pat::Vals(vec![PatItem::BindSome(n)]), inner), (Pat::Vals(vec![PatItem::Lit(Val::none())]), zero())])
            }
            Ty::Res(a, b) => {
                let (n1, n2) = (self.name(), self.name());
                let ia = self.consume(m, a, Expr::Var(n1.clone()));
                let ib = self.consume(m, b, Expr::Var(n2.clone()));
                Expr::Match(Box::new(e), vec![(Pat::Vals(vec![PatItem::BindOk(n1)]), ia), (Pat::Vals(vec![PatItem::BindErr(n2)]), ib)])
            }
            Ty::Struct(s) => {
                let n = self.name();
                let fields = m.structs[*s].fields.clone();
                let mut sum = zero();
                for (f, ft) in fields.iter().rev() {
                    let c = self.consume(m, ft, Expr::Dot(Box::new(Expr::Var(n.clone())), f.clone()));
                    sum = Expr::Arith(ArithOp::SatAdd, Box::new(c), Box::new(sum));
                }
                Expr::Block(Box::new((vec![Stmt::Let(n, e)], sum)))
            }
        }
    }
}

/// Append `zchk_<f>` for every function and `zchk_<g>` for every global: same parameters,
/// returns int, takes the result apart according to the declared type.
pub fn add_consumers(m: &mut Module) {
    let mut c = Consume { ctr: 0, helpers: vec![] };
    let nf = m.funcs.len();
    for fi in 0..nf {
        let f = m.funcs[fi].clone();
        let call = Expr::Call(fi, f.params.iter().map(|(n, _)| Expr::Var(n.clone())).collect());
        let body = vec![Stmt::Return(c.consume(m, &f.ret, call))];
        m.funcs.push(FuncDef { name: format!("zchk_{}", f.name), params: f.params, ret: Ty::Int, body });
    }
    for (g, t, v) in m.globals.clone() {
        // `let g = None` / `let g = Ok(1)` have types with `never` holes: nothing to take apart
        if PT::of_val(&v).ty().is_none() {
            continue;
        }
        let body = vec![Stmt::Return(c.consume(m, &t, Expr::Var(g.clone())))];
        m.funcs.push(FuncDef { name: format!("zchk_{g}"), params: vec![], ret: Ty::Int, body });
    }
}
