//! Typed IR of the policy language, independent of the repository's AST.
//!
//! Only constructs that were checked against `policy.pest`, `parse.rs`, `lower.rs` and
//! `compile.rs` of the pinned tree are representable.  Notably:
//!   * arithmetic is only available through the builtins `add`/`sub` (checked, result type
//!     `option[int]`, `None` on overflow) and `saturating_add`/`saturating_sub` (type `int`);
//!     infix `+`/`-` are parse errors;
//!   * there are no id literals (ids enter through parameters / command fields only);
//!   * `unwrap`/`check_unwrap` do not exist in this grammar version;
//!   * `check c else e` requires `e` to have type never (`return ..`, `todo()`, `recall ..`).
use std::collections::BTreeMap;

#[derive(Clone, Debug, PartialEq, Eq, Hash, PartialOrd, Ord)]
pub enum Ty {
    Bool,
    Int,
    Str,
    Id,
    Enum(usize),
    Struct(usize),
    Opt(Box<Ty>),
    Res(Box<Ty>, Box<Ty>),
}

impl Ty {
    pub fn opt(t: Ty) -> Ty {
        Ty::Opt(Box::new(t))
    }
    pub fn res(a: Ty, b: Ty) -> Ty {
        Ty::Res(Box::new(a), Box::new(b))
    }
    /// Short tag used for (operator x type) coverage.
    pub fn tag(&self) -> &'static str {
        match self {
            Ty::Bool => "bool",
            Ty::Int => "int",
            Ty::Str => "string",
            Ty::Id => "id",
            Ty::Enum(_) => "enum",
            Ty::Struct(_) => "struct",
            Ty::Opt(_) => "option",
            Ty::Res(..) => "result",
        }
    }
    pub fn contains_id(&self, m: &Module) -> bool {
        match self {
            Ty::Id => true,
            Ty::Opt(t) => t.contains_id(m),
            Ty::Res(a, b) => a.contains_id(m) || b.contains_id(m),
            Ty::Struct(s) => m.structs[*s].fields.iter().any(|(_, t)| t.contains_id(m)),
            _ => false,
        }
    }
}

/// Runtime values of the reference evaluator.
#[derive(Clone, Debug, PartialEq, Eq, Hash, PartialOrd, Ord)]
pub enum Val {
    Bool(bool),
    Int(i64),
    Str(String),
    Id([u8; 32]),
    /// (enum index, variant index)
    Enum(usize, usize),
    /// (struct index, fields by name).  Equality is name + fields, like the language's.
    Struct(usize, BTreeMap<String, Val>),
    Opt(Option<Box<Val>>),
    Res(Result<Box<Val>, Box<Val>>),
}

impl Val {
    pub fn some(v: Val) -> Val {
        Val::Opt(Some(Box::new(v)))
    }
    pub fn none() -> Val {
        Val::Opt(None)
    }
    pub fn ok(v: Val) -> Val {
        Val::Res(Ok(Box::new(v)))
    }
    pub fn err(v: Val) -> Val {
        Val::Res(Err(Box::new(v)))
    }
}

#[derive(Clone, Copy, Debug, PartialEq, Eq, Hash)]
pub enum CmpOp {
    Eq,
    Ne,
    Lt,
    Le,
    Gt,
    Ge,
}

impl CmpOp {
    pub fn sym(self) -> &'static str {
        match self {
            CmpOp::Eq => "==",
            CmpOp::Ne => "!=",
            CmpOp::Lt => "<",
            CmpOp::Le => "<=",
            CmpOp::Gt => ">",
            CmpOp::Ge => ">=",
        }
    }
}

#[derive(Clone, Copy, Debug, PartialEq, Eq, Hash)]
pub enum ArithOp {
    /// `add(x, y) option[int]`
    Add,
    /// `sub(x, y) option[int]`
    Sub,
    /// `saturating_add(x, y) int`
    SatAdd,
    /// `saturating_sub(x, y) int`
    SatSub,
}

impl ArithOp {
    pub fn name(self) -> &'static str {
        match self {
            ArithOp::Add => "add",
            ArithOp::Sub => "sub",
            ArithOp::SatAdd => "saturating_add",
            ArithOp::SatSub => "saturating_sub",
        }
    }
}

/// Functions of the harness FFI module `probe` (index = procedure id).
#[derive(Clone, Copy, Debug, PartialEq, Eq, Hash)]
pub enum ProbeFn {
    /// `probe::hit(n int) int` - returns n
    Hit = 0,
    /// `probe::flag(n int) bool` - returns n is odd
    Flag = 1,
    /// `probe::opt(n int) option[int]` - None when n % 3 == 0 else Some(n)
    Opt = 2,
    /// `probe::fail(n int) int` - always fails with a harness-injected FFI error
    Fail = 3,
}

impl ProbeFn {
    pub fn name(self) -> &'static str {
        match self {
            ProbeFn::Hit => "hit",
            ProbeFn::Flag => "flag",
            ProbeFn::Opt => "opt",
            ProbeFn::Fail => "fail",
        }
    }
}

#[derive(Clone, Debug, PartialEq, Eq, Hash)]
pub enum PatItem {
    Lit(Val),
    BindSome(String),
    BindOk(String),
    BindErr(String),
}

#[derive(Clone, Debug, PartialEq, Eq, Hash)]
pub enum Pat {
    Vals(Vec<PatItem>),
    Default,
}

#[derive(Clone, Debug, PartialEq, Eq, Hash)]
pub enum CountKind {
    UpTo,
    AtLeast,
    AtMost,
    Exactly,
}

/// `Name[k: e, k2: ?] => {v: e, w: ?}`; `None` = bind marker `?`.
#[derive(Clone, Debug, PartialEq, Eq, Hash)]
pub struct FactLit {
    pub fact: usize,
    pub keys: Vec<(String, Option<Expr>)>,
    pub vals: Option<Vec<(String, Option<Expr>)>>,
}

pub type Block = (Vec<Stmt>, Expr);

#[derive(Clone, Debug, PartialEq, Eq, Hash)]
pub enum Expr {
    /// Literal (never contains an id).
    Lit(Val),
    Var(String),
    Some(Box<Expr>),
    Ok(Box<Expr>),
    Err(Box<Expr>),
    /// struct index, explicit fields, `...source` variable names
    StructLit(usize, Vec<(String, Expr)>, Vec<String>),
    Dot(Box<Expr>, String),
    Substruct(Box<Expr>, usize),
    Cast(Box<Expr>, usize),
    Not(Box<Expr>),
    And(Box<Expr>, Box<Expr>),
    Or(Box<Expr>, Box<Expr>),
    Cmp(CmpOp, Box<Expr>, Box<Expr>),
    Coalesce(Box<Expr>, Box<Expr>),
    /// `e is Some` (true) / `e is None` (false)
    Is(Box<Expr>, bool),
    Arith(ArithOp, Box<Expr>, Box<Expr>),
    If(Box<Expr>, Box<Block>, Box<Block>),
    Block(Box<Block>),
    Match(Box<Expr>, Vec<(Pat, Expr)>),
    /// call of module function by index
    Call(usize, Vec<Expr>),
    Probe(ProbeFn, Box<Expr>),
    Todo,
    Return(Box<Expr>),
    /// `recall name(args)` (command policy blocks only)
    Recall(String, Vec<Expr>),
    Query(Box<FactLit>),
    Exists(Box<FactLit>),
    Count(CountKind, i64, Box<FactLit>),
    /// Raw source text (used only by hostile/near-miss generators; the reference evaluator refuses it).
    Raw(String),
}

#[derive(Clone, Debug, PartialEq, Eq, Hash)]
pub enum Stmt {
    Let(String, Expr),
    Check(Expr, Expr),
    If(Vec<(Expr, Vec<Stmt>)>, Option<Vec<Stmt>>),
    Match(Expr, Vec<(Pat, Vec<Stmt>)>),
    DebugAssert(Expr),
    Return(Expr),
    // --- command / action only ---
    Finish(Vec<Stmt>),
    Create(FactLit),
    Update(FactLit, Vec<(String, Expr)>),
    Delete(FactLit),
    Emit(Expr),
    /// call of a finish function by name
    FinishCall(String, Vec<Expr>),
    Recall(String, Vec<Expr>),
    Publish(Expr),
    ActionCall(String, Vec<Expr>),
    Map(FactLit, String, Vec<Stmt>),
    Raw(String),
}

#[derive(Clone, Debug, PartialEq, Eq, Hash)]
pub struct EnumDef {
    pub name: String,
    pub variants: Vec<String>,
}

#[derive(Clone, Debug, PartialEq, Eq, Hash)]
pub struct StructDef {
    pub name: String,
    pub fields: Vec<(String, Ty)>,
    /// When set, the definition is printed as `struct N { +Base, rest.. }` where the first
    /// `fields.len()` of `Base` are the leading fields.
    pub insert_base: Option<usize>,
    pub kind: StructKind,
}

#[derive(Clone, Copy, Debug, PartialEq, Eq, Hash)]
pub enum StructKind {
    /// `struct N { .. }`
    Plain,
    /// `effect N { .. }`
    Effect,
    /// struct implicitly defined by `fact N[..]=>{..}` (not printed)
    FactMirror,
    /// struct implicitly defined by `command N { fields {..} }` (not printed)
    CommandMirror,
}

#[derive(Clone, Debug, PartialEq, Eq, Hash)]
pub struct FuncDef {
    pub name: String,
    pub params: Vec<(String, Ty)>,
    pub ret: Ty,
    pub body: Vec<Stmt>,
}

#[derive(Clone, Debug, PartialEq, Eq, Hash)]
pub struct FactDef {
    pub name: String,
    pub keys: Vec<(String, Ty)>,
    pub vals: Vec<(String, Ty)>,
    pub immutable: bool,
}

#[derive(Clone, Debug, PartialEq, Eq, Hash)]
pub struct FinishFuncDef {
    pub name: String,
    pub params: Vec<(String, Ty)>,
    pub body: Vec<Stmt>,
}

#[derive(Clone, Debug, PartialEq, Eq, Hash)]
pub struct RecallDef {
    pub name: String,
    pub params: Vec<(String, Ty)>,
    pub body: Vec<Stmt>,
}

#[derive(Clone, Debug, PartialEq, Eq, Hash)]
pub struct CommandDef {
    pub name: String,
    pub fields: Vec<(String, Ty)>,
    pub policy: Vec<Stmt>,
    pub recalls: Vec<RecallDef>,
}

#[derive(Clone, Debug, PartialEq, Eq, Hash)]
pub struct ActionDef {
    pub name: String,
    pub params: Vec<(String, Ty)>,
    pub body: Vec<Stmt>,
}

#[derive(Clone, Debug, Default, PartialEq, Eq, Hash)]
pub struct Module {
    pub enums: Vec<EnumDef>,
    pub structs: Vec<StructDef>,
    pub globals: Vec<(String, Ty, Val)>,
    pub funcs: Vec<FuncDef>,
    pub facts: Vec<FactDef>,
    pub finish_funcs: Vec<FinishFuncDef>,
    pub commands: Vec<CommandDef>,
    pub actions: Vec<ActionDef>,
}

impl Module {
    pub fn struct_field_ty(&self, sid: usize, f: &str) -> Option<&Ty> {
        self.structs[sid].fields.iter().find(|(n, _)| n == f).map(|(_, t)| t)
    }
}

// ---------------------------------------------------------------------------------------------
// Traversal helpers
// ---------------------------------------------------------------------------------------------

pub fn visit_fact(f: &FactLit, v: &mut dyn FnMut(&Expr)) {
    for (_, e) in f.keys.iter().chain(f.vals.iter().flatten()) {
        if let Some(e) = e {
            visit_expr(e, v);
        }
    }
}

pub fn visit_expr(e: &Expr, v: &mut dyn FnMut(&Expr)) {
    v(e);
    match e {
        Expr::Lit(_) | Expr::Var(_) | Expr::Todo | Expr::Raw(_) => {}
        Expr::Some(x) | Expr::Ok(x) | Expr::Err(x) | Expr::Not(x) | Expr::Return(x) | Expr::Probe(_, x) => visit_expr(x, v),
        Expr::Dot(x, _) | Expr::Substruct(x, _) | Expr::Cast(x, _) | Expr::Is(x, _) => visit_expr(x, v),
        Expr::StructLit(_, fs, _) => fs.iter().for_each(|(_, x)| visit_expr(x, v)),
        Expr::And(a, b) | Expr::Or(a, b) | Expr::Cmp(_, a, b) | Expr::Coalesce(a, b) | Expr::Arith(_, a, b) => {
            visit_expr(a, v);
            visit_expr(b, v);
        }
        Expr::If(c, t, f) => {
            visit_expr(c, v);
            visit_stmts(&t.0, v);
            visit_expr(&t.1, v);
            visit_stmts(&f.0, v);
            visit_expr(&f.1, v);
        }
        Expr::Block(b) => {
            visit_stmts(&b.0, v);
            visit_expr(&b.1, v);
        }
        Expr::Match(s, arms) => {
            visit_expr(s, v);
            arms.iter().for_each(|(_, x)| visit_expr(x, v));
        }
        Expr::Call(_, a) | Expr::Recall(_, a) => a.iter().for_each(|x| visit_expr(x, v)),
        Expr::Query(f) | Expr::Exists(f) | Expr::Count(_, _, f) => visit_fact(f, v),
    }
}

pub fn visit_stmts(ss: &[Stmt], v: &mut dyn FnMut(&Expr)) {
    for s in ss {
        match s {
            Stmt::Let(_, e) | Stmt::DebugAssert(e) | Stmt::Return(e) | Stmt::Emit(e) | Stmt::Publish(e) => visit_expr(e, v),
            Stmt::Check(a, b) => {
                visit_expr(a, v);
                visit_expr(b, v);
            }
            Stmt::If(brs, fb) => {
                for (c, b) in brs {
                    visit_expr(c, v);
                    visit_stmts(b, v);
                }
                if let Some(b) = fb {
                    visit_stmts(b, v);
                }
            }
            Stmt::Match(e, arms) => {
                visit_expr(e, v);
                arms.iter().for_each(|(_, b)| visit_stmts(b, v));
            }
            Stmt::Finish(b) => visit_stmts(b, v),
            Stmt::Create(f) | Stmt::Delete(f) => visit_fact(f, v),
            Stmt::Update(f, to) => {
                visit_fact(f, v);
                to.iter().for_each(|(_, e)| visit_expr(e, v));
            }
            Stmt::FinishCall(_, a) | Stmt::Recall(_, a) | Stmt::ActionCall(_, a) => a.iter().for_each(|x| visit_expr(x, v)),
            Stmt::Map(f, _, b) => {
                visit_fact(f, v);
                visit_stmts(b, v);
            }
            Stmt::Raw(_) => {}
        }
    }
}

impl Module {
    /// All statement lists of the module.
    pub fn bodies(&self) -> Vec<&[Stmt]> {
        let mut out: Vec<&[Stmt]> = vec![];
        out.extend(self.funcs.iter().map(|f| f.body.as_slice()));
        out.extend(self.finish_funcs.iter().map(|f| f.body.as_slice()));
        for c in &self.commands {
            out.push(&c.policy);
            out.extend(c.recalls.iter().map(|r| r.body.as_slice()));
        }
        out.extend(self.actions.iter().map(|a| a.body.as_slice()));
        out
    }

    /// Input class of a confirmed defect: `e substruct S` where `S` has no fields is compiled
    /// without the MStructGet/MStructSet pair, leaving the source struct on the stack.
    pub fn uses_substruct_to_empty(&self) -> bool {
        let mut hit = false;
        for b in self.bodies() {
            visit_stmts(b, &mut |e| {
                if let Expr::Substruct(_, s) = e
                    && self.structs[*s].fields.is_empty()
                {
                    hit = true;
                }
            });
        }
        hit
    }
}
