//! C12 fact storage = map; C13 revert is exact; C14 sessions overlay their writes.

use std::collections::BTreeMap;

use aranya_runtime::{
    linear::{testing::Manager, LinearStorageProvider},
    Address, HeadSet, LocatedAddress, Location, MaxCut, Perspective, PolicyId, Prior, Priority, Query,
    QueryMut, Revertable, Segment, Sink, Storage, StorageProvider,
};
use graphkit::{audit::*, dag::*, driver::*, r#gen::*, model::*, replica::*};
use vcore::*;

type Map = BTreeMap<(String, Key), Vec<u8>>;

const FNAMES: [&str; 3] = ["x", "y", "xy"];
const COMPS: [&[u8]; 6] = [b"", b"a", b"ab", b"b", b"\x00", b"a\x00"];

fn gkey(rng: &mut Rng) -> Key {
    let n = rng.weighted(&[1, 4, 4, 2]);
    (0..n).map(|_| rng.pick(&COMPS).to_vec()).collect()
}

/// Compare every exact and prefix query a `Query` can answer against the model map.
fn check_queries(q: &impl Query, want: &Map, universe: &[(String, Key)], prop: &'static str, what: &str, obs: &mut Obs) {
    // exact queries on every key ever used (present or deleted)
    for (name, key) in universe {
        let got = q.query(name, &to_keys(key)).map(|o| o.map(|b| b.to_vec()));
        let exp = want.get(&(name.clone(), key.clone())).cloned();
        match got {
            Ok(g) if g == exp => {}
            Ok(g) => obs.fail(prop, "exact-query-differs-from-map", json!({"where": what, "name": name, "key": format!("{key:?}"), "got": g.map(|v| hex(&v)), "want": exp.map(|v| hex(&v))})),
            Err(e) => obs.fail(prop, "exact-query-error", json!({"where": what, "err": e.to_string()})),
        }
        obs.count("exact_queries", 1);
    }
    // prefix queries on every prefix of every key ever used
    let mut prefixes: Vec<(String, Key)> = vec![];
    for (name, key) in universe {
        for l in 0..=key.len() {
            let p = (name.clone(), key[..l].to_vec());
            if !prefixes.contains(&p) {
                prefixes.push(p);
            }
        }
    }
    for (name, prefix) in &prefixes {
        let exp: Vec<(Key, Vec<u8>)> = want
            .iter()
            .filter(|((n, k), _)| n == name && k.len() >= prefix.len() && k[..prefix.len()] == prefix[..])
            .map(|((_, k), v)| (k.clone(), v.clone()))
            .collect();
        let got: Result<Vec<(Key, Vec<u8>)>, _> = q
            .query_prefix(name, &to_keys(prefix))
            .and_then(|it| it.map(|f| f.map(|f| (from_keys(&f.key), f.value.to_vec()))).collect());
        match got {
            Ok(g) => {
                if !g.windows(2).all(|w| w[0].0 < w[1].0) {
                    obs.fail(prop, "prefix-results-not-in-ascending-key-order", json!({"where": what, "name": name, "prefix": format!("{prefix:?}")}));
                }
                if g != exp {
                    obs.fail(prop, "prefix-query-differs-from-map", json!({"where": what, "name": name, "prefix": format!("{prefix:?}"), "got": g.len(), "want": exp.len(), "got_keys": format!("{:?}", g.iter().map(|x| &x.0).take(6).collect::<Vec<_>>()), "want_keys": format!("{:?}", exp.iter().map(|x| &x.0).take(6).collect::<Vec<_>>())}));
                }
                if !exp.is_empty() {
                    obs.count("nonempty_prefix_queries", 1);
                }
            }
            Err(e) => obs.fail(prop, "prefix-query-error", json!({"where": what, "err": e.to_string()})),
        }
        obs.count("prefix_queries", 1);
    }
}

fn mkcmd(rng: &mut Rng, parent: Prior<Address>, init: bool) -> WireCmd {
    let mut id = [0u8; 32];
    rng.fill(&mut id);
    WireCmd { id: cmd_id(&id), prio: if init { Priority::Init } else { Priority::Basic(0) }, parent, policy: init.then(|| b"p".to_vec()), data: vec![1, 2, 3] }
}

/// One random write; returns the touched key.
fn write_op(rng: &mut Rng, p: &mut impl QueryMut, m: &mut Map, universe: &mut Vec<(String, Key)>, serial: &mut u32) {
    let name = FNAMES[rng.usize(3)].to_string();
    // bias to keys already used so overwrites and deletes hit
    let key = if !universe.is_empty() && rng.chance(1, 2) { universe[rng.usize(universe.len())].1.clone() } else { gkey(rng) };
    if !universe.contains(&(name.clone(), key.clone())) {
        universe.push((name.clone(), key.clone()));
    }
    if rng.chance(3, 10) {
        p.delete(name.clone(), to_keys(&key)).expect("delete");
        m.remove(&(name, key));
    } else {
        *serial += 1;
        let v = serial.to_le_bytes().to_vec();
        p.insert(name.clone(), to_keys(&key), v.clone().into_boxed_slice()).expect("insert");
        m.insert((name, key), v);
    }
}

fn c12_case(cs: u64, mon: &mut Monitor) {
    let mut rng = Rng::new(cs);
    let mut obs = Obs::default();
    let mut provider = LinearStorageProvider::new(Manager::new());
    let mut m = Map::new();
    let mut universe: Vec<(String, Key)> = vec![];
    let mut serial = 0u32;
    // init segment, with facts
    let mut p = provider.new_perspective(PolicyId::new(0));
    for _ in 0..rng.urange(0, 4) {
        write_op(&mut rng, &mut p, &mut m, &mut universe, &mut serial);
    }
    let init = mkcmd(&mut rng, Prior::None, true);
    p.add_command(&init).expect("add init");
    check_queries(&p, &m, &universe, "C12", "init perspective", &mut obs);
    let (_gid, storage) = provider.new_storage(p).expect("new storage");
    let mut head = storage.get_heads().unwrap().iter().next().unwrap();
    check_queries(&storage.fact_cache().unwrap(), &m, &universe, "C12", "fact cache after init", &mut obs);
    let segments = rng.urange(1, 40);
    // per command snapshots for mid-segment rebuild checks: (location, map)
    let mut snaps: Vec<(Location, Map)> = vec![(head.location(), m.clone())];
    let mut max_depth_probe = 0u64;
    for s in 0..segments {
        let mut p = storage.get_linear_perspective(head.location()).expect("perspective");
        let ncmd = rng.weighted(&[6, 3, 1]) + 1;
        let mut parent = head.address();
        let mut locs = vec![];
        for c in 0..ncmd {
            for _ in 0..rng.weighted(&[2, 3, 3, 2, 1]) {
                write_op(&mut rng, &mut p, &mut m, &mut universe, &mut serial);
            }
            let cmd = mkcmd(&mut rng, Prior::Single(parent), false);
            p.add_command(&cmd).expect("add command");
            parent = Address { id: cmd.id, max_cut: MaxCut::new(parent.max_cut.get() + 1) };
            locs.push((parent, m.clone()));
            if c == 0 || rng.chance(1, 3) {
                check_queries(&p, &m, &universe, "C12", "in-flight perspective at command boundary", &mut obs);
            }
        }
        let seg = storage.write(p).expect("write segment");
        let hl = seg.head_location().unwrap();
        head = LocatedAddress { id: seg.head_id(), segment: hl.segment, max_cut: hl.max_cut };
        let idx = seg.facts().expect("segment facts");
        check_queries(&idx, &m, &universe, "C12", "written fact index", &mut obs);
        storage.commit_heads(HeadSet::single(head), idx).expect("commit heads");
        if s % 5 == 4 || s + 1 == segments {
            check_queries(&storage.fact_cache().unwrap(), &m, &universe, "C12", "committed fact cache", &mut obs);
        }
        for (a, snap) in locs {
            snaps.push((Location::new(hl.segment, a.max_cut), snap));
        }
        max_depth_probe += 1;
    }
    // Rebuilds at arbitrary earlier commands (mid-segment): fact perspective and linear perspective.
    for _ in 0..8.min(snaps.len()) {
        let (loc, snap) = &snaps[rng.usize(snaps.len())];
        match storage.get_fact_perspective(*loc) {
            Ok(fp) => check_queries(&fp, snap, &universe, "C12", "fact perspective rebuilt at an earlier command", &mut obs),
            Err(e) => obs.fail("C12", "get_fact_perspective-error", json!({"err": e.to_string()})),
        }
        match storage.get_linear_perspective(*loc) {
            Ok(lp) => check_queries(&lp, snap, &universe, "C12", "linear perspective opened at an earlier command", &mut obs),
            Err(e) => obs.fail("C12", "get_linear_perspective-error", json!({"err": e.to_string()})),
        }
        // writing a fact perspective (as a braid does) yields an index with the same answers
        if let Ok(mut fp) = storage.get_fact_perspective(*loc) {
            let mut sm = snap.clone();
            for _ in 0..rng.urange(0, 4) {
                write_op(&mut rng, &mut fp, &mut sm, &mut universe, &mut serial);
            }
            match storage.write_facts(fp) {
                Ok(idx) => check_queries(&idx, &sm, &universe, "C12", "fact index written from a fact perspective", &mut obs),
                Err(e) => obs.fail("C12", "write_facts-error", json!({"err": e.to_string()})),
            }
        }
    }
    mon.eval();
    mon.max("max_segments_chained", max_depth_probe);
    if segments > 16 {
        mon.count("cases_deeper_than_compaction_limit", 1);
    }
    if segments >= 2 && universe.len() >= 3 {
        mon.nontrivial(mix2(hash_of(&universe), segments as u64));
    }
    mon.sample(|| json!({"case_seed": cs, "segments": segments, "keys_used": universe.len(), "live_facts": m.len(), "universe_head": format!("{:?}", universe.iter().take(5).collect::<Vec<_>>())}));
    for f in obs.findings {
        mon.violation(&f.sig, json!({"case": {"prop": "C12", "case_seed": cs}, "finding": f.detail}));
    }
    for (k, v) in obs.counts {
        mon.count(&k, v);
    }
}

fn c13_case(cs: u64, mon: &mut Monitor) {
    let mut rng = Rng::new(cs);
    let mut obs = Obs::default();
    let mut provider = LinearStorageProvider::new(Manager::new());
    let mut m = Map::new();
    let mut universe: Vec<(String, Key)> = vec![];
    let mut serial = 0u32;
    let mut p = provider.new_perspective(PolicyId::new(0));
    write_op(&mut rng, &mut p, &mut m, &mut universe, &mut serial);
    let init = mkcmd(&mut rng, Prior::None, true);
    p.add_command(&init).unwrap();
    let (_g, storage) = provider.new_storage(p).unwrap();
    let mut head = storage.get_heads().unwrap().iter().next().unwrap();
    // a few committed segments so the perspective has a real prior
    for _ in 0..rng.urange(0, 3) {
        let mut p = storage.get_linear_perspective(head.location()).unwrap();
        write_op(&mut rng, &mut p, &mut m, &mut universe, &mut serial);
        let cmd = mkcmd(&mut rng, Prior::Single(head.address()), false);
        p.add_command(&cmd).unwrap();
        let seg = storage.write(p).unwrap();
        let hl = seg.head_location().unwrap();
        head = LocatedAddress { id: seg.head_id(), segment: hl.segment, max_cut: hl.max_cut };
        storage.commit_heads(HeadSet::single(head), seg.facts().unwrap()).unwrap();
    }
    let mut p = storage.get_linear_perspective(head.location()).unwrap();
    // stack of (checkpoint, map snapshot, head address) taken at command boundaries
    let mut stack = vec![];
    let mut parent = head.address();
    let mut ops = vec![];
    let mut reverts = 0;
    let mut reverts_with_pending_writes = 0;
    let mut pending_writes = false;
    for _ in 0..rng.urange(5, 40) {
        match rng.weighted(&[5, 3, 2, 2]) {
            0 => {
                write_op(&mut rng, &mut p, &mut m, &mut universe, &mut serial);
                pending_writes = true;
                ops.push("write");
            }
            1 => {
                let cmd = mkcmd(&mut rng, Prior::Single(parent), false);
                p.add_command(&cmd).unwrap();
                parent = Address { id: cmd.id, max_cut: MaxCut::new(parent.max_cut.get() + 1) };
                pending_writes = false;
                ops.push("command");
            }
            2 => {
                // checkpoints have command granularity: take them where the runtime does,
                // right at a command boundary (no writes pending since the last command)
                if !pending_writes {
                    stack.push((p.checkpoint(), m.clone(), parent));
                    ops.push("checkpoint");
                }
            }
            _ => {
                if !stack.is_empty() {
                    let keep = rng.usize(stack.len());
                    stack.truncate(keep + 1);
                    let (cp, snap, par) = stack.pop().unwrap();
                    if pending_writes {
                        reverts_with_pending_writes += 1;
                    }
                    let idx = cp.index;
                    match p.revert(cp) {
                        Ok(()) => {
                            m = snap;
                            parent = par;
                            pending_writes = false;
                            reverts += 1;
                            ops.push("revert");
                            check_queries(&p, &m, &universe, "C13", "perspective after revert", &mut obs);
                            match p.head_address() {
                                Ok(Prior::Single(a)) if a == parent => {}
                                other => obs.fail("C13", "head-address-after-revert-differs", json!({"got": format!("{other:?}"), "ops": ops})),
                            }
                            // the same checkpoint stays usable
                            stack.push((aranya_runtime::Checkpoint { index: idx }, m.clone(), parent));
                        }
                        Err(e) => obs.fail("C13", "revert-error", json!({"err": e.to_string(), "ops": ops})),
                    }
                }
            }
        }
    }
    // What survives a write must equal the model too (reverted writes never reach storage).
    let cmd = mkcmd(&mut rng, Prior::Single(parent), false);
    p.add_command(&cmd).unwrap();
    match storage.write(p) {
        Ok(seg) => check_queries(&seg.facts().unwrap(), &m, &universe, "C13", "segment written after reverts", &mut obs),
        Err(e) => obs.fail("C13", "write-after-revert-error", json!({"err": e.to_string()})),
    }
    mon.eval();
    mon.count("reverts", reverts);
    mon.count("reverts_discarding_writes_of_a_failed_rule", reverts_with_pending_writes);
    if reverts >= 1 {
        mon.nontrivial(hash_of(&ops));
    }
    mon.sample(|| json!({"case_seed": cs, "ops": ops}));
    for f in obs.findings {
        mon.violation(&f.sig, json!({"case": {"prop": "C13", "case_seed": cs}, "finding": f.detail}));
    }
    for (k, v) in obs.counts {
        mon.count(&k, v);
    }
}

struct MsgSink(Vec<Vec<u8>>, Vec<&'static str>);
impl<'b> Sink<&'b [u8]> for MsgSink {
    fn begin(&mut self) {
        self.1.push("begin");
    }
    fn consume(&mut self, e: &'b [u8]) {
        self.0.push(e.to_vec());
    }
    fn rollback(&mut self) {
        self.1.push("rollback");
    }
    fn commit(&mut self) {
        self.1.push("commit");
    }
}

fn model_prefix(m: &Facts, name: &str, prefix: &Key) -> Vec<(Key, Vec<u8>)> {
    m.iter()
        .filter(|((n, k), _)| n == name && k.len() >= prefix.len() && k[..prefix.len()] == prefix[..])
        .map(|((_, k), v)| (k.clone(), v.clone()))
        .collect()
}

fn c14_case(cs: u64, mon: &mut Monitor, c13: Option<&mut Monitor>) {
    let mut rng = Rng::new(cs);
    let mut obs = Obs::default();
    // committed graph with facts (possibly multi-head)
    let mut cfg = GenCfg::small(&mut rng);
    cfg.n = rng.urange(4, 30);
    cfg.p_quiet = 300;
    let mut model = DagGen::new(cfg, &mut rng).build();
    let init = model.node(0).id;
    let mut rep = MemReplica::new_mem(&init);
    let none = Bits::new(model.len());
    let steps = history(&model, &|_| true, &HistCfg::random(&mut rng), &mut rng);
    let out = run_history(&mut rep, &mut model, &steps, &none, &RunCfg { check_every_commit: false, check_blocks: false }, &mut obs);
    if out.aborted {
        return;
    }
    let committed = rep.facts().unwrap();
    let heads_before = rep.heads().unwrap();
    let mut session = match rep.client.session(rep.graph) {
        Ok(s) => s,
        Err(e) => {
            obs.fail("C14", "session-creation-failed", json!({"err": e.to_string()}));
            return;
        }
    };
    let mut peer_session = rep.client.session(rep.graph).unwrap();
    let mut sm: Facts = committed.clone(); // model of session A
    let mut pm: Facts = committed.clone(); // model of the receiving session
    let mut msgs = MsgSink(vec![], vec![]);
    let mut ops_log = vec![];
    let mut failing_ops = 0;
    let observe_all: Vec<(u8, Key)> = {
        let mut v: Vec<(u8, Key)> = (0..=NAMES.len() as u8).map(|n| (n, vec![])).collect();
        for _ in 0..4 {
            let k = gen_key(&mut rng);
            for l in 1..=k.len() {
                v.push((rng.below(3) as u8, k[..l].to_vec()));
            }
        }
        v
    };
    let check_obs = |rep: &mut MemReplica, model_facts: &Facts, what: &str, obs: &mut Obs| {
        let log = rep.take_log();
        let Some(Event::Observed(rows)) = log.iter().rev().find(|e| matches!(e, Event::Observed(_))) else {
            obs.fail("C14", "session-observation-missing", json!({"where": what}));
            return;
        };
        for (name, prefix, got) in rows {
            let want = model_prefix(model_facts, name, prefix);
            if !got.windows(2).all(|w| w[0].0 < w[1].0) {
                obs.fail("C14", "session-prefix-results-not-in-key-order", json!({"where": what, "name": name, "prefix": format!("{prefix:?}")}));
            }
            if *got != want {
                obs.fail("C14", "session-query-differs-from-overlay-model", json!({"where": what, "name": name, "prefix": format!("{prefix:?}"), "got": got.len(), "want": want.len()}));
            }
            obs.count("session_prefix_queries", 1);
        }
    };
    for step in 0..rng.urange(3, 14) {
        // an operation: action publishing commands whose scripts write/delete (and may fail)
        let npub = rng.urange(1, 3);
        let mut publish = vec![];
        let mut fail_kind = "ok";
        for i in 0..npub {
            let mut ops = vec![];
            if rng.chance(1, 4) {
                // exact query through Require: compare acceptance with the model
                let n = rng.below(3) as u8;
                let k = if rng.bool() { sm.keys().nth(rng.usize(sm.len().max(1))).map(|x| x.1.clone()).unwrap_or_default() } else { gen_key(&mut rng) };
                let cur = sm.get(&(NAMES[n as usize].to_string(), k.clone())).cloned();
                let v = if rng.chance(3, 4) { cur } else { Some(vec![0xEE]) };
                ops.push(Op::Require { n, k, v });
            }
            for j in 0..rng.urange(0, 3) {
                let n = rng.below(3) as u8;
                // delete committed facts too
                let k = if rng.bool() && !sm.is_empty() { sm.keys().nth(rng.usize(sm.len())).map(|x| x.1.clone()).unwrap() } else { gen_key(&mut rng) };
                if rng.chance(1, 3) {
                    ops.push(Op::Del { n, k });
                } else {
                    ops.push(Op::Put { n, k, v: vec![0x5E, step as u8, i as u8, j as u8] });
                }
            }
            publish.push(PubSpec { prio: Some(Prio::Basic(0)), script: Script { tag: 0x1400_0000 + (step * 8 + i) as u32, quiet: rng.bool(), ops } });
        }
        let mut act = ActionScript { dump: false, observe: vec![], publish, fail_after: None, nonce: cs ^ ((step as u64) << 20) };
        match rng.weighted(&[6, 2, 2]) {
            1 => {
                act.fail_after = Some(rng.usize(npub + 1));
                fail_kind = "action-fails";
            }
            2 => {
                let j = rng.usize(npub);
                let at = rng.usize(act.publish[j].script.ops.len() + 1);
                act.publish[j].script.ops.insert(at, Op::Fail);
                fail_kind = "published-command-fails-after-writes";
            }
            _ => {}
        }
        // model outcome
        let mut trial = sm.clone();
        let mut model_ok = true;
        for (i, p) in act.publish.iter().enumerate() {
            if act.fail_after == Some(i) {
                model_ok = false;
                break;
            }
            if run_script(&p.script, &mut trial).is_err() {
                model_ok = false;
                break;
            }
        }
        if act.fail_after == Some(act.publish.len()) {
            model_ok = false;
        }
        let n_msgs_before = msgs.0.len();
        let res = session.action(&rep.client, &mut rep.sink, &mut msgs, &act);
        ops_log.push(format!("action[{fail_kind}] -> {}", if res.is_ok() { "ok" } else { "err" }));
        match (res.is_ok(), model_ok) {
            (true, true) => sm = trial,
            (false, false) => {
                failing_ops += 1;
                // messages of a failed action must not be delivered: the sink was rolled back
                if msgs.1.last() != Some(&"rollback") && msgs.0.len() > n_msgs_before {
                    obs.fail("C14", "failed-session-action-left-messages-without-rollback", json!({"ops": ops_log}));
                }
                msgs.0.truncate(n_msgs_before);
            }
            (a, b) => {
                obs.fail("C14", "session-action-outcome-differs-from-model", json!({"got_ok": a, "model_ok": b, "ops": ops_log, "kind": fail_kind}));
                break;
            }
        }
        // observe (also after a failed op: must equal the pre-op state)
        let look = ActionScript { dump: false, observe: observe_all.clone(), publish: vec![], fail_after: None, nonce: 0 };
        rep.take_log();
        if let Err(e) = session.action(&rep.client, &mut rep.sink, &mut MsgSink(vec![], vec![]), &look) {
            obs.fail("C14", "observing-session-action-failed", json!({"err": e.to_string()}));
        }
        check_obs(&mut rep, &sm, if model_ok { "after successful session action" } else { "after failed session action" }, &mut obs);
        // deliver this step's messages to the peer session (receive path), sometimes corrupted
        for mbytes in msgs.0.drain(n_msgs_before..).collect::<Vec<_>>() {
            let script = Script::decode(&mbytes[32..]);
            let mut t = pm.clone();
            let ok_model = script.as_ref().map(|s| run_script(s, &mut t).is_ok()).unwrap_or(false);
            let r = peer_session.receive(&rep.client, &mut rep.sink, &mbytes);
            match (r.is_ok(), ok_model) {
                (true, true) => pm = t,
                (false, false) => failing_ops += 1,
                (a, b) => obs.fail("C14", "session-receive-outcome-differs-from-model", json!({"got_ok": a, "model_ok": b})),
            }
            ops_log.push("receive".into());
        }
        if rng.chance(1, 3) {
            rep.take_log();
            let _ = peer_session.action(&rep.client, &mut rep.sink, &mut MsgSink(vec![], vec![]), &look);
            check_obs(&mut rep, &pm, "receiving session", &mut obs);
        }
    }
    // no session operation changes the graph
    if rep.heads().unwrap() != heads_before {
        obs.fail("C14", "session-changed-graph-heads", json!({"ops": ops_log}));
    }
    if rep.facts().unwrap() != committed {
        obs.fail("C14", "session-changed-committed-facts", json!({"ops": ops_log}));
    }
    let case = json!({"prop": "C14", "case_seed": cs});
    mon.eval();
    mon.count("failing_session_operations", failing_ops);
    if ops_log.len() >= 3 {
        mon.nontrivial(hash_of(&ops_log) ^ model.dag.shape_hash());
    }
    mon.sample(|| json!({"case_seed": cs, "committed_facts": committed.len(), "heads": heads_before.len(), "ops": ops_log}));
    let mut c13 = c13;
    for f in obs.findings {
        if f.prop == "C14" {
            mon.violation(&f.sig, json!({"case": case, "finding": f.detail}));
            // A session that disagrees with its overlay model after a failing operation has not
            // been reverted exactly: that is C13's session half. (When C14 is part of the run its
            // own monitor reports it; the copy keeps `--prop C13` from missing it.)
            if failing_ops > 0 {
                if let Some(c) = c13.as_deref_mut() {
                    c.violation(&format!("C14:{}", f.sig), json!({"case": case, "finding": f.detail}));
                }
            }
        }
    }
    if let Some(c) = c13.as_deref_mut() {
        // the failed-operation path is the session's revert-to-checkpoint: C13's session half
        c.count("session_reverts_observed", failing_ops);
    }
    for (k, v) in obs.counts {
        mon.count(&k, v);
    }
}

fn main() {
    let args = Args::parse();
    let mut c12 = Monitor::new("C12", "random insert/delete streams over compound keys (0-3 components incl. empty, NUL and prefix-of-each-other components; 3 fact names) spread over 1-40 chained segments of 1-3 commands (chains deeper than the 16-index compaction limit, tombstones over older indexes); after every command boundary, every written index, the committed fact cache and rebuilds at earlier commands: exact queries on every key ever used and prefix queries on every prefix of them vs a BTreeMap. non-trivial = >=2 segments and >=3 distinct keys; distinct by key-universe hash x segments")
        .min(20)
        .require("cases_deeper_than_compaction_limit", "fact index chains must exceed the compaction depth")
        .require("nonempty_prefix_queries", "prefix queries must return facts");
    let mut c13 = Monitor::new("C13", "linear perspectives on committed graphs: random writes, deletes, add_command, checkpoints (at command boundaries, where the runtime takes them) and reverts to any earlier checkpoint, incl. reverts that must discard writes made after the last command (a rule that wrote then failed); model = stack of map snapshots; after each revert all exact/prefix queries and head_address are compared, and the finally written segment too. Session half: failing session actions/receives revert the session (counted from the C14 workload). non-trivial = >=1 revert; distinct by op-sequence hash")
        .min(20)
        .require("reverts_discarding_writes_of_a_failed_rule", "reverts with pending writes at equal command count");
    let mut c14 = Monitor::new("C14", "committed graphs (generated DAGs, possibly multi-head) + ephemeral sessions: session actions publish 1-3 commands whose scripts insert/delete (also committed facts) and exact-query via Require; actions fail after j publishes or by a write-then-fail command; messages are received by a second session; after every operation a second action records prefix queries (all names + sampled prefixes) compared with model = committed facts overlaid with the session's writes; heads and committed facts compared before/after. non-trivial = >=3 session operations; distinct by op log x DAG shape")
        .min(20)
        .require("failing_session_operations", "failing session operations must occur");
    if args.scale < 100 {
        // reduced slices (Miri): the interpreter's own reports are the oracle; keep only the
        // requirement that something non-trivial ran
        for m in [&mut c12, &mut c13, &mut c14] {
            m.min_nontrivial = 2;
            m.required.clear();
        }
    }
    if let Some(r) = args.replay_case() {
        let c = &r["case"]["case"];
        let cs = c["case_seed"].as_u64().unwrap();
        match c["prop"].as_str().unwrap_or("C12") {
            "C12" => c12_case(cs, &mut c12),
            "C13" => c13_case(cs, &mut c13),
            _ => c14_case(cs, &mut c14, None),
        }
        finish_all(&args, vec![c12, c13, c14]);
    }
    let run = |id: &str, n: u64, mon: &mut Monitor, f: &(dyn Fn(u64, &mut Monitor) + Sync)| {
        if !args.wants(id) {
            return;
        }
        struct S(Monitor);
        unsafe impl Send for S {}
        let tag = id.as_bytes()[2] as u64;
        let parts = par_shards(cores().min(n as usize).max(1), |sh, tot| {
            let mut w = mon.worker();
            let mut i = sh as u64;
            while i < n {
                let cs = mix2(args.seed ^ 0xfac7, (tag << 32) | i);
                if let Err(p) = catch(|| f(cs, &mut w)) {
                    let site = p.site();
                    if site.starts_with("crates/") {
                        w.violation(&format!("runtime-panic:{site}"), json!({"case": {"prop": w.id, "case_seed": cs}, "panic": p.what}));
                    } else {
                        w.inconclusive(&format!("harness panic: {}", p.what));
                    }
                }
                i += tot as u64;
            }
            S(w)
        });
        for p in parts {
            mon.absorb(p.0);
        }
    };
    run("C12", args.n(1500, 40_000), &mut c12, &c12_case);
    run("C13", args.n(3000, 300_000), &mut c13, &c13_case);
    if args.wants("C14") || args.wants("C13") {
        // C14 workload (its failing operations are also C13's session half)
        let mut n = args.n(if args.wants("C14") { 600 } else { 300 }, 12_000);
        if let Some(k) = args.get("miri_cases") {
            n = k.parse().unwrap_or(3);
        }
        struct S(Monitor, Monitor);
        unsafe impl Send for S {}
        let parts = par_shards(cores().min(n as usize).max(1), |sh, tot| {
            let mut w = c14.worker();
            let mut w13 = c13.worker();
            let mut i = sh as u64;
            while i < n {
                let cs = mix2(args.seed ^ 0x5e55, i);
                if let Err(p) = catch(|| c14_case(cs, &mut w, Some(&mut w13))) {
                    let site = p.site();
                    if site.starts_with("crates/") {
                        w.violation(&format!("runtime-panic:{site}"), json!({"case": {"prop": "C14", "case_seed": cs}, "panic": p.what}));
                    } else {
                        w.inconclusive(&format!("harness panic: {}", p.what));
                    }
                }
                i += tot as u64;
            }
            S(w, w13)
        });
        for p in parts {
            c14.absorb(p.0);
            c13.absorb(p.1);
        }
    }
    finish_all(&args, vec![c12, c13, c14]);
}
