//! Sync monitors: C16 (repeated sync delivers everything), C17 (sessions sound and terminating),
//! C18 (message handling never panics); also feeds C01 with sync topologies.

use aranya_crypto::Rng as CryptoRng;
use aranya_runtime::{
    Command, PeerCache, SyncError, SyncIncoming, SyncRequester, SyncResponder, MAX_SYNC_MESSAGE_SIZE,
};
use graphkit::{dag::*, driver::*, r#gen::*, model::*, replica::*, syncer::*};
use vcore::*;

fn down_set(model: &Model, rng: &mut Rng, how: u64) -> Bits {
    let n = model.len();
    let mut d = Bits::new(n);
    d.set(0);
    match how {
        0 => {}                                   // only init
        1 => {
            for v in 0..n {
                d.set(v);
            }
        }
        2 => {
            // all but one branch: drop one tip's exclusive ancestry
            for v in 0..n {
                d.set(v);
            }
            let tips: Vec<usize> = (0..n).filter(|&v| model.children(v).is_empty()).collect();
            let t = *rng.pick(&tips);
            // remove t and ancestors of t that have no other descendant outside anc(t)
            let mut keep = Bits::new(n);
            for &o in &tips {
                if o != t {
                    keep.or(model.ancestors(o));
                }
            }
            keep.set(0);
            d = keep;
        }
        _ => {
            for _ in 0..rng.urange(1, 6) {
                let v = rng.usize(n);
                d.or(model.ancestors(v));
            }
        }
    }
    d
}

fn build_graph(rng: &mut Rng, kind: u64, scale: u64) -> Model {
    let sz = |n: usize| (n as u64 * scale / 100).max(4) as usize;
    if kind < 6 {
        let mut cfg = GenCfg::small(rng);
        cfg.n = rng.urange(8, 160);
        cfg.p_quiet = 600;
        return DagGen::new(cfg, rng).build();
    }
    let cfg = GenCfg { n: 0, shape: Shape::Random, id_style: *rng.pick(&[IdStyle::Random, IdStyle::Ascending, IdStyle::Descending]), prios: 2, p_finalize: 0, finalize_safe: true, p_require: 0, p_quiet: 900, p_del: 200, max_ops: 1, width: 0 };
    let mut g = DagGen::new(cfg, rng);
    match kind {
        6 => {
            // wide fan: more heads than the 100-head sample, some extended
            let root = g.chain(0, 2);
            let w = sz(g.rng.urange(150, 400));
            let mut tips = vec![];
            for _ in 0..w {
                tips.push(g.child(root));
            }
            // a merge high above a low fan (skip_jump / sampling hypothesis)
            let a = g.chain(tips[0], sz(120));
            let b = g.chain(tips[1], sz(130));
            if let Some(m) = g.merge(a, b) {
                g.chain(m, 5);
            }
        }
        7 => {
            // long chain: responses stop in the middle of long segments
            let l0 = sz(g.rng.urange(250, 700));
            g.chain(0, l0);
            let t = g.model.len() / 2;
            g.chain(t, sz(150));
        }
        8 => {
            // many short segments (>100 segments per session) on several branches
            let r = g.chain(0, 3);
            for _ in 0..g.rng.urange(2, 5) {
                g.chain(r, sz(120));
            }
        }
        _ => {
            // ladders with deep merges
            let mut l = g.child(0);
            let mut r = g.child(0);
            for _ in 0..sz(60) {
                l = g.chain(l, 3);
                r = g.chain(r, 2);
                if let Some(m) = g.merge(l, r) {
                    l = g.child(m);
                    if g.rng.bool() {
                        r = g.child(m);
                    }
                }
            }
        }
    }
    g.build_as_is()
}

struct Rep {
    rep: MemReplica,
    set: Bits,
}

fn make_rep(model: &mut Model, d: &Bits, rng: &mut Rng, many_segments: bool, few_segments: bool, obs: &mut Obs) -> Option<Rep> {
    make_rep_with(model, d, rng, many_segments, few_segments, None, obs)
}

fn make_rep_with(model: &mut Model, d: &Bits, rng: &mut Rng, many_segments: bool, few_segments: bool, explicit: Option<Vec<Step>>, obs: &mut Obs) -> Option<Rep> {
    let init = model.node(0).id;
    let mut rep = MemReplica::new_mem(&init);
    let hcfg = if few_segments {
        // everything in as few segments as the graph allows: the requester's sample (one address
        // per segment) is then tiny, and long segments continue past branch points
        HistCfg { order: *rng.pick(&[Order::Creation, Order::DepthFirst]), max_batch: 1000, p_flush: 0, p_commit: 0, p_dup: 0 }
    } else {
        HistCfg {
        order: *rng.pick(&[Order::Creation, Order::RandomTopo, Order::DepthFirst]),
        max_batch: if many_segments { *rng.pick(&[1, 2, 3]) } else { *rng.pick(&[1, 5, 50, 1000]) },
        p_flush: if many_segments { 900 } else { *rng.pick(&[0, 100, 500]) },
        p_commit: *rng.pick(&[0, 50, 300]),
        p_dup: 0,
        }
    };
    let dd = d.clone();
    let steps = match explicit {
        Some(st) => st,
        None => history(model, &|v| dd.get(v), &hcfg, rng),
    };
    let none = Bits::new(model.len());
    let out = run_history(&mut rep, model, &steps, &none, &RunCfg { check_every_commit: false, check_blocks: false }, obs);
    if out.aborted || out.committed != *d {
        return None;
    }
    Some(Rep { rep, set: d.clone() })
}

/// Overlaps and layouts aimed at the responder's coverage bookkeeping: a requester whose
/// storage has few, long segments (tiny sample) and whose newest known-to-both command sits
/// on a branch that forks from the middle of a responder segment, or inside a long trunk
/// segment with many branches forking below it. Returns (down-set, few-segments layout) for
/// requester and responder.
fn directed_sets(model: &Model, kind: u64, rng: &mut Rng) -> Option<[(Bits, bool, Option<Vec<Step>>); 2]> {
    let n = model.len();
    let mut all = Bits::new(n);
    for v in 0..n {
        all.set(v);
    }
    let mut tips: Vec<usize> = (0..n).filter(|&v| model.children(v).is_empty()).collect();
    tips.sort_by_key(|&v| std::cmp::Reverse(model.node(v).max_cut));
    match kind {
        7 => {
            // chain 0..=l0 with a branch from its middle: tips = trunk tip and branch tip
            let branch_tip = n - 1;
            let first_branch = (1..n).find(|&v| matches!(model.node(v).par, Par::Single(p) if p + 1 != v))?;
            let Par::Single(fork) = model.node(first_branch).par else { return None };
            let trunk_tip = first_branch - 1;
            if fork >= trunk_tip {
                return None;
            }
            // holding nothing of the trunk beyond the fork point leaves the branch tip as the
            // only recent address the responder can recognise
            let p = if rng.chance(2, 3) { fork } else { fork + rng.urange(0, (trunk_tip - fork).min(40)) };
            let mut a = model.ancestors(branch_tip).clone();
            a.or(model.ancestors(p));
            let b = if rng.chance(5, 6) {
                all
            } else {
                let mut b = model.ancestors(trunk_tip).clone();
                b.or(model.ancestors(first_branch + rng.usize(branch_tip - first_branch + 1)));
                b
            };
            // the responder's trunk segment around the fork point should continue past it but
            // end below the first branch segment: small random batches do that
            // Half of the time lay the responder out by hand: the trunk segment around the fork
            // point continues k commands past it, and the first branch segment is at least as long.
            let b_is_all = (0..n).all(|v| b.get(v));
            let steps = if b_is_all && rng.chance(3, 4) {
                let k = rng.urange(1, 6).min(trunk_tip - fork);
                let m = (k + rng.urange(0, 8)).min(branch_tip - first_branch + 1);
                let cut1 = fork + k;
                // everything below the segment around the fork point in 1-2 command segments: more
                // than the responder's 100-segment budget per session when the fork is deep enough
                let mut st = vec![];
                let lo = fork.saturating_sub(rng.urange(0, 3));
                let mut v = 0;
                while v < lo {
                    let e = (v + rng.urange(1, 2)).min(lo);
                    st.push(Step::Add((v..e).collect()));
                    st.push(Step::Commit);
                    v = e;
                }
                st.push(Step::Add((lo..=cut1).collect()));
                st.push(Step::Commit);
                if cut1 < trunk_tip {
                    let mid = cut1 + 1 + rng.usize(trunk_tip - cut1);
                    st.push(Step::Add((cut1 + 1..=mid).collect()));
                    if mid < trunk_tip {
                        st.push(Step::Commit);
                        st.push(Step::Add((mid + 1..=trunk_tip).collect()));
                    }
                    st.push(Step::Commit);
                }
                st.push(Step::Add((first_branch..first_branch + m).collect()));
                st.push(Step::Commit);
                if first_branch + m <= branch_tip {
                    st.push(Step::Add((first_branch + m..=branch_tip).collect()));
                    st.push(Step::Commit);
                }
                Some(st)
            } else {
                None
            };
            Some([(a, true, None), (b, false, steps)])
        }
        6 => {
            // fan: the requester starts with the init command or somewhere on a long chain
            let mut a = Bits::new(n);
            a.set(0);
            if rng.chance(1, 2) {
                let deep = tips[0];
                let mut v = deep;
                for _ in 0..rng.urange(0, 60) {
                    if let Par::Single(p) = model.node(v).par {
                        v = p;
                    }
                }
                a.or(model.ancestors(v));
            }
            Some([(a, true, None), (all, true, None)])
        }
        _ => None,
    }
}

/// Attribute a session without progress to the known sampling/window limitation when the
/// evidence is unambiguous: every missing command lies more than SEGMENT_BUFFER_MAX (100)
/// max_cuts above the highest sampled address the responder holds (the responder only looks
/// at segments up to that max_cut + 100 per session).
fn beyond_window(model: &Model, sample: &[aranya_runtime::Address], resp_set: &Bits, req_set: &Bits) -> Option<(u64, u64)> {
    if sample.is_empty() {
        return None;
    }
    let highest_have = sample
        .iter()
        .filter_map(|a| model.idx(a.id.as_array()).filter(|&v| resp_set.get(v)).map(|_| a.max_cut.get()))
        .max()
        .unwrap_or(0);
    let min_missing = resp_set.iter().filter(|&v| !req_set.get(v)).map(|v| model.node(v).max_cut).min()?;
    (min_missing > highest_have + 100).then_some((highest_have, min_missing))
}

fn sync_case(cs: u64, args: &Args, m16: &mut Monitor, m17: &mut Monitor, m01: &mut Monitor, corpus: &mut Vec<Vec<u8>>) {
    let mut rng = Rng::new(cs);
    // kinds 10 and 11 reuse the fan / chain-with-branch shapes with directed overlaps and
    // segment layouts (see `directed_sets`)
    let directed = cs % 12 >= 10;
    let kind = match cs % 12 {
        10 => 6,
        11 => 7,
        k => k,
    };
    let mut model = build_graph(&mut rng, kind, args.scale.min(100));
    let mut obs = Obs::default();
    let n_rep = if kind < 6 && rng.chance(1, 3) { rng.urange(3, 5) } else { 2 };
    let mut reps: Vec<Rep> = vec![];
    let dsets = if directed { directed_sets(&model, kind, &mut rng) } else { None };
    if dsets.is_some() {
        obs.count("directed_overlap_cases", 1);
    }
    for i in 0..n_rep {
        let how = if i == 0 { *rng.pick(&[0u64, 3, 3, 2]) } else { *rng.pick(&[1u64, 1, 3, 2]) };
        let (d, few, explicit) = match &dsets {
            Some(ds) => ds[i].clone(),
            None => (down_set(&model, &mut rng, how), false, None),
        };
        if explicit.is_some() {
            obs.count("hand_laid_out_responders", 1);
        }
        match make_rep_with(&mut model, &d, &mut rng, kind == 8 && !few, few, explicit, &mut obs) {
            Some(r) => reps.push(r),
            None => return,
        }
    }
    // peer caches: caches[i][j] = what i knows j has
    let mut caches: Vec<Vec<PeerCache>> = (0..n_rep).map(|_| (0..n_rep).map(|_| PeerCache::new()).collect()).collect();
    let mode_full = if directed && kind == 6 { rng.chance(1, 3) } else { cs % 3 != 0 };
    let mut sessions = 0u64;
    let mut max_missing = 0usize;
    let mut overlap_kind = String::new();
    // Phase 1: A (0) requests from B (1) until it has everything B has.
    {
        let (a, b) = {
            let (x, y) = reps.split_at_mut(1);
            (&mut x[0], &mut y[0])
        };
        let missing0 = b.set.iter().filter(|&v| !a.set.get(v)).count();
        max_missing = max_missing.max(missing0);
        overlap_kind = format!("A has {} / B has {} / missing {}", a.set.count(), b.set.count(), missing0);
        let mut guard = 0;
        let mut prev_sample: Option<Vec<aranya_runtime::Address>> = None;
        loop {
            let missing_before = b.set.iter().filter(|&v| !a.set.get(v)).count();
            if missing_before == 0 {
                break;
            }
            guard += 1;
            // Bound on sessions: every full session must progress; a one-response exchange may
            // spend its 100 commands on the common prefix when none of the requester's sample is
            // known to the responder, so allow one exchange per 100 responder commands on top.
            let bound = missing0 + 3 + if mode_full { 0 } else { b.set.count() / 100 + 1 };
            let req_heads = a.rep.heads().map(|h| h.len()).unwrap_or(0);
            if guard > bound {
                let sig = if req_heads > 100 { "repeated-sessions-never-deliver-everything:requester-holds-more-than-100-heads" } else { "repeated-sessions-do-not-deliver-everything-within-bound" };
                obs.fail("C16", sig, json!({"missing_initially": missing0, "still_missing": missing_before, "sessions": guard, "requester_heads": req_heads}));
                break;
            }
            let buf = *rng.pick(&[MAX_SYNC_MESSAGE_SIZE, MAX_SYNC_MESSAGE_SIZE, 4096, 700, 200]);
            let fresh_caches = rng.chance(1, 5);
            if fresh_caches {
                caches[0][1] = PeerCache::new();
                caches[1][0] = PeerCache::new();
            }
            let (c0, c1) = caches.split_at_mut(1);
            let ctx = json!({"session": guard, "missing_before": missing_before, "mode": if mode_full { "full" } else { "one-response" }, "buf": buf});
            if std::env::var("RT_SYNC_DEBUG").is_ok() {
                let miss: Vec<usize> = b.set.iter().filter(|&v| !a.set.get(v)).collect();
                eprintln!("[dbg] kind {kind} model {} A {} B {} missing {:?}", model.len(), a.set.count(), b.set.count(), miss);
                eprintln!("[dbg] A heads {:?}", a.rep.heads().map(|h| h.iter().map(|x| (model.idx(&x.0), x.1)).collect::<Vec<_>>()));
                eprintln!("[dbg] B heads {:?}", b.rep.heads().map(|h| h.iter().map(|x| (model.idx(&x.0), x.1)).collect::<Vec<_>>()));
                for &v in &miss { eprintln!("[dbg]   missing {v}: par {:?}", model.node(v).par); }
            }
            let out = sync_session(&mut a.rep, &mut b.rep, &mut c0[0][1], &mut c1[0][0], &mut model, &b.set, &mut a.set, if mode_full { SessionMode::Full } else { SessionMode::OneResponse }, buf, &mut obs, &ctx);
            sessions += 1;
            corpus_push(corpus, &out.messages);
            if guard == 1 {
                // also record the other message kinds a transport sees: subscribe, unsubscribe, push
                let mut extra = vec![];
                let mut buf = vec![0u8; MAX_SYNC_MESSAGE_SIZE];
                let mut rq = SyncRequester::new(a.rep.graph, CryptoRng);
                let heads = c0[0][1].session_heads();
                if let Ok(n) = rq.subscribe(&mut buf, a.rep.client.provider(), &heads, 5, u64::MAX, &mut a.rep.tbuf) {
                    extra.push(buf[..n].to_vec());
                }
                if let Ok(n) = rq.unsubscribe(&mut buf) {
                    extra.push(buf[..n].to_vec());
                }
                let mut rs = SyncResponder::new();
                let known: Vec<aranya_runtime::Address> = a.rep.heads().unwrap_or_default().iter().take(50).map(|h| graphkit::audit::addr(&h.0, h.1)).collect();
                if rs.start_session(0x5eed_u128 << 64 | guard as u128, b.rep.graph, u64::MAX, known).is_ok() {
                    if let Ok(n) = rs.push(&mut buf, b.rep.client.provider(), &mut b.rep.bufs.traversal) {
                        if n > 0 {
                            extra.push(buf[..n].to_vec());
                        }
                    }
                }
                corpus_push(corpus, &extra);
            }
            if out.aborted {
                break;
            }
            let missing_after = b.set.iter().filter(|&v| !a.set.get(v)).count();
            if missing_after >= missing_before && !mode_full {
                // One request/one response: "progress" is what the requester learns about the
                // responder (its peer cache), not necessarily a new command. Counted, bounded above.
                obs.count("one_response_exchanges_without_new_commands", 1);
                // Requester and responder are deterministic: an exchange that brought nothing new
                // and whose sample equals the previous exchange's sample (same peer caches) will
                // repeat forever. Report the livelock now instead of running to the session bound.
                if !fresh_caches && !out.sample.is_empty() && prev_sample.as_ref() == Some(&out.sample) {
                    let sig = if req_heads > 100 { "repeated-sessions-never-deliver-everything:requester-holds-more-than-100-heads" } else { "repeated-sessions-do-not-deliver-everything-within-bound" };
                    obs.fail("C16", sig, json!({"missing_initially": missing0, "still_missing": missing_after, "sessions": guard, "requester_heads": req_heads, "how": "two consecutive exchanges with the same sample delivered nothing new"}));
                    break;
                }
                prev_sample = Some(out.sample.clone());
                continue;
            }
            prev_sample = None;
            if missing_after >= missing_before {
                let window = beyond_window(&model, &out.sample, &b.set, &a.set);
                let sig = if req_heads > 100 {
                    "sync-session-made-no-progress:requester-holds-more-than-100-heads"
                } else if window.is_some() {
                    "sync-session-made-no-progress:missing-commands-above-the-responders-max_cut-window"
                } else {
                    "sync-session-made-no-progress-while-commands-were-missing"
                };
                obs.fail("C16", sig, json!({"ctx": ctx, "missing_before": missing_before, "missing_after": missing_after, "responses": out.responses, "commands_received": out.commands_received, "sample": out.sample_size, "highest_sampled_address_the_responder_holds_and_lowest_missing_max_cut": window, "requester_heads": a.rep.heads().map(|h| h.len()).unwrap_or(0)}));
                break;
            }
            // the committed graph of A is what the model says
            check_committed(&mut a.rep, &mut model, &a.set.clone(), &json!({"after": "sync session", "session": guard}), false, &mut obs);
        }
    }
    // Phase 2: random pair sessions in both directions until a full round moves nothing.
    let mut quiet_rounds = 0;
    let mut rounds = 0;
    while quiet_rounds < 1 && rounds < 400 {
        rounds += 1;
        let mut moved = false;
        let mut pairs: Vec<(usize, usize)> = (0..n_rep).flat_map(|i| (0..n_rep).filter(move |&j| j != i).map(move |j| (i, j))).collect();
        rng.shuffle(&mut pairs);
        for (i, j) in pairs {
            // i requests from j
            let (ri, rj) = if i < j {
                let (x, y) = reps.split_at_mut(j);
                (&mut x[i], &mut y[0])
            } else {
                let (x, y) = reps.split_at_mut(i);
                (&mut y[0], &mut x[j])
            };
            let before = ri.set.count();
            let missing_before = rj.set.iter().filter(|&v| !ri.set.get(v)).count();
            let (ci, cj) = if i < j {
                let (x, y) = caches.split_at_mut(j);
                (&mut x[i][j], &mut y[0][i])
            } else {
                let (x, y) = caches.split_at_mut(i);
                (&mut y[0][j], &mut x[j][i])
            };
            let ctx = json!({"phase": "both-directions", "round": rounds, "requester": i, "responder": j});
            let rset = rj.set.clone();
            let out = sync_session(&mut ri.rep, &mut rj.rep, ci, cj, &mut model, &rset, &mut ri.set, SessionMode::Full, MAX_SYNC_MESSAGE_SIZE, &mut obs, &ctx);
            sessions += 1;
            if out.aborted {
                rounds = 1000;
                break;
            }
            if ri.set.count() > before {
                moved = true;
            } else if missing_before > 0 {
                let rh = ri.rep.heads().map(|h| h.len()).unwrap_or(0);
                let window = beyond_window(&model, &out.sample, &rset, &ri.set);
                let sig = if rh > 100 {
                    "sync-session-made-no-progress:requester-holds-more-than-100-heads"
                } else if window.is_some() {
                    "sync-session-made-no-progress:missing-commands-above-the-responders-max_cut-window"
                } else {
                    "sync-session-made-no-progress-while-commands-were-missing"
                };
                obs.fail("C16", sig, json!({"ctx": ctx, "missing_before": missing_before, "requester_heads": rh, "highest_sampled_address_the_responder_holds_and_lowest_missing_max_cut": window}));
                rounds = 1000;
                break;
            }
        }
        if !moved {
            quiet_rounds += 1;
        }
    }
    // Converged: every replica reports the same heads, facts and hello head (C01's oracle).
    if rounds < 1000 {
        let views: Vec<_> = reps.iter_mut().map(|r| (r.set.count(), r.rep.heads().ok(), r.rep.facts().ok(), r.rep.hello().ok())).collect();
        for w in views.windows(2) {
            if w[0] != w[1] {
                let which = if w[0].0 != w[1].0 { "command-sets" } else if w[0].1 != w[1].1 { "heads" } else if w[0].2 != w[1].2 { "facts" } else { "hello-head" };
                obs.fail("C16", "replicas-do-not-converge-after-syncing-to-quiescence", json!({"differs": which}));
                obs.fail("C01", "replicas-synced-to-quiescence-differ", json!({"differs": which}));
            }
        }
        for r in reps.iter_mut() {
            let s = r.set.clone();
            check_committed(&mut r.rep, &mut model, &s, &json!({"after": "quiescence"}), true, &mut obs);
        }
        obs.count("topologies_converged", 1);
    }
    let case = json!({"prop": "sync", "case_seed": cs});
    let shape_h = mix2(model.dag.shape_hash(), hash_of(&overlap_kind));
    for (id, m) in [("C16", &mut *m16), ("C17", &mut *m17), ("C01", &mut *m01)] {
        m.eval();
        if sessions >= 2 && max_missing >= 1 {
            m.nontrivial(shape_h);
        }
        m.max("max_missing_commands", max_missing as u64);
        m.seen("graph_kinds", ["small", "small", "small", "small", "small", "small", "wide-fan-over-100-heads", "long-segments", "over-100-segments", "deep-ladder"][kind as usize]);
        m.sample(|| json!({"case_seed": cs, "commands": model.len(), "replicas": n_rep, "overlap": overlap_kind, "sessions": sessions, "mode": if mode_full { "full" } else { "one-response" }}));
        for f in &obs.findings {
            let route = match f.prop {
                "C16" | "C17" | "C01" => f.prop,
                _ => "C01", // graph-state findings after sync belong to convergence
            };
            if route == id {
                m.violation(&f.sig, json!({"case": case, "finding": f.detail}));
            } else if id == "C16" && route == "C17" && !args.wants(route) && args.wants(id) {
                // C17's monitor is not part of this run: a session that is unsound or does not end
                // cannot count as delivering everything either. (Only this direction: C16's own
                // findings include known ones, which must not reappear under another property.)
                m.violation(&format!("{route}:{}", f.sig), json!({"case": case, "finding": f.detail}));
            }
        }
        for (k, v) in &obs.counts {
            if k.starts_with("max_") { m.max(k, *v) } else { m.count(k, *v) }
        }
    }
}

fn corpus_push(corpus: &mut Vec<Vec<u8>>, msgs: &[Vec<u8>]) {
    for m in msgs {
        if corpus.len() < 400 && m.len() < 20_000 {
            corpus.push(m.clone());
        }
    }
}

// ---------------------------------------------------------------- C18

fn mutate(rng: &mut Rng, base: &[u8]) -> (Vec<u8>, &'static str) {
    let mut b = base.to_vec();
    match rng.below(10) {
        0 if !b.is_empty() => {
            let i = rng.usize(b.len());
            b[i] ^= 1 << rng.usize(8);
            (b, "bit-flip")
        }
        1 => {
            let l = rng.usize(b.len() + 1);
            b.truncate(l);
            (b, "truncate")
        }
        2 if !b.is_empty() => {
            // inflate a length-like byte near the front
            let i = rng.usize(b.len().min(64));
            b[i] = *rng.pick(&[0xff, 0x7f, 0x80, 0xfe]);
            (b, "length-inflate")
        }
        3 => {
            let l = rng.urange(1, 64);
            let extra = rng.bytes(l);
            b.extend(extra);
            (b, "extend")
        }
        4 if b.len() > 4 => {
            let i = rng.usize(b.len() - 2);
            let j = rng.usize(b.len() - 2);
            b.swap(i, j);
            (b, "swap")
        }
        5 if b.len() > 8 => {
            let i = rng.usize(b.len() - 4);
            let l = rng.urange(1, 4);
            b.drain(i..i + l);
            (b, "delete-span")
        }
        6 if b.len() > 8 => {
            let i = rng.usize(b.len());
            let l = rng.urange(1, 8);
            let ins = rng.bytes(l);
            for (k, x) in ins.into_iter().enumerate() {
                b.insert(i + k, x);
            }
            (b, "insert-span")
        }
        7 => {
            let l = rng.urange(0, 200);
            (rng.bytes(l), "random-bytes")
        }
        8 if b.len() > 20 => {
            // corrupt several bytes in the header region
            for _ in 0..rng.urange(2, 6) {
                let i = rng.usize(20);
                b[i] = rng.u64() as u8;
            }
            (b, "header-scramble")
        }
        _ => (b, "intact"),
    }
}

fn in_range(outer: &[u8], inner: &[u8]) -> bool {
    if inner.is_empty() {
        return true;
    }
    let o = outer.as_ptr() as usize;
    let i = inner.as_ptr() as usize;
    i >= o && i + inner.len() <= o + outer.len()
}

fn c18_input(m: &mut Monitor, input: &[u8], kind: &str, base_sid: Option<u128>, rep: &mut MemReplica) {
    m.eval();
    let rec = |m: &mut Monitor, what: &str, p: PanicInfo| {
        if !p.site().starts_with("crates/") {
            m.inconclusive(&format!("harness panic in {what}: {}", p.what));
            return;
        }
        m.violation(&format!("sync-panic:{}", p.site()), json!({"entry": what, "kind": kind, "input": hex(input), "panic": p.what}));
    };
    // 1. decode as any incoming message
    match catch(|| {
        SyncIncoming::decode(input).map(|x| match x {
            SyncIncoming::Poll(_) => "poll",
            SyncIncoming::Subscribe(s) => {
                // touch the accessors a transport uses
                let _ = (s.graph_id(), s.remain_open(), s.max_bytes(), s.heads().as_slice().len());
                "subscribe"
            }
            SyncIncoming::Unsubscribe(u) => {
                let _ = u.graph_id();
                "unsubscribe"
            }
            SyncIncoming::Push(p) => {
                let _ = (p.graph_id(), p.session_id());
                "push"
            }
            SyncIncoming::Hello(_) => "hello",
        })
    }) {
        Err(p) => rec(m, "SyncIncoming::decode", p),
        Ok(Ok(kind)) => {
            m.count("decoded_ok", 1);
            m.seen("decoded_message_kinds", kind);
        }
        Ok(Err(_)) => m.count("decode_rejected", 1),
    }
    // 2. as a poll to a responder with a real graph behind it
    let r = catch(|| {
        if let Ok(SyncIncoming::Poll(p)) = SyncIncoming::decode(input) {
            let mut responder = SyncResponder::new();
            if responder.receive(p).is_ok() {
                let mut target = vec![0u8; MAX_SYNC_MESSAGE_SIZE];
                let mut cache = PeerCache::new();
                let mut polls = 0;
                while responder.ready() && polls < 8 {
                    polls += 1;
                    if responder.poll(&mut target, rep.client.provider(), &mut cache, &mut rep.bufs.traversal).is_err() {
                        break;
                    }
                }
                let _ = responder.push(&mut target, rep.client.provider(), &mut rep.bufs.traversal);
                return polls;
            }
        }
        0
    });
    match r {
        Err(p) => rec(m, "SyncResponder::receive+poll", p),
        Ok(n) => m.count("responder_polls", n),
    }
    // 3. as a response to requesters in different states
    for variant in 0..3 {
        let res = catch(|| {
            let sid = base_sid.unwrap_or(7);
            let mut rq = match variant {
                0 => SyncRequester::new_session_id(rep.graph, sid),
                1 => SyncRequester::new_session_id(rep.graph, sid ^ 1), // other session
                _ => {
                    // a requester that has polled (state Start)
                    let mut rq = SyncRequester::new(rep.graph, CryptoRng);
                    let mut buf = vec![0u8; MAX_SYNC_MESSAGE_SIZE];
                    let cache = PeerCache::new();
                    let _ = rq.poll(&mut buf, rep.client.provider(), &cache.session_heads(), &mut rep.tbuf);
                    rq
                }
            };
            let out = rq.receive(input);
            // commands must lie inside the received bytes
            let mut bad_slice = false;
            let mut n = 0usize;
            if let Ok(Some(cmds)) = &out {
                n = cmds.len();
                for c in cmds.iter() {
                    if !in_range(input, c.bytes()) || c.policy().is_some_and(|p| !in_range(input, p)) {
                        bad_slice = true;
                    }
                }
            }
            let hdr = response_header(input);
            (out.map(|o| o.map(|_| ())).map_err(|e| matches!(e, SyncError::SessionMismatch)), n, bad_slice, hdr, sid)
        });
        match res {
            Err(p) => rec(m, "SyncRequester::receive", p),
            Ok((out, n, bad_slice, hdr, sid)) => {
                if bad_slice {
                    m.violation("sync-command-data-outside-received-bytes", json!({"kind": kind, "input": hex(input)}));
                }
                if n > 0 {
                    m.count("responses_yielding_commands", 1);
                    // accepted commands: session id must be the requester's and the index the expected one (0)
                    let want_sid = if variant == 1 { sid ^ 1 } else { sid };
                    match hdr {
                        Some((0, s, idx)) => {
                            if variant != 2 && s != want_sid {
                                m.violation("requester-accepted-commands-of-another-session", json!({"kind": kind, "input": hex(input)}));
                            }
                            if idx != 0 {
                                m.violation("requester-accepted-out-of-sequence-response", json!({"kind": kind, "index": idx, "input": hex(input)}));
                            }
                        }
                        _ => {}
                    }
                    if variant == 2 {
                        // a fresh random session id cannot match a recorded message
                        m.violation("requester-accepted-commands-of-another-session", json!({"kind": kind, "variant": "fresh-session", "input": hex(input)}));
                    }
                }
                if let Err(true) = out {
                    m.count("session_mismatch_rejections", 1);
                }
            }
        }
    }
    // 3b. subscribe responses
    if let Err(p) = catch(|| aranya_runtime::SubscribeResponse::decode(input).is_ok()) {
        rec(m, "SubscribeResponse::decode", p);
    }
    // 4. push path
    let r = catch(|| {
        if let Ok(SyncIncoming::Push(p)) = SyncIncoming::decode(input) {
            let mut rq = SyncRequester::new_session_id(rep.graph, p.session_id());
            let o = rq.receive_push(p);
            if let Ok(Some(cmds)) = &o {
                return cmds.iter().all(|c| in_range(input, c.bytes()) && c.policy().is_none_or(|p| in_range(input, p)));
            }
        }
        true
    });
    match r {
        Err(p) => rec(m, "SyncRequester::receive_push", p),
        Ok(false) => m.violation("sync-command-data-outside-received-bytes", json!({"kind": kind, "entry": "push", "input": hex(input)})),
        Ok(true) => {}
    }
}

fn main() {
    let args = Args::parse();
    let mut m16 = Monitor::new("C16", "replica pairs (and groups of 3-5) built by ingesting different down-sets of one generated DAG (only-init / everything / all-but-one-branch / random cuts; segment layouts from 1-command segments to one big segment); graph kinds incl. >100 heads (fans of 150-400), long segments, >100 segments, deep ladders; A requests from B in repeated sessions (full sessions and one-response exchanges, receive buffers 200 B..max, persistent or fresh peer caches) until nothing is missing: each session must strictly shrink the missing set, within |missing|+3 sessions; then random pair sessions in both directions to quiescence and equality of heads/facts/hello. non-trivial = >=2 sessions with >=1 missing command; distinct by DAG shape x overlap")
        .min(20)
        .require("topologies_converged", "topologies must reach quiescence");
    let mut m17 = Monitor::new("C17", "same sessions, checked per message: every synced command is committed at the responder with identical priority/parent/payload/policy, parents precede children within a session (or are already at the requester) and add_commands accepts them, response indexes are 0,1,2,.., a full session ends with SyncEnd{max_index = #responses} within #commands+66 polls, undersized buffers are retried without loss. non-trivial as C16")
        .min(20)
        .require("responses", "responses must flow");
    let mut m01 = Monitor::new("C01", "sync topologies: 2-5 replicas holding different down-sets sync pairwise in random order until quiescent; heads, fact dump and hello head must be equal and equal to the reference (complements rt_graph's delivery histories)").min(20);
    let mut m18 = Monitor::new("C18", "recorded real poll/response messages from generated sync sessions, mutated (bit flips, truncation at random lengths, length-byte inflation, extension, span insert/delete, byte swaps, header scrambling) plus random bytes, fed to SyncIncoming::decode, SyncResponder::receive+poll+push on a real graph, SyncRequester::receive in three states (matching session, other session, freshly polled) and receive_push; oracle: no panic (both profiles), returned command slices lie inside the input buffer, commands accepted only for the requester's session id and expected index. non-trivial = distinct mutated input")
        .min(1000)
        .require("responses_yielding_commands", "intact recorded responses must yield commands, so acceptance is exercised")
        .require("session_mismatch_rejections", "wrong-session inputs must be exercised");
    struct S(Monitor, Monitor, Monitor, Vec<Vec<u8>>);
    unsafe impl Send for S {}
    if let Some(r) = args.replay_case() {
        let c = &r["case"];
        if let Some(cs) = c["case"]["case_seed"].as_u64() {
            let mut corpus = vec![];
            sync_case(cs, &args, &mut m16, &mut m17, &mut m01, &mut corpus);
        } else if let Some(h) = c["input"].as_str() {
            let mut model = { let mut rng = Rng::new(1); build_graph(&mut rng, 0, 100) };
            let mut obs = Obs::default();
            let mut rng = Rng::new(2);
            let all = down_set(&model, &mut rng, 1);
            let mut rep = make_rep(&mut model, &all, &mut rng, false, false, &mut obs).unwrap();
            let input = unhex(h).unwrap();
            let sid = response_header(&input).map(|x| x.1);
            c18_input(&mut m18, &input, "replay", sid, &mut rep.rep);
        }
        finish_all(&args, vec![m16, m17, m01, m18]);
    }
    let want_sync = args.wants("C16") || args.wants("C17") || (args.wants("C01") && !args.props.is_empty());
    let want18 = args.wants("C18");
    let mut corpus: Vec<Vec<u8>> = vec![];
    if want_sync || want18 {
        let n = if want_sync { args.n(1600, 40_000) } else { 40 };
        let parts = par_shards(cores().min(n as usize).max(1), |sh, tot| {
            let (mut a, mut b, mut c) = (m16.worker(), m17.worker(), m01.worker());
            let mut corp = vec![];
            let mut i = sh as u64;
            while i < n {
                let mut cs = mix2(args.seed ^ 0x5c16, i);
                cs = cs - cs % 10 + (i % 10); // cover every graph kind
                if let Err(p) = catch(|| sync_case(cs, &args, &mut a, &mut b, &mut c, &mut corp)) {
                    let site = p.site();
                    for w in [&mut a, &mut b] {
                        if site.starts_with("crates/") {
                            w.violation(&format!("runtime-panic:{site}"), json!({"case": {"prop": "sync", "case_seed": cs}, "panic": p.what}));
                        } else {
                            w.inconclusive(&format!("harness panic: {}", p.what));
                        }
                    }
                }
                i += tot as u64;
            }
            S(a, b, c, corp)
        });
        for p in parts {
            m16.absorb(p.0);
            m17.absorb(p.1);
            m01.absorb(p.2);
            for x in p.3 {
                if corpus.len() < 2000 {
                    corpus.push(x);
                }
            }
        }
    }
    if want18 {
        // hello-family messages have no public encoder: build them by hand from the wire layout
        // (postcard: variant, variant, bytes(32) graph id, ...), using ids of a generated graph
        {
            let mut r = Rng::new(args.seed ^ 0x4e110);
            let gid = r.bytes(32);
            let hid = r.bytes(32);
            let mut hello = vec![4u8, 2, 32];
            hello.extend(&gid);
            hello.push(32);
            hello.extend(&hid);
            hello.extend([0xac, 0x02]); // max_cut 300 as varint
            corpus.push(hello);
            let mut unsub = vec![4u8, 1, 32];
            unsub.extend(&gid);
            corpus.push(unsub);
            let mut sub = vec![4u8, 0, 32];
            sub.extend(&gid);
            sub.extend([1, 0, 10, 0x80, 0x94, 0xeb, 0xdc, 0x03, 2, 5]); // three Durations (secs, nanos)
            corpus.push(sub);
            // SubscribeResponse
            corpus.push(vec![0]);
            corpus.push(vec![1]);
        }
        corpus.sort();
        corpus.dedup();
        m18.count("corpus_messages", corpus.len() as u64);
        let n = args.n(200_000, 3_000_000);
        struct T(Monitor);
        unsafe impl Send for T {}
        let parts = par_shards(cores(), |sh, tot| {
            let mut w = m18.worker();
            let mut rng = Rng::new(mix2(args.seed ^ 0xc18, sh as u64));
            // a real graph behind the responder
            let mut model = { let mut r = Rng::new(args.seed ^ 0x18); build_graph(&mut r, sh as u64 % 6, 100) };
            let mut obs = Obs::default();
            let all = down_set(&model, &mut rng, 1);
            let Some(mut rep) = make_rep(&mut model, &all, &mut rng, false, false, &mut obs) else { return T(w) };
            let mut i = sh as u64;
            while i < n {
                let base = if corpus.is_empty() { vec![] } else { corpus[rng.usize(corpus.len())].clone() };
                let (input, kind) = mutate(&mut rng, &base);
                let sid = response_header(&base).map(|x| x.1);
                w.nontrivial(hash_of(&input));
                w.seen("mutation_kinds", kind);
                c18_input(&mut w, &input, kind, sid, &mut rep.rep);
                if i < 3 {
                    w.sample(|| json!({"mutation": kind, "input_len": input.len(), "input_head": hex(&input[..input.len().min(48)])}));
                }
                i += tot as u64;
            }
            T(w)
        });
        for p in parts {
            m18.absorb(p.0);
        }
    }
    finish_all(&args, vec![m16, m17, m01, m18]);
}
