//! C21: the traversal queue keeps its ordering and coverage rules.
use aranya_runtime::{Location, MaxCut, SegmentIndex, TraversalQueue};
use vcore::*;

#[derive(Clone, Debug, PartialEq, Eq)]
struct Ent {
    seg: u64,
    mc: u64,
    covered: bool,
}

/// The documented rules, as a list of entries.
#[derive(Default, Clone, Debug)]
struct Model {
    e: Vec<Ent>,
}

fn loc(seg: u64, mc: u64) -> Location {
    Location::new(SegmentIndex::new(seg), MaxCut::new(mc))
}

impl Model {
    fn push_covered(&mut self, seg: u64, mc: u64, covered: bool) {
        if let Some(x) = self.e.iter_mut().find(|x| x.seg == seg) {
            if mc > x.mc {
                x.mc = mc;
                x.covered = covered;
            } else if mc == x.mc {
                x.covered |= covered;
            }
            return;
        }
        self.e.push(Ent { seg, mc, covered });
    }
    fn push_dup(&mut self, seg: u64, mc: u64) {
        self.e.push(Ent { seg, mc, covered: false });
    }
    /// Highest location = (max_cut, segment) lexicographic, as `Location: Ord` defines.
    fn max_idx(&self) -> Option<usize> {
        (0..self.e.len()).max_by_key(|&i| (self.e[i].mc, self.e[i].seg))
    }
    fn cover_up_to(&mut self, seg: u64, cov: u64, longest: u64) {
        if let Some(x) = self.e.iter_mut().find(|x| x.seg == seg) {
            if x.covered {
                return;
            }
            if cov >= longest {
                x.covered = true;
            } else if cov >= x.mc {
                x.mc = cov + 1;
            }
        }
    }
}

fn main() {
    let args = Args::parse();
    let mut m = Monitor::new("C21", "random operation sequences (1-60 ops) over 4 segments x 6 max-cuts in three modes: dedup (push/push_covered/pop/pop_covered/peek/cover_up_to/drain_above/drain_all/all_covered/is_empty/clear), duplicate (push_duplicate/pop/pop_duplicates/peek) and mixed (no-panic + pop-is-max only); a 40-line model of the documented rules is compared after every operation through the public observers. non-trivial = sequence with >=1 covered/uncovered transition or duplicate pop; distinct by op-sequence hash").min(1000);
    let n = args.n(400_000, 30_000_000);
    struct S(Monitor);
    unsafe impl Send for S {}
    let replay = args.replay_case().map(|r| r["case"]["case_seed"].as_u64().unwrap());
    let parts = par_shards(if replay.is_some() { 1 } else { cores() }, |sh, tot| {
        let mut w = m.worker();
        let mut i = sh as u64;
        while i < n {
            let cs = replay.unwrap_or(mix2(args.seed ^ 0xc21, i));
            if let Err(p) = catch(|| one(cs, &mut w)) {
                let site = p.site();
                if site.starts_with("crates/") {
                    w.violation(&format!("queue-panic:{site}"), json!({"case_seed": cs, "panic": p.what}));
                } else {
                    w.inconclusive(&format!("harness panic {}", p.what));
                }
            }
            if replay.is_some() {
                break;
            }
            i += tot as u64;
        }
        S(w)
    });
    for p in parts {
        m.absorb(p.0);
    }
    finish_all(&args, vec![m]);
}

fn one(cs: u64, w: &mut Monitor) {
    let mut rng = Rng::new(cs);
    let mode = cs % 3; // 0 dedup, 1 duplicate, 2 mixed
    let mut q = TraversalQueue::new();
    let mut md = Model::default();
    let mut ops: Vec<String> = vec![];
    let mut interesting = false;
    let nops = rng.urange(1, 60);
    let fail = |w: &mut Monitor, sig: &str, ops: &Vec<String>, extra: Value| {
        w.violation(sig, json!({"case_seed": cs, "mode": mode, "ops": ops, "extra": extra}));
    };
    for _ in 0..nops {
        let seg = rng.below(4);
        let mc = rng.below(6);
        let choice = match mode {
            0 => rng.weighted(&[5, 4, 3, 2, 2, 3, 2, 1, 1, 0, 0]),
            1 => rng.weighted(&[0, 0, 3, 0, 2, 0, 0, 0, 1, 6, 3]),
            _ => rng.weighted(&[3, 3, 3, 2, 2, 2, 2, 1, 1, 3, 2]),
        };
        if mode == 2 {
            // Mixed use of the dedup and duplicate entry points has no documented content rules;
            // only: no panic, and every pop returns what peek showed (a highest entry).
            let before = q.peek().copied();
            match choice {
                0 => { ops.push(format!("push({seg},{mc})")); q.push(loc(seg, mc)).unwrap(); }
                1 => { let c = rng.bool(); ops.push(format!("push_covered({seg},{mc},{c})")); q.push_covered(loc(seg, mc), c).unwrap(); }
                2 => { ops.push("pop".into()); if q.pop().unwrap() != before { fail(w, "pop-did-not-return-highest-max-cut", &ops, json!(null)); return; } }
                3 => { ops.push("pop_covered".into()); if q.pop_covered().unwrap().map(|x| x.0) != before { fail(w, "pop-did-not-return-highest-max-cut", &ops, json!(null)); return; } }
                4 => { ops.push("peek".into()); }
                5 => { let cov = rng.below(7); let longest = rng.below(7); ops.push(format!("cover_up_to({seg},{cov},{longest})")); q.cover_up_to(SegmentIndex::new(seg), MaxCut::new(cov), MaxCut::new(longest)).unwrap(); }
                6 => { let th = rng.below(6); ops.push(format!("drain_above({th})")); let mut bad = false; q.drain_above(MaxCut::new(th), |l| bad |= l.max_cut.get() <= th).unwrap(); if bad { fail(w, "drain_above-yielded-entry-at-or-below-threshold", &ops, json!(null)); return; } if q.peek().is_some_and(|l| l.max_cut.get() > th) { fail(w, "drain_above-left-entry-above-threshold", &ops, json!(null)); return; } }
                7 => { ops.push("drain_all".into()); q.drain_all(|_| {}); if !q.is_empty() { fail(w, "drain_all-left-entries", &ops, json!(null)); return; } }
                8 => { ops.push("clear".into()); q.clear(); }
                9 => { ops.push(format!("push_duplicate({seg},{mc})")); q.push_duplicate(loc(seg, mc)).unwrap(); }
                _ => { ops.push("pop_duplicates".into()); if q.pop_duplicates().unwrap().map(|x| x.0) != before { fail(w, "pop-did-not-return-highest-max-cut", &ops, json!(null)); return; } }
            }
            if let (Some(b), Some(a)) = (before, q.peek().copied()) {
                // peek is a maximum: it can only go down by pops/drains, up by pushes/cover
                let _ = (a, b);
            }
            continue;
        }
        match choice {
            0 => {
                ops.push(format!("push({seg},{mc})"));
                q.push(loc(seg, mc)).unwrap();
                md.push_covered(seg, mc, false);
            }
            1 => {
                let c = rng.bool();
                ops.push(format!("push_covered({seg},{mc},{c})"));
                q.push_covered(loc(seg, mc), c).unwrap();
                md.push_covered(seg, mc, c);
                interesting |= c;
            }
            2 => {
                ops.push("pop".into());
                let got = q.pop().unwrap();
                let want = md.max_idx().map(|i| md.e[i].clone());
                if mode == 2 {
                    // mixed mode: only "pop returns a maximal location"
                    if let (Some(g), Some(wn)) = (got, &want) {
                        if (g.max_cut.get(), g.segment.get()) != (wn.mc, wn.seg) {
                            fail(w, "pop-did-not-return-highest-max-cut", &ops, json!(null));
                        }
                        let i = md.e.iter().position(|x| x.seg == wn.seg && x.mc == wn.mc).unwrap();
                        md.e.remove(i);
                    } else if got.is_some() != want.is_some() {
                        fail(w, "pop-emptiness-differs", &ops, json!(null));
                    }
                } else {
                    match (got, want) {
                        (None, None) => {}
                        (Some(g), Some(wn)) if (g.segment.get(), g.max_cut.get()) == (wn.seg, wn.mc) => {
                            let i = md.max_idx().unwrap();
                            md.e.remove(i);
                        }
                        (g, wn) => {
                            fail(w, "pop-did-not-return-highest-max-cut", &ops, json!({"got": format!("{g:?}"), "want": format!("{wn:?}")}));
                            return;
                        }
                    }
                }
            }
            3 => {
                ops.push("pop_covered".into());
                let got = q.pop_covered().unwrap();
                let want = md.max_idx().map(|i| md.e[i].clone());
                match (got, want) {
                    (None, None) => {}
                    (Some((g, c)), Some(wn)) if (g.segment.get(), g.max_cut.get()) == (wn.seg, wn.mc) && (mode == 2 || c == wn.covered) => {
                        let i = md.e.iter().position(|x| x.seg == wn.seg && x.mc == wn.mc && (mode == 2 || x.covered == c)).unwrap_or(md.max_idx().unwrap());
                        md.e.remove(i);
                    }
                    (g, wn) => {
                        fail(w, "pop_covered-differs-from-model", &ops, json!({"got": format!("{g:?}"), "want": format!("{wn:?}")}));
                        return;
                    }
                }
            }
            4 => {
                ops.push("peek".into());
                let got = q.peek().copied();
                let want = md.max_idx().map(|i| (md.e[i].seg, md.e[i].mc));
                if got.map(|g| (g.segment.get(), g.max_cut.get())) != want {
                    fail(w, "peek-is-not-the-highest-entry", &ops, json!({"got": format!("{got:?}"), "want": format!("{want:?}")}));
                    return;
                }
            }
            5 => {
                let cov = rng.below(7);
                let longest = rng.range(mc, 7);
                ops.push(format!("cover_up_to({seg},{cov},{longest})"));
                q.cover_up_to(SegmentIndex::new(seg), MaxCut::new(cov), MaxCut::new(longest)).unwrap();
                if mode != 1 {
                    md.cover_up_to(seg, cov, longest);
                }
                interesting = true;
            }
            6 => {
                let th = rng.below(6);
                ops.push(format!("drain_above({th})"));
                let mut got = vec![];
                q.drain_above(MaxCut::new(th), |l| got.push((l.segment.get(), l.max_cut.get()))).unwrap();
                let mut want: Vec<(u64, u64)> = md.e.iter().filter(|x| x.mc > th && !x.covered).map(|x| (x.seg, x.mc)).collect();
                md.e.retain(|x| x.mc <= th);
                got.sort();
                want.sort();
                if got != want {
                    fail(w, "drain_above-did-not-yield-exactly-the-uncovered-entries-above-threshold", &ops, json!({"got": got, "want": want}));
                    return;
                }
                interesting = true;
            }
            7 => {
                ops.push("drain_all".into());
                let mut got = vec![];
                q.drain_all(|l| got.push((l.segment.get(), l.max_cut.get())));
                let mut want: Vec<(u64, u64)> = md.e.iter().filter(|x| !x.covered).map(|x| (x.seg, x.mc)).collect();
                md.e.clear();
                got.sort();
                want.sort();
                if got != want {
                    fail(w, "drain_all-did-not-yield-the-uncovered-entries", &ops, json!({"got": got, "want": want}));
                    return;
                }
            }
            8 => {
                ops.push("clear".into());
                q.clear();
                md.e.clear();
            }
            9 => {
                ops.push(format!("push_duplicate({seg},{mc})"));
                q.push_duplicate(loc(seg, mc)).unwrap();
                md.push_dup(seg, mc);
            }
            _ => {
                ops.push("pop_duplicates".into());
                let got = q.pop_duplicates().unwrap();
                let want = md.max_idx().map(|i| (md.e[i].seg, md.e[i].mc));
                match (got, want) {
                    (None, None) => {}
                    (Some((g, cnt)), Some((s, c))) if (g.segment.get(), g.max_cut.get()) == (s, c) => {
                        let wc = md.e.iter().filter(|x| x.seg == s && x.mc == c).count();
                        if cnt != wc {
                            fail(w, "pop_duplicates-count-differs", &ops, json!({"got": cnt, "want": wc}));
                            return;
                        }
                        md.e.retain(|x| !(x.seg == s && x.mc == c));
                        if wc > 1 {
                            interesting = true;
                        }
                    }
                    (g, wn) => {
                        fail(w, "pop_duplicates-differs-from-model", &ops, json!({"got": format!("{g:?}"), "want": format!("{wn:?}")}));
                        return;
                    }
                }
            }
        }
        // observers after every operation
        if q.is_empty() != md.e.is_empty() {
            fail(w, "is_empty-differs-from-model", &ops, json!(null));
            return;
        }
        if mode != 2 && q.all_covered() != md.e.iter().all(|x| x.covered) {
            fail(w, "all_covered-differs-from-model", &ops, json!({"model": format!("{:?}", md.e)}));
            return;
        }
        if mode == 0 {
            // at most one entry per segment, holding the highest max cut seen: visible via drain on a clone is
            // not possible (no Clone), so check through the model + pops above; here: model invariant only
            let mut segs: Vec<u64> = md.e.iter().map(|x| x.seg).collect();
            segs.sort();
            segs.dedup();
            assert_eq!(segs.len(), md.e.len());
        }
    }
    // final drain: everything the queue still holds must match the model exactly
    let mut rest = vec![];
    while let Some((l, c)) = q.pop_covered().unwrap() {
        rest.push((l.max_cut.get(), l.segment.get(), c));
    }
    let mut want: Vec<(u64, u64, bool)> = md.e.iter().map(|x| (x.mc, x.seg, x.covered)).collect();
    want.sort_by(|a, b| b.cmp(a));
    let mut got_sorted = rest.clone();
    got_sorted.sort_by(|a, b| b.cmp(a));
    if mode != 2 {
        if rest.iter().map(|x| (x.0, x.1)).collect::<Vec<_>>() != { let mut v: Vec<(u64, u64)> = rest.iter().map(|x| (x.0, x.1)).collect(); v.sort_by(|a, b| b.cmp(a)); v } {
            fail(w, "final-pops-not-in-descending-order", &ops, json!({"got": rest}));
        }
        if got_sorted != want {
            fail(w, "final-queue-content-differs-from-model", &ops, json!({"got": got_sorted, "want": want}));
        }
    }
    w.eval();
    if interesting {
        w.nontrivial(hash_of(&ops));
    }
    let mode_name = ["dedup", "duplicate", "mixed"][mode as usize];
    w.sample(|| json!({"case_seed": cs, "mode": mode_name, "ops": ops}));
}
