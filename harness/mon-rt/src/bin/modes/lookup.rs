use vcore::*;
use crate::Mons;
pub fn case(_cs: u64, _long: bool, _args: &Args, _mons: &mut Mons, _case: &Value) {}
