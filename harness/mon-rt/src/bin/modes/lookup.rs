//! C11: command lookup and ancestry queries are exact.
use std::collections::BTreeSet;

use aranya_runtime::{Address, Command, Location, MaxCut, Segment, Storage};
use graphkit::{audit::*, driver::*, r#gen::*, model::*, replica::*};
use vcore::*;

use crate::Mons;

pub fn case(cs: u64, long: bool, args: &Args, mons: &mut Mons, case: &Value) {
    let mut rng = Rng::new(cs);
    let mut model = if long {
        crate::modes::large::build(2 + (cs % 2) * 2, &mut rng, args.scale.min(100)) // long chain / long branches
    } else {
        let mut cfg = GenCfg::small(&mut rng);
        cfg.n = rng.urange(10, 140);
        if rng.chance(1, 3) {
            cfg.shape = Shape::ChainWithBranches;
        }
        cfg.p_quiet = 700;
        DagGen::new(cfg, &mut rng).build()
    };
    let n = model.len();
    let init = model.node(0).id;
    // Deliver a down-set D (sometimes everything), with a batching that shapes segment lengths.
    let mut d = Bits::new(n);
    if rng.chance(1, 2) {
        for v in 0..n {
            d.set(v);
        }
    } else {
        for _ in 0..rng.urange(1, 6) {
            let v = rng.usize(n);
            d.or(model.ancestors(v));
        }
    }
    let hcfg = HistCfg {
        order: *rng.pick(&[Order::Creation, Order::RandomTopo, Order::DepthFirst]),
        max_batch: *rng.pick(&[1, 3, 10, 40, 400]),
        p_flush: *rng.pick(&[0, 50, 300]),
        p_commit: *rng.pick(&[0, 30, 200]),
        p_dup: 0,
    };
    let dd = d.clone();
    let steps = history(&model, &|v| dd.get(v), &hcfg, &mut rng);
    let mut rep = MemReplica::new_mem(&init);
    let none = Bits::new(n);
    let mut obs = Obs::default();
    let out = run_history(&mut rep, &mut model, &steps, &none, &RunCfg { check_every_commit: false, check_blocks: false }, &mut obs);
    if out.aborted || out.committed != d {
        mons.take(obs, case);
        return;
    }
    // Locations of all committed commands, via the walk (independent of get_location).
    let walked = rep.walk().expect("walk");
    let mut tbuf = aranya_runtime::TraversalBuffer::new();
    let graph = rep.graph;
    let storage = rep.client.provider();
    let storage = aranya_runtime::StorageProvider::get_storage(storage, graph).expect("storage");
    let addr_of = |model: &Model, v: usize| Address { id: cmd_id(&model.node(v).id), max_cut: MaxCut::new(model.node(v).max_cut) };
    let loc_of = |model: &Model, v: usize| walked.get(&model.node(v).id).map(|w| Location::new(aranya_runtime::SegmentIndex::new(w.loc.0), MaxCut::new(w.loc.1)));

    // Coverage: segments and skip lists.
    let mut segs = BTreeSet::new();
    let mut rich = 0u64;
    let mut max_seg_len = 0u64;
    for w in walked.values() {
        if segs.insert(w.loc.0) {
            let seg = storage.get_segment(Location::new(aranya_runtime::SegmentIndex::new(w.loc.0), MaxCut::new(w.loc.1))).expect("segment");
            if seg.skip_list().len() > 1 {
                rich += 1;
            }
            let len = seg.longest_max_cut().unwrap().get() - seg.shortest_max_cut().get() + 1;
            max_seg_len = max_seg_len.max(len);
        }
    }
    obs.count("segments", segs.len() as u64);
    obs.count("segments_with_rich_skip_list", rich);
    obs.max("max_segment_len", max_seg_len);
    obs.max("max_max_cut", (0..n).map(|v| model.node(v).max_cut).max().unwrap_or(0));

    // 1. get_location for every node (committed or not), plus wrong-max_cut and unknown ids.
    for v in 0..n {
        let a = addr_of(&model, v);
        let got = storage.get_location(a, &mut tbuf);
        obs.count("lookups", 1);
        match got {
            Ok(Some(loc)) => {
                if !d.get(v) {
                    obs.fail("C11", "uncommitted-command-found-by-lookup", json!({"node": v}));
                    continue;
                }
                let seg = storage.get_segment(loc).expect("segment");
                match seg.get_command(loc) {
                    Some(c) if c.id() == a.id => {}
                    _ => obs.fail("C11", "lookup-returned-location-of-another-command", json!({"node": v, "loc": format!("{loc}")})),
                }
                if Some(loc) != loc_of(&model, v) {
                    obs.fail("C11", "lookup-location-differs-from-graph-walk", json!({"node": v}));
                }
            }
            Ok(None) => {
                if d.get(v) {
                    obs.fail("C11", "committed-command-not-found-by-lookup", json!({"node": v, "max_cut": model.node(v).max_cut, "hcfg": format!("{hcfg:?}")}));
                }
            }
            Err(e) => obs.fail("C11", "lookup-error", json!({"node": v, "err": e.to_string()})),
        }
        if v % 7 == 0 {
            // right id, wrong max_cut
            for delta in [-1i64, 1, 5] {
                let mc = model.node(v).max_cut as i64 + delta;
                if mc < 0 {
                    continue;
                }
                let wrong = Address { id: a.id, max_cut: MaxCut::new(mc as u64) };
                if let Ok(Some(_)) = storage.get_location(wrong, &mut tbuf) {
                    obs.fail("C11", "address-with-wrong-max_cut-found", json!({"node": v, "delta": delta}));
                }
            }
            // unknown id at a plausible max_cut
            let mut id = model.node(v).id;
            id[7] ^= 0x5a;
            if model.idx(&id).is_none() {
                if let Ok(Some(_)) = storage.get_location(Address { id: cmd_id(&id), max_cut: a.max_cut }, &mut tbuf) {
                    obs.fail("C11", "unknown-id-found", json!({"node": v}));
                }
            }
        }
    }
    // 2. pairs: get_location_from and is_ancestor.
    let members: Vec<usize> = d.iter().collect();
    let all_pairs = members.len() <= 300;
    let pairs: u64 = if all_pairs { (members.len() * members.len()) as u64 } else { args.tier.pick(20_000, 100_000) };
    for p in 0..pairs {
        let (x, y) = if all_pairs {
            (members[p as usize / members.len()], members[p as usize % members.len()])
        } else {
            (*rng.pick(&members), *rng.pick(&members))
        };
        let (Some(lx), Some(ly)) = (loc_of(&model, x), loc_of(&model, y)) else { continue };
        obs.count("ancestry_pairs", 1);
        // is x an ancestor of y ?
        let want_anc_eq = model.anc_eq(x, y);
        match storage.get_location_from(ly, addr_of(&model, x), &mut tbuf) {
            Ok(got) => {
                if got.is_some() != want_anc_eq {
                    obs.fail("C11", if want_anc_eq { "ancestor-not-found-from-descendant" } else { "non-ancestor-found-from-location" }, json!({"x": x, "y": y, "x_max_cut": model.node(x).max_cut, "y_max_cut": model.node(y).max_cut, "hcfg": format!("{hcfg:?}")}));
                } else if let Some(l) = got {
                    if l != lx {
                        obs.fail("C11", "get_location_from-returned-other-location", json!({"x": x, "y": y}));
                    }
                }
            }
            Err(e) => obs.fail("C11", "get_location_from-error", json!({"err": e.to_string()})),
        }
        match storage.is_ancestor(lx, ly, &mut tbuf) {
            Ok(got) => {
                let want = want_anc_eq && x != y;
                if got != want {
                    obs.fail("C11", if want { "is_ancestor-false-for-proper-ancestor" } else { "is_ancestor-true-for-non-ancestor" }, json!({"x": x, "y": y, "x_max_cut": model.node(x).max_cut, "y_max_cut": model.node(y).max_cut, "hcfg": format!("{hcfg:?}")}));
                }
                if want {
                    obs.count("true_ancestor_pairs", 1);
                }
            }
            Err(e) => obs.fail("C11", "is_ancestor-error", json!({"err": e.to_string()})),
        }
    }
    if let Some(m) = mons.get("C11") {
        m.eval();
        if rich > 0 || segs.len() > 3 {
            m.nontrivial(mix2(model.dag.shape_hash(), hash_of(&format!("{hcfg:?}"))));
        }
        if rich > 0 {
            m.count("graphs_with_rich_skip_lists", 1);
        }
        m.sample(|| json!({"mode": case["mode"], "case_seed": cs, "commands": n, "committed": d.count(), "segments": segs.len(), "rich_skip_segments": rich, "max_segment_len": max_seg_len, "hcfg": format!("{hcfg:?}")}));
    }
    mons.take(obs, case);
}
