use vcore::*;
use crate::Mons;
pub fn iso_case(_cs: u64, _args: &Args, _mons: &mut Mons, _case: &Value) {}
pub fn init_case(_cs: u64, _args: &Args, _mons: &mut Mons, _case: &Value) {}
pub fn peer_case(_cs: u64, _args: &Args, _mons: &mut Mons, _case: &Value) {}
