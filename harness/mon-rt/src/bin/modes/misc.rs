//! C08 (transaction isolation), C10 (graph bound to init), C20 (peer cache).
use std::collections::BTreeSet;

use aranya_runtime::{Address, ClientError, MaxCut, PeerCache, Prior, Priority, StorageProvider};
use graphkit::{audit::*, dag::*, driver::*, r#gen::*, model::*, replica::*};
use vcore::*;

use crate::{all_bits, Mons};

// ------------------------------------------------------------------ C08

struct OpenTrx<M: aranya_runtime::linear::IoManager> {
    trx: Trx<M>,
    plan: Vec<usize>,
    pos: usize,
    /// commit stamp observed at the first add_commands, None = never used
    stamp: Option<u64>,
    /// nodes this transaction accepted (not yet committed)
    accepted: Bits,
}

pub fn iso_case(cs: u64, _args: &Args, mons: &mut Mons, case: &Value) {
    if cs % 4 == 0 {
        // File-backed storage, reopened after the bootstrap commit: the race then starts on a
        // storage instance that has not committed anything itself yet (as after a restart).
        let d = Scratch::new("rt-iso");
        iso_case_on(cs, mons, case, &|init: &Id| FileReplica::new_file(d.path(), init), true);
    } else {
        iso_case_on(cs, mons, case, &|init: &Id| MemReplica::new_mem(init), false);
    }
}

fn iso_case_on<M: aranya_runtime::linear::IoManager>(cs: u64, mons: &mut Mons, case: &Value, mk: &dyn Fn(&Id) -> Replica<M>, reopen: bool) {
    let mut rng = Rng::new(cs);
    let mut cfg = GenCfg::small(&mut rng);
    cfg.n = rng.urange(8, 50);
    cfg.p_require = 0; // transactions evaluate at origin only; keep acceptance history-independent
    let mut model = DagGen::new(cfg, &mut rng).build();
    let n0 = model.len();
    let init = model.node(0).id;
    let mut rep = mk(&init);
    let mut obs = Obs::default();
    // bootstrap: init committed
    {
        let mut t = rep.trx();
        rep.add(&mut t, &[wire(&model.dag, 0)]).expect("init");
        rep.commit(t).expect("commit init");
    }
    if reopen {
        drop(rep);
        rep = mk(&init);
        obs.count("iso_cases_on_reopened_file_storage", 1);
    }
    let mut committed = Bits::new(n0);
    committed.set(0);
    let mut stamp = 0u64; // bumps on every successful commit / action
    let k = rng.urange(2, 4);
    let new_trx = |rep: &mut Replica<M>, model: &Model, rng: &mut Rng| OpenTrx {
        trx: rep.trx(),
        plan: linear_extension(model, &|v| v < n0, *rng.pick(&[Order::RandomTopo, Order::DepthFirst, Order::Creation]), rng),
        pos: 0,
        stamp: None,
        accepted: Bits::new(n0),
    };
    let mut trxs: Vec<OpenTrx<M>> = (0..k).map(|_| new_trx(&mut rep, &model, &mut rng)).collect();
    let mut script = vec![];
    let mut overlapped_commit = false;
    let steps = rng.urange(10, 40);
    let mut prev_walk: BTreeSet<Id> = rep.walk().unwrap().keys().copied().collect();
    for step in 0..steps {
        let which = rng.usize(k);
        match rng.weighted(&[6, 3, 1]) {
            0 => {
                // add a few nodes from this transaction's plan
                let t = &mut trxs[which];
                let cnt = rng.urange(1, 5);
                let batch: Vec<usize> = t.plan[t.pos.min(t.plan.len())..(t.pos + cnt).min(t.plan.len())].to_vec();
                if batch.is_empty() {
                    continue;
                }
                t.pos += batch.len();
                let wires: Vec<WireCmd> = batch.iter().map(|&v| wire(&model.dag, v)).collect();
                if t.stamp.is_none() {
                    t.stamp = Some(stamp);
                }
                script.push(format!("add(t{which},{batch:?})"));
                match rep.add(&mut t.trx, &wires) {
                    Ok(_) => {
                        for &v in &batch {
                            if !committed.get(v) {
                                t.accepted.set(v);
                            }
                        }
                    }
                    Err(e) if t.stamp != Some(stamp) => {
                        // A transaction that lost the race (another commit happened since it first read
                        // the heads) is doomed: its commit must fail with ConcurrentTransaction, and what
                        // its add_commands returns meanwhile is outside the statement (it may, e.g., meet
                        // a command both in its own and in the committed segments). Retire it.
                        let _ = e;
                        obs.count("adds_refused_in_stale_transaction", 1);
                        trxs[which] = new_trx(&mut rep, &model, &mut rng);
                    }
                    Err(e) => {
                        obs.fail("C08", &format!("add-in-interleaved-transaction-failed:{}", err_kind(&e)), json!({"script": script, "err": e.to_string()}));
                        break;
                    }
                }
            }
            1 => {
                // commit this transaction
                let old = std::mem::replace(&mut trxs[which], new_trx(&mut rep, &model, &mut rng));
                script.push(format!("commit(t{which})"));
                let res = rep.commit(old.trx);
                let others_open = trxs.iter().enumerate().filter(|(i, t)| *i != which && t.stamp.is_some()).count();
                match (old.stamp, res) {
                    (None, Ok(false)) => {}
                    (None, other) => obs.fail("C08", "commit-of-unused-transaction", json!({"script": script, "got": format!("{other:?}")})),
                    (Some(s), Ok(_)) => {
                        if s != stamp {
                            obs.fail("C08", "stale-transaction-committed", json!({"script": script, "first_read_stamp": s, "now": stamp}));
                        }
                        let mut c = committed.clone();
                        c.or(&old.accepted);
                        committed = c;
                        stamp += 1;
                        if others_open > 0 {
                            overlapped_commit = true;
                        }
                        obs.count("commits_ok", 1);
                    }
                    (Some(s), Err(ClientError::ConcurrentTransaction)) => {
                        if s == stamp {
                            obs.fail("C08", "fresh-transaction-refused-as-concurrent", json!({"script": script}));
                        }
                        obs.count("commits_refused_concurrent", 1);
                    }
                    (Some(_), Err(e)) => obs.fail("C08", &format!("commit-failed:{}", err_kind(&e)), json!({"script": script, "err": e.to_string()})),
                }
            }
            _ => {
                // an action publishing one command
                let act = ActionScript { dump: false, observe: vec![], publish: vec![PubSpec { prio: Some(Prio::Basic(1)), script: Script { tag: 0x7000_0000 + step as u32, quiet: false, ops: vec![Op::Put { n: 0, k: vec![b"act".to_vec()], v: vec![step as u8] }] } }], fail_after: None, nonce: cs ^ step as u64 };
                script.push("action".to_string());
                match rep.action(&act) {
                    Ok(()) => {
                        stamp += 1;
                        let w = rep.walk().unwrap();
                        match adopt(&mut model, &w) {
                            Ok(newv) => {
                                // The collapse may also have written a merge the DAG already
                                // contains (same parents => same id) but nobody committed yet.
                                let fresh: BTreeSet<usize> = newv.iter().copied().collect();
                                for id in w.keys() {
                                    let v = model.idx(id).expect("adopted");
                                    if committed.get(v) {
                                        continue;
                                    }
                                    let is_merge = matches!(model.node(v).par, Par::Merge(..));
                                    if !is_merge && !fresh.contains(&v) {
                                        obs.fail("C08", "action-committed-a-command-of-an-open-transaction", json!({"script": script, "node": v}));
                                    }
                                    committed.set(v);
                                }
                            }
                            Err(e) => obs.fail("C08", "graph-after-action-not-explained", json!({"why": e})),
                        }
                        obs.count("actions_ok", 1);
                    }
                    Err(e) => obs.fail("C08", &format!("action-failed:{}", err_kind(&e)), json!({"script": script, "err": e.to_string()})),
                }
            }
        }
        // history only grows, and equals the model's committed set
        let w: BTreeSet<Id> = rep.walk().unwrap().keys().copied().collect();
        if !prev_walk.is_subset(&w) {
            obs.fail("C08", "committed-command-set-shrank", json!({"script": script, "lost": prev_walk.difference(&w).count()}));
        }
        let want: BTreeSet<Id> = committed.iter().map(|v| model.node(v).id).collect();
        if w != want {
            let wk = rep.walk().unwrap();
            obs.fail("C08", "committed-set-differs-from-isolation-model", json!({"script": script, "missing": want.difference(&w).map(|i| format!("{:?}", model.idx(i))).collect::<Vec<_>>(), "extra": w.difference(&want).map(|i| format!("{:?} {:?}", model.idx(i), wk.get(i))).collect::<Vec<_>>()}));
            break;
        }
        prev_walk = w;
    }
    check_committed(&mut rep, &mut model, &committed, &json!({"what": "end of interleaving"}), true, &mut obs);
    // check_committed attributes to C03/C09; re-tag for this property
    for f in &mut obs.findings {
        if f.prop != "C08" {
            f.sig = format!("{}:{}", f.prop, f.sig);
            f.prop = "C08";
        }
    }
    if let Some(m) = mons.get("C08") {
        m.eval();
        if overlapped_commit {
            m.nontrivial(hash_of(&script));
        }
        m.sample(|| json!({"mode": "iso", "case_seed": cs, "transactions": k, "script": script}));
    }
    mons.take(obs, case);
}

// ------------------------------------------------------------------ C10

pub fn init_case(cs: u64, _args: &Args, mons: &mut Mons, case: &Value) {
    let mut rng = Rng::new(cs);
    let mut cfg = GenCfg::small(&mut rng);
    cfg.n = rng.urange(3, 12);
    let mut model = DagGen::new(cfg, &mut rng).build();
    if model.len() < 3 {
        return;
    }
    let init = model.node(0).id;
    let mut obs = Obs::default();
    let shape = cs % 7;
    let names = ["correct-init", "parented-first-command", "policy-less-init", "foreign-id-init", "empty-batch", "init-rejected-by-policy", "new_graph-action"];
    let mut rep = MemReplica::new_mem(&init);
    let graphs = |rep: &mut MemReplica| -> Vec<[u8; 32]> {
        rep.client.provider().list_graph_ids().map(|it| it.filter_map(|g| g.ok()).map(|g| *g.as_array()).collect()).unwrap_or_default()
    };
    let no_graph = |rep: &mut MemReplica, obs: &mut Obs, what: &str| {
        if rep.exists() || !graphs(rep).is_empty() {
            obs.fail("C10", "graph-created-by-invalid-first-command", json!({"shape": what}));
        }
    };
    let good = wire(&model.dag, 0);
    let mut t = rep.trx();
    match shape {
        0 => {
            match rep.add(&mut t, &[good.clone()]) {
                Ok(1) => {}
                other => obs.fail("C10", "correct-init-not-accepted", json!({"got": format!("{other:?}")})),
            }
            if graphs(&mut rep) != vec![init] {
                obs.fail("C10", "graph-id-is-not-init-id", json!({"graphs": graphs(&mut rep).len()}));
            }
        }
        1 => {
            // first command has a parent; the transaction's graph id is that command's id
            let v = 1.min(model.len() - 1);
            let c = wire(&model.dag, v);
            let mut r2 = MemReplica::new_mem(&model.node(v).id);
            let mut t2 = r2.trx();
            match r2.add(&mut t2, &[c]) {
                Err(ClientError::InitError) => {}
                other => obs.fail("C10", "parented-first-command-not-refused", json!({"got": format!("{other:?}"), "cmd": format!("{:?}", wire(&model.dag, v)), "node": format!("{:?}", model.node(v))})),
            }
            no_graph(&mut r2, &mut obs, names[1]);
        }
        2 => {
            let mut c = good.clone();
            c.policy = None;
            match rep.add(&mut t, &[c]) {
                Err(ClientError::InitError) => {}
                other => obs.fail("C10", "policy-less-init-not-refused", json!({"got": format!("{other:?}")})),
            }
            no_graph(&mut rep, &mut obs, names[2]);
        }
        3 => {
            let mut c = good.clone();
            let mut id = init;
            id[rng.usize(32)] ^= 1 << rng.usize(8);
            c.id = cmd_id(&id);
            match rep.add(&mut t, &[c]) {
                Err(ClientError::InitError) => {}
                other => obs.fail("C10", "foreign-id-init-not-refused", json!({"got": format!("{other:?}")})),
            }
            no_graph(&mut rep, &mut obs, names[3]);
        }
        4 => {
            let none: Vec<WireCmd> = vec![];
            match rep.add(&mut t, &none) {
                Err(ClientError::InitError) => {}
                other => obs.fail("C10", "empty-first-batch-not-refused", json!({"got": format!("{other:?}")})),
            }
            no_graph(&mut rep, &mut obs, names[4]);
        }
        5 => {
            let mut c = good.clone();
            c.data = Script { tag: 1, quiet: false, ops: vec![Op::Put { n: 0, k: vec![], v: vec![1] }, Op::Fail] }.encode();
            match rep.add(&mut t, &[c]) {
                Err(ClientError::PolicyError(_)) => {}
                other => obs.fail("C10", "init-rejected-by-policy-not-refused", json!({"got": format!("{other:?}")})),
            }
            no_graph(&mut rep, &mut obs, names[5]);
        }
        _ => {
            let act = ActionScript { dump: false, observe: vec![], publish: vec![PubSpec { prio: None, script: model.node(0).script.clone() }], fail_after: None, nonce: cs };
            match rep.new_graph(&act) {
                Ok(g) => {
                    let want = published_id(None, cs, 0);
                    if *g.as_array() != want || graphs(&mut rep) != vec![want] {
                        obs.fail("C10", "new_graph-id-is-not-init-command-id", json!({}));
                    }
                }
                Err(e) => obs.fail("C10", "new_graph-failed", json!({"err": e.to_string()})),
            }
        }
    }
    // After a refused first command the same replica can still be initialised correctly.
    if shape != 0 && shape != 6 {
        let mut t = rep.trx();
        match rep.add(&mut t, &[good.clone()]) {
            Ok(1) => {}
            other => obs.fail("C10", "correct-init-after-refused-attempt-fails", json!({"shape": names[shape as usize], "got": format!("{other:?}")})),
        }
        let _ = rep.commit(t);
    } else if shape == 0 {
        let _ = rep.commit(t);
    }
    // Existing graph: init-like commands in later batches.
    if shape != 6 && rep.exists() {
        let order: Vec<usize> = (1..model.len()).collect();
        let cut = rng.usize(order.len() + 1);
        let mut batch: Vec<WireCmd> = order[..cut].iter().map(|&v| wire(&model.dag, v)).collect();
        let kind = rng.below(3);
        let mut foreign = good.clone();
        let mut fid = init;
        fid[31] ^= 0x80;
        foreign.id = cmd_id(&fid);
        let intruder = match kind {
            0 => good.clone(), // the graph's own init again: no-op
            1 => foreign,      // parentless command with another id
            _ => {
                let mut f = foreign.clone();
                f.policy = None;
                f.prio = Priority::Basic(0);
                f
            }
        };
        batch.push(intruder);
        let mut t = rep.trx();
        let res = rep.add(&mut t, &batch);
        match (kind, res) {
            (0, Ok(c)) if c == cut => obs.count("own_init_redelivered_noop", 1),
            (0, other) => obs.fail("C10", "redelivered-own-init-is-not-a-noop", json!({"got": format!("{other:?}"), "want_count": cut})),
            (_, Err(ClientError::InitError)) => obs.count("foreign_parentless_refused", 1),
            (_, other) => obs.fail("C10", "foreign-parentless-command-not-refused", json!({"got": format!("{other:?}")})),
        }
        // the rest of the graph can still be delivered and committed
        let rest: Vec<WireCmd> = order[cut..].iter().map(|&v| wire(&model.dag, v)).collect();
        match rep.add(&mut t, &rest).and_then(|_| rep.commit(t)) {
            Ok(_) => {
                let all = all_bits(&model);
                check_committed(&mut rep, &mut model, &all, &json!({"what": "after init-like intruder"}), true, &mut obs);
                if graphs(&mut rep) != vec![init] {
                    obs.fail("C10", "graph-list-changed-by-init-like-command", json!({}));
                }
            }
            Err(e) => obs.fail("C10", "delivery-after-init-like-command-fails", json!({"err": e.to_string(), "kind": kind})),
        }
        for f in &mut obs.findings {
            if f.prop != "C10" {
                f.sig = format!("{}:{}", f.prop, f.sig);
                f.prop = "C10";
            }
        }
    }
    if let Some(m) = mons.get("C10") {
        m.eval();
        m.nontrivial(mix2(shape, hash_of(&obs.counts.keys().collect::<Vec<_>>())) ^ (cs % 64));
        m.seen("first_command_shapes", names[shape as usize]);
        m.sample(|| json!({"mode": "init", "case_seed": cs, "shape": names[shape as usize]}));
    }
    mons.take(obs, case);
}

// ------------------------------------------------------------------ C20

pub fn peer_case(cs: u64, _args: &Args, mons: &mut Mons, case: &Value) {
    let mut rng = Rng::new(cs);
    let mut cfg = GenCfg::small(&mut rng);
    cfg.n = rng.urange(10, 80);
    if rng.chance(1, 3) {
        cfg.shape = Shape::Fan;
        cfg.width = rng.urange(8, 30);
        cfg.n = cfg.n.max(cfg.width * 2);
    }
    let mut model = DagGen::new(cfg, &mut rng).build();
    let n = model.len();
    let init = model.node(0).id;
    // committed down-set D, plus more commands flushed in an open transaction
    let mut d = Bits::new(n);
    let picks = if rng.bool() { n } else { rng.urange(1, 8) };
    for _ in 0..picks {
        let v = rng.usize(n);
        d.or(model.ancestors(v));
    }
    let mut rep = MemReplica::new_mem(&init);
    let none = Bits::new(n);
    let mut obs = Obs::default();
    let dd = d.clone();
    let steps = history(&model, &|v| dd.get(v), &HistCfg { order: Order::RandomTopo, max_batch: 10, p_flush: 100, p_commit: 100, p_dup: 0 }, &mut rng);
    let out = run_history(&mut rep, &mut model, &steps, &none, &RunCfg { check_every_commit: false, check_blocks: false }, &mut obs);
    if out.aborted || out.committed != d {
        mons.take(obs, case);
        return;
    }
    // uncommitted-but-flushed remainder
    let mut t = rep.trx();
    let rest: Vec<usize> = linear_extension(&model, &|_| true, Order::Creation, &mut rng).into_iter().filter(|&v| !d.get(v)).collect();
    let wires: Vec<WireCmd> = rest.iter().map(|&v| wire(&model.dag, v)).collect();
    let flushed = rep.add(&mut t, &wires).is_ok() && rep.flush(&mut t).is_ok();

    let mut cache = PeerCache::new();
    let mut entries: Vec<usize> = vec![];
    let mut tbuf = aranya_runtime::TraversalBuffer::new();
    let graph = rep.graph;
    let storage = rep.client.provider().get_storage(graph).expect("storage");
    let mut stream = vec![];
    let mut interesting = false;
    for _ in 0..rng.urange(5, 150) {
        let v = rng.usize(n);
        let node = model.node(v).clone();
        let (a, kind) = match rng.weighted(&[10, 2, 2]) {
            0 => (Address { id: cmd_id(&node.id), max_cut: MaxCut::new(node.max_cut) }, if d.get(v) { "committed" } else { "uncommitted" }),
            1 => (Address { id: cmd_id(&node.id), max_cut: MaxCut::new(node.max_cut + 1) }, "wrong-max_cut"),
            _ => {
                let mut id = node.id;
                id[3] ^= 0x11;
                (Address { id: cmd_id(&id), max_cut: MaxCut::new(node.max_cut) }, "unknown")
            }
        };
        stream.push((v, kind));
        if let Err(e) = cache.add_command(storage, a, &mut tbuf) {
            obs.fail("C20", "peer-cache-add-failed", json!({"err": e.to_string()}));
            break;
        }
        obs.count(&format!("recorded_{kind}"), 1);
        // model update
        if kind == "committed" {
            if entries.iter().any(|&e| model.anc_eq(v, e)) {
                interesting = true; // ignored: ancestor of (or equal to) an entry
            } else {
                let before = entries.len();
                entries.retain(|&e| !model.anc_eq(e, v));
                if entries.len() < before {
                    interesting = true;
                    obs.count("evictions_of_ancestors", 1);
                }
                if entries.len() < 10 {
                    entries.push(v);
                } else {
                    obs.count("ignored_because_full", 1);
                }
            }
        } else {
            interesting = true;
        }
        // invariants + equality with the model
        let got: Vec<(Id, u64)> = cache.heads().iter().map(|h| (*h.id.as_array(), h.max_cut.get())).collect();
        if got.len() > 10 {
            obs.fail("C20", "peer-cache-exceeds-ten-entries", json!({"len": got.len()}));
        }
        let mut got_idx = vec![];
        for (id, mc) in &got {
            match model.idx(id) {
                Some(i) if d.get(i) && model.node(i).max_cut == *mc => got_idx.push(i),
                _ => obs.fail("C20", "peer-cache-holds-command-not-committed-locally", json!({"id": short(id), "stream": format!("{stream:?}")})),
            }
        }
        for (i, &x) in got_idx.iter().enumerate() {
            for &y in &got_idx[i + 1..] {
                if model.anc_eq(x, y) || model.anc_eq(y, x) {
                    obs.fail("C20", "peer-cache-entry-is-ancestor-of-another", json!({"x": x, "y": y, "stream": format!("{stream:?}")}));
                }
            }
        }
        let gs: BTreeSet<usize> = got_idx.iter().copied().collect();
        let ws: BTreeSet<usize> = entries.iter().copied().collect();
        if gs != ws {
            obs.fail("C20", "peer-cache-differs-from-update-rule", json!({"got": gs, "want": ws, "stream": format!("{stream:?}")}));
            break;
        }
        obs.max("max_cache_len", got.len() as u64);
    }
    if let Some(m) = mons.get("C20") {
        m.eval();
        if interesting {
            m.nontrivial(hash_of(&stream));
        }
        if flushed {
            m.count("cases_with_flushed_uncommitted_commands", 1);
        }
        m.sample(|| json!({"mode": "peer", "case_seed": cs, "commands": n, "committed": d.count(), "stream": stream.iter().take(20).collect::<Vec<_>>()}));
    }
    let _ = (Prior::<u8>::None, case);
    mons.take(obs, case);
}
