//! Large cases: braids longer than the 256-entry buffer, more than 3x256 live convergence points,
//! long chains with skip lists, wide head sets. Serves C01, C02, C03, C09.
use graphkit::audit::{wire, WireCmd};
use graphkit::{dag::*, driver::*, r#gen::*, model::*, replica::*};
use vcore::*;

use crate::{all_bits, final_view, Mons};

pub fn build(kind: u64, rng: &mut Rng, scale: u64) -> Model {
    let sz = |n: usize| (n as u64 * scale / 100).max(4) as usize;
    let cfg = GenCfg {
        n: 0,
        shape: Shape::Random,
        id_style: *rng.pick(&[IdStyle::Random, IdStyle::LastByte, IdStyle::Ascending, IdStyle::Descending]),
        prios: *rng.pick(&[1, 2, 4]),
        p_finalize: 0,
        finalize_safe: true,
        p_require: 50,
        p_quiet: 850,
        p_del: 200,
        max_ops: 2,
        width: 0,
    };
    let mut cfg = cfg;
    if kind % 5 == 4 {
        // the comb needs many convergence points pending at once: pop deep tips early
        cfg.id_style = if kind >= 5 { IdStyle::Ascending } else { IdStyle::Random };
    }
    let mut g = DagGen::new(cfg, rng);
    match kind % 5 {
        4 => {
            // comb: a spine where every command also has a side tip: > 256 convergence points at
            // distinct max_cuts, each in its own segment, all pending in one multi-head commit
            let n = sz(g.rng.urange(300, 420));
            let mut c = g.child(0);
            for _ in 0..n {
                let next = g.child(c);
                let tip = g.child_with(c, Prio::Basic(0));
                let _ = tip;
                c = next;
            }
        }
        0 => {
            // two (or three) long concurrent branches: braid of 600-1000 entries
            let root = g.chain(0, 2);
            let k = g.rng.urange(2, 3);
            for _ in 0..k {
                let len = sz(g.rng.urange(300, 480));
                g.chain(root, len);
            }
        }
        1 => {
            // > 768 convergence points at one max_cut level
            let w = sz(820);
            let mut ms = vec![];
            for _ in 0..w {
                let x = g.child(0);
                let y = g.child(x);
                let z = g.child(x);
                if let Some(m) = g.merge(y, z) {
                    ms.push(m);
                }
            }
            // optionally fold a few of them so nested merges exist too
            for i in 0..g.rng.usize(6) {
                if i + 1 < ms.len() {
                    g.merge(ms[i], ms[i + 1]);
                }
            }
        }
        2 => {
            // long chain with branches at skip-list boundaries, merged back at the end
            let n = sz(g.rng.urange(1500, 3000));
            let mut trunk = vec![0usize];
            for _ in 0..n {
                let p = *trunk.last().unwrap();
                trunk.push(g.child(p));
            }
            let mut tip = *trunk.last().unwrap();
            for d in [n / 2, n * 3 / 4, n * 7 / 8, n - 11, n - 10, n - 9, 1] {
                let len = g.rng.urange(1, 12);
                let b = g.chain(trunk[d.min(n - 1)], len);
                if g.rng.bool() {
                    if let Some(m) = g.merge(tip, b) {
                        tip = g.child(m);
                    }
                }
            }
        }
        _ => {
            // wide fan: several hundred heads committed at once
            let root = g.chain(0, 1);
            let w = sz(g.rng.urange(300, 600));
            for _ in 0..w {
                let c = g.child(root);
                if g.rng.chance(1, 4) {
                    g.child(c);
                }
            }
        }
    }
    g.build_as_is()
}

pub fn case(cs: u64, args: &Args, mons: &mut Mons, case: &Value) {
    let mut rng = Rng::new(cs);
    // low bits of the case seed select the kind: 0..4 = the five kinds, 5 = comb with ascending ids, 6 = fan-out
    let sel = cs & 7;
    let kind = [0u64, 1, 2, 3, 4, 4, 1, 0][sel as usize];
    let mut model = build(if sel == 5 { 9 } else { kind }, &mut rng, args.scale.min(100));
    let all = all_bits(&model);
    let init = model.node(0).id;
    let mut obs = Obs::default();
    let mut views = vec![];
    let none = Bits::new(model.len());
    let mut first: Option<(Vec<Step>, u64)> = None;
    for h in 0..2 {
        let hcfg = HistCfg {
            order: if h == 0 { Order::Creation } else { *rng.pick(&[Order::RandomTopo, Order::DepthFirst, Order::LowIdFirst]) },
            max_batch: if h == 0 { 100 } else { *rng.pick(&[1, 7, 400]) },
            p_flush: if h == 0 { 0 } else { 200 },
            p_commit: if h == 0 { 0 } else { *rng.pick(&[0, 20]) },
            p_dup: 0,
        };
        let steps = history(&model, &|_| true, &hcfg, &mut rng);
        let mut rep = MemReplica::new_mem(&init);
        let out = run_history(&mut rep, &mut model, &steps, &none, &RunCfg { check_every_commit: false, check_blocks: true }, &mut obs);
        if h == 0 && !out.aborted {
            first = Some((steps.clone(), rep.spill.braid_reads.get()));
        }
        if !out.aborted && out.committed == all {
            if let Some(v) = final_view(&mut rep) {
                views.push(v);
            }
        }
        if rep.spill.runaway.get() > 0 {
            obs.fail("C02", "convergence-map-lookup-never-terminates", json!({"history": h, "spill_writes_by_one_braid": graphkit::audit::SPILL_WRITE_LIMIT}));
        }
        obs.count("histories", 1);
        obs.count("spill_braid_writes", rep.spill.braid_writes.get());
        obs.count("spill_braid_reads", rep.spill.braid_reads.get());
        obs.count("spill_conv_writes", rep.spill.conv_writes.get());
        obs.count("spill_conv_reads", rep.spill.conv_reads.get());
    }
    // Fault injection on the spill: the same first history again with the k-th read of a spilled
    // braid block failing. Whatever the runtime does with the error, it may not report success
    // for a state that misses commands: either the call fails (nothing new is committed) or the
    // committed facts equal the reference.
    if let Some((steps0, reads0)) = first.take() {
        if reads0 > 0 {
            let k = rng.below(reads0);
            let mut rep = MemReplica::new_mem(&init);
            rep.spill.fail_braid_reads_from.set(Some(k));
            let mut trx = rep.trx();
            let mut in_trx = Bits::new(model.len());
            let mut outcome = "not-reached";
            'steps: for step in &steps0 {
                match step {
                    Step::Add(batch) => {
                        let wires: Vec<WireCmd> = batch.iter().map(|&v| wire(&model.dag, v)).collect();
                        match rep.add(&mut trx, &wires) {
                            Ok(_) => {
                                for &v in batch {
                                    in_trx.set(v);
                                }
                            }
                            Err(_) => {
                                outcome = "add-failed";
                                break 'steps;
                            }
                        }
                    }
                    Step::Flush => {
                        let _ = rep.flush(&mut trx);
                    }
                    Step::Commit => {
                        let t = std::mem::replace(&mut trx, rep.trx());
                        match rep.commit(t) {
                            Ok(_) => {
                                outcome = "committed";
                                rep.take_log();
                                let injected = rep.spill.injected_read_faults.get();
                                check_committed(&mut rep, &mut model, &in_trx, &json!({"after": "commit with a failing spill read", "failing_read": k, "injected": injected}), true, &mut obs);
                            }
                            Err(_) => outcome = "commit-failed",
                        }
                        break 'steps;
                    }
                }
            }
            rep.take_log();
            obs.count("spill_read_fault_cases", 1);
            obs.count(&format!("spill_read_fault_outcome_{outcome}"), 1);
            if rep.spill.injected_read_faults.get() > 0 {
                obs.count("spill_read_faults_injected", 1);
            }
        }
    }
    if views.len() == 2 && views[0] != views[1] {
        obs.fail("C01", "large-replicas-with-same-commands-differ", json!({"heads_equal": views[0].0 == views[1].0, "facts_equal": views[0].1 == views[1].1, "hello_equal": views[0].2 == views[1].2}));
    }
    obs.count("large_cases", 1);
    obs.max("max_commands_in_case", model.len() as u64);
    let h = mix2(model.dag.shape_hash(), kind);
    for id in ["C01", "C02", "C03", "C09"] {
        if let Some(m) = mons.get(id) {
            m.eval();
            m.nontrivial(h);
            m.seen("large_kinds", ["long-branches", "convergence-fanout", "long-chain-skip-boundaries", "wide-fan", "comb"][kind as usize]);
        }
    }
    mons.take(obs, case);
}
