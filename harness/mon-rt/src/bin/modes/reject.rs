//! C06: commands rejected at origin leave no trace.
use aranya_runtime::{ClientError, Prior, Priority};
use graphkit::{audit::*, dag::*, driver::*, r#gen::*, model::*, replica::*};
use vcore::*;

use crate::Mons;

#[derive(Clone, Debug)]
enum Item {
    Node(usize),
    /// Index into `ghosts`.
    Ghost(usize),
    /// A command naming ghost g as its parent.
    GhostChild(usize),
    Flush,
    Commit,
}

struct Ghost {
    id: Id,
    parent: usize,
    script: Script,
    kind: &'static str,
}

pub fn case(cs: u64, args: &Args, mons: &mut Mons, case: &Value) {
    let _ = args;
    let mut rng = Rng::new(cs);
    let mut cfg = GenCfg::small(&mut rng);
    cfg.n = rng.urange(4, 30);
    let mut model = DagGen::new(cfg, &mut rng).build();
    let n = model.len();
    let init = model.node(0).id;
    let order = linear_extension(&model, &|_| true, *rng.pick(&[Order::Creation, Order::RandomTopo, Order::DepthFirst]), &mut rng);

    // Ghosts: rejected commands hanging off delivered nodes.
    let ng = rng.urange(1, 3);
    let mut ghosts = vec![];
    for g in 0..ng {
        let parent = order[rng.usize(order.len())];
        let (script, kind) = if rng.chance(2, 3) {
            let mut ops = vec![];
            for j in 0..rng.urange(1, 3) {
                ops.push(Op::Put { n: rng.below(3) as u8, k: gen_key(&mut rng), v: vec![0xBA, 0xD0, g as u8, j as u8] });
            }
            if rng.bool() {
                ops.push(Op::Del { n: rng.below(3) as u8, k: gen_key(&mut rng) });
            }
            let at = rng.urange(1, ops.len());
            ops.insert(at, Op::Fail);
            (Script { tag: 0x6000_0000 + g as u32, quiet: false, ops }, "write-then-fail")
        } else {
            // a Require that cannot hold: the value is never written by anyone
            (Script { tag: 0x6000_0000 + g as u32, quiet: false, ops: vec![Op::Require { n: 0, k: gen_key(&mut rng), v: Some(vec![0xDE, 0xAD, g as u8]) }, Op::Put { n: 1, k: gen_key(&mut rng), v: vec![0xBA, 0xD1] }] }, "failing-require")
        };
        let mut id = [0u8; 32];
        rng.fill(&mut id);
        ghosts.push(Ghost { id, parent, script, kind });
    }

    // Place items: each ghost somewhere after its parent, with a position class.
    let mut items: Vec<Item> = vec![];
    let mut classes = vec![];
    let mut placed = vec![false; ng];
    let pos_of = |v: usize| order.iter().position(|&x| x == v).unwrap();
    let mut ghost_at: Vec<(usize, usize)> = vec![]; // (after order index, ghost)
    for (g, gh) in ghosts.iter().enumerate() {
        let p = pos_of(gh.parent);
        let class = rng.below(3);
        let after = match class {
            0 => p,                                         // right after its parent: in-flight perspective
            1 => rng.urange(p, order.len() - 1),            // later: usually a perspective switch
            _ => order.len() - 1,                           // at the very end
        };
        ghost_at.push((after, g));
        classes.push(class);
    }
    for (i, &v) in order.iter().enumerate() {
        items.push(Item::Node(v));
        if rng.chance(1, 8) {
            items.push(Item::Flush);
        }
        for &(after, g) in &ghost_at {
            if after == i && !placed[g] {
                placed[g] = true;
                if rng.chance(1, 4) {
                    items.push(Item::Flush);
                }
                items.push(Item::Ghost(g));
                if rng.chance(1, 2) {
                    items.push(Item::GhostChild(g));
                }
            }
        }
        if rng.chance(1, 12) {
            items.push(Item::Commit);
        }
    }
    items.push(Item::Commit);

    let mut obs = Obs::default();
    let mut rep = MemReplica::new_mem(&init);
    let mut trx = rep.trx();
    let mut in_trx = Bits::new(n);
    let mut committed = Bits::new(n);
    let mut accepted_since_commit = 0usize;
    let mut ghost_with_earlier_accepted = false;
    let max_batch = *rng.pick(&[1usize, 3, 8, 100]);
    let mut i = 0;
    let wire_of = |model: &Model, it: &Item| -> Option<WireCmd> {
        match it {
            Item::Node(v) => Some(wire(&model.dag, *v)),
            Item::Ghost(g) => {
                let gh = &ghosts[*g];
                let p = model.node(gh.parent);
                Some(WireCmd { id: cmd_id(&gh.id), prio: Priority::Basic(1), parent: Prior::Single(addr(&p.id, p.max_cut)), policy: None, data: gh.script.encode() })
            }
            Item::GhostChild(g) => {
                let gh = &ghosts[*g];
                let pm = model.node(gh.parent).max_cut + 1;
                let mut id = gh.id;
                id[0] ^= 0xff;
                Some(WireCmd { id: cmd_id(&id), prio: Priority::Basic(1), parent: Prior::Single(addr(&gh.id, pm)), policy: None, data: Script { tag: 0x6100_0000 + *g as u32, quiet: false, ops: vec![] }.encode() })
            }
            _ => None,
        }
    };
    'outer: while i < items.len() {
        match &items[i] {
            Item::Flush => {
                if rep.exists() {
                    if let Err(e) = rep.flush(&mut trx) {
                        obs.fail("C06", &format!("flush-failed-after-rejection:{}", err_kind(&e)), json!({"err": e.to_string(), "item": i}));
                        break 'outer;
                    }
                }
                i += 1;
            }
            Item::Commit => {
                let t = std::mem::replace(&mut trx, rep.trx());
                rep.take_log();
                match rep.commit(t) {
                    Ok(_) => {
                        committed = in_trx.clone();
                        accepted_since_commit = 0;
                        if committed.count() > 0 {
                            check_committed(&mut rep, &mut model, &committed, &json!({"item": i, "what": "commit after rejections"}), true, &mut obs);
                        }
                    }
                    Err(e) => {
                        obs.fail("C06", &format!("commit-fails-after-rejected-command:{}", err_kind(&e)), json!({"err": e.to_string(), "item": i, "accepted_in_transaction": accepted_since_commit, "items": format!("{:?}", &items[..=i])}));
                        // committed state must at least be unchanged
                        if committed.count() > 0 {
                            check_committed(&mut rep, &mut model, &committed, &json!({"item": i, "what": "after failed commit"}), true, &mut obs);
                        }
                        break 'outer;
                    }
                }
                i += 1;
            }
            _ => {
                // a batch of commands
                let mut j = i;
                while j < items.len() && j - i < max_batch && !matches!(items[j], Item::Flush | Item::Commit) {
                    j += 1;
                }
                let batch = &items[i..j];
                let wires: Vec<WireCmd> = batch.iter().filter_map(|it| wire_of(&model, it)).collect();
                let first_bad = batch.iter().position(|it| !matches!(it, Item::Node(_)));
                rep.take_log();
                let res = rep.add(&mut trx, &wires);
                let log = rep.take_log();
                match (first_bad, res) {
                    (None, Ok(_)) => {
                        for it in batch {
                            if let Item::Node(v) = it {
                                in_trx.set(*v);
                                accepted_since_commit += 1;
                            }
                        }
                        i = j;
                    }
                    (Some(b), Err(e)) => {
                        for it in &batch[..b] {
                            if let Item::Node(v) = it {
                                in_trx.set(*v);
                                accepted_since_commit += 1;
                            }
                        }
                        match (&batch[b], &e) {
                            (Item::Ghost(g), ClientError::PolicyError(_)) => {
                                obs.count("rejections_observed", 1);
                                obs.count(&format!("rejections_{}", ghosts[*g].kind), 1);
                                obs.count(&format!("rejection_position_class_{}", classes[*g]), 1);
                                if accepted_since_commit > 0 {
                                    ghost_with_earlier_accepted = true;
                                }
                                // effects rolled back: last block is the ghost's and ends in rollback
                                let (bl, _) = blocks(&log);
                                match bl.last() {
                                    Some(bk) if bk.end == BlockEnd::Rollback && bk.rules.last().is_some_and(|r| r.0 == ghosts[*g].id && r.4.is_err()) => {}
                                    other => obs.fail("C06", "effects-of-rejected-command-not-rolled-back", json!({"block": format!("{other:?}")})),
                                }
                            }
                            (Item::GhostChild(g), ClientError::NoSuchParent(p)) if *p.as_array() == ghosts[*g].id => {
                                obs.count("children_of_rejected_refused", 1);
                            }
                            (it, e) => {
                                let extra = if let Item::Ghost(g) = it {
                                    let pn = model.node(ghosts[*g].parent).clone();
                                    format!("ids {:?} parent node {} id {} max_cut {} in_trx {} committed {} locate {:?} heads {:?}", (0..model.len()).map(|v| (v, cmd_id(&model.node(v).id).to_string()[..6].to_string(), format!("{:?}", model.node(v).par))).collect::<Vec<_>>(), ghosts[*g].parent, short(&pn.id), pn.max_cut, in_trx.get(ghosts[*g].parent), committed.get(ghosts[*g].parent), rep.locate(&pn.id, pn.max_cut), rep.heads().map(|h| h.iter().map(|x| (short(&x.0), x.1)).collect::<Vec<_>>()))
                                } else { String::new() };
                                obs.fail("C06", "wrong-error-for-rejected-command", json!({"item": format!("{it:?}"), "err": e.to_string(), "extra": extra}))
                            }
                        }
                        i += b + 1;
                    }
                    (Some(b), Ok(_)) => {
                        obs.fail("C06", "rejecting-command-was-accepted", json!({"item": format!("{:?}", batch[b])}));
                        break 'outer;
                    }
                    (None, Err(e)) => {
                        obs.fail("C06", &format!("valid-command-refused-after-rejection:{}", err_kind(&e)), json!({"err": e.to_string(), "batch": format!("{batch:?}")}));
                        break 'outer;
                    }
                }
            }
        }
    }
    // Rejected commands are not locatable.
    if rep.exists() {
        for gh in &ghosts {
            let mc = model.node(gh.parent).max_cut + 1;
            if let Ok(Some(_)) = rep.locate(&gh.id, mc) {
                obs.fail("C06", "rejected-command-is-stored", json!({"kind": gh.kind}));
            }
        }
    }
    if let Some(m) = mons.get("C06") {
        m.eval();
        if ghost_with_earlier_accepted {
            m.nontrivial(mix2(model.dag.shape_hash(), hash_of(&format!("{items:?}"))));
        }
        m.sample(|| json!({"mode": "reject", "case_seed": cs, "commands": n, "ghosts": ghosts.iter().map(|g| json!({"kind": g.kind, "parent": g.parent, "ops": format!("{:?}", g.script.ops)})).collect::<Vec<_>>(), "items": format!("{items:?}"), "max_batch": max_batch}));
    }
    mons.take(obs, case);
}
