//! Delivery histories of one DAG on fresh replicas: C01, C02, C03, C05, C09.
use graphkit::{dag::*, driver::*, r#gen::*, model::*, replica::*};
use vcore::*;

use crate::{all_bits, final_view, Mons};

pub fn case(cs: u64, unsafe_finalize: bool, args: &Args, mons: &mut Mons, case: &Value) {
    if args.get("storage") == Some("file") {
        // the same workload on the libc FileManager (one tmpfs directory per replica)
        let dirs = std::cell::RefCell::new(vec![]);
        case_on(cs, unsafe_finalize, args, mons, case, &|init: &Id| {
            let d = Scratch::new("rt-hist");
            let r = FileReplica::new_file(d.path(), init);
            dirs.borrow_mut().push(d);
            r
        });
    } else {
        case_on(cs, unsafe_finalize, args, mons, case, &|init: &Id| MemReplica::new_mem(init));
    }
}

fn case_on<M: aranya_runtime::linear::IoManager>(cs: u64, unsafe_finalize: bool, args: &Args, mons: &mut Mons, case: &Value, mk: &dyn Fn(&Id) -> Replica<M>) {
    let mut rng = Rng::new(cs);
    let mut cfg = GenCfg::small(&mut rng);
    if unsafe_finalize {
        cfg.finalize_safe = false;
        cfg.p_finalize = *rng.pick(&[60, 120, 250]);
        cfg.n = rng.urange(5, 40);
    }
    let shape = cfg.shape;
    let mut degenerate = false;
    let mut model = {
        let mut g = DagGen::new(cfg, &mut rng);
        g.fill();
        if unsafe_finalize && args.get("degenerate").is_some() && g.rng.chance(1, 2) {
            // Exploratory, off by default (`--set degenerate=1`): merges with one parent an
            // ancestor of the other, as a peer may send them. The unchanged runtime accepts them,
            // trips a debug assertion while braiding and applies commands twice (DESIGN.md 8);
            // the reference model's applied-set oracle is not defined for them either.
            for _ in 0..g.rng.urange(1, 2) {
                degenerate |= g.degenerate_merge_gadget();
            }
        }
        g.build_as_is()
    };
    if unsafe_finalize && rng.bool() {
        // Also end the DAG with an explicit merge command over two parallel finalize branches,
        // so the error is exercised through add_commands(merge) and not only through commit.
        let tips = model.frontier(&all_bits(&model));
        'find: for &a in &tips {
            for &b in &tips {
                if a < b && model.braid(&[a, b]).is_err() {
                    let id = merge_id(&model.node(a).id, &model.node(b).id);
                    let (l, r) = if model.node(a).id <= model.node(b).id { (a, b) } else { (b, a) };
                    model.push(Node { id, par: Par::Merge(l, r), prio: Prio::Merge, script: Script { tag: u32::MAX, quiet: true, ops: vec![] }, max_cut: 0 });
                    break 'find;
                }
            }
        }
    }
    if std::env::var("RT_DBG").is_ok() {
        for v in 0..model.len() {
            eprintln!("[dag] {v}: par {:?} prio {:?} mc {}", model.node(v).par, model.node(v).prio, model.node(v).max_cut);
        }
    }
    let all = all_bits(&model);
    let n_hist = if unsafe_finalize { 2 } else { args.tier.pick(4, 5) };
    let merges = (0..model.len()).filter(|&v| matches!(model.node(v).par, Par::Merge(..))).count();
    let fins = (0..model.len()).filter(|&v| model.node(v).prio == Prio::Finalize).count();
    let final_heads = model.frontier(&all).len();
    let mut views = vec![];
    let mut hist_hashes = vec![];
    let mut obs = Obs::default();
    let init = model.node(0).id;
    let mut any_pf = false;
    for h in 0..n_hist {
        let hcfg = HistCfg::random(&mut rng);
        let steps = history(&model, &|_| true, &hcfg, &mut rng);
        hist_hashes.push(hash_of(&format!("{steps:?}")));
        let mut rep = mk(&init);
        let mut o = Obs::default();
        let none = Bits::new(model.len());
        let out = run_history(&mut rep, &mut model, &steps, &none, &RunCfg::default(), &mut o);
        for f in &mut o.findings {
            f.detail = json!({"history": h, "hcfg": format!("{hcfg:?}"), "detail": f.detail});
        }
        obs.findings.extend(o.findings);
        for (k, v) in o.counts {
            if k.starts_with("max_") { obs.max(&k, v) } else { obs.count(&k, v) }
        }
        any_pf |= out.parallel_finalize;
        if out.parallel_finalize && unsafe_finalize {
            // The replica (and its RuntimeBuffers) lives on after the error, as a real client does.
            // Second attempt: everything not yet committed again, in one transaction (the reference
            // says whether it must fail again). Third: a down-set without parallel finalize
            // commands, which must commit and match the reference.
            let committed = out.committed.clone();
            let rest: Vec<usize> = (0..model.len()).filter(|&v| !committed.get(v)).collect();
            if !rest.is_empty() {
                let mut o2 = Obs::default();
                let out2 = run_history(&mut rep, &mut model, &[Step::Add(rest), Step::Commit], &committed, &RunCfg::default(), &mut o2);
                for f in &mut o2.findings {
                    f.detail = json!({"history": h, "attempt": "retry after parallel finalize, same buffers", "detail": f.detail});
                }
                obs.findings.extend(o2.findings);
                obs.count("retries_after_parallel_finalize", 1);
                let committed2 = out2.committed.clone();
                // greedy finalize-safe extension of what is committed
                let mut safe = committed2.clone();
                for v in 0..model.len() {
                    if safe.get(v) || !model.node(v).par.iter().all(|p| safe.get(p)) {
                        continue;
                    }
                    let ok_fin = model.node(v).prio != Prio::Finalize
                        || (0..model.len()).filter(|&f| safe.get(f) && model.node(f).prio == Prio::Finalize).all(|f| model.anc_eq(f, v) || model.anc_eq(v, f));
                    let ok_merge = match model.node(v).par {
                        Par::Merge(l, r) => model.braid(&[l, r]).is_ok(),
                        _ => true,
                    };
                    if ok_fin && ok_merge {
                        let mut t = safe.clone();
                        t.set(v);
                        // the whole frontier must stay braidable
                        let fr = model.frontier(&t);
                        if fr.len() == 1 || model.braid(&fr).is_ok() {
                            safe = t;
                        }
                    }
                }
                if safe != committed2 {
                    let s2 = safe.clone();
                    let c2 = committed2.clone();
                    let steps3 = history(&model, &|v| s2.get(v) && !c2.get(v), &HistCfg::random(&mut rng), &mut rng);
                    let mut o3 = Obs::default();
                    let _ = run_history(&mut rep, &mut model, &steps3, &committed2, &RunCfg::default(), &mut o3);
                    for f in &mut o3.findings {
                        f.detail = json!({"history": h, "attempt": "finalize-safe continuation after parallel finalize, same buffers", "detail": f.detail});
                    }
                    obs.findings.extend(o3.findings);
                    obs.count("safe_continuations_after_parallel_finalize", 1);
                }
            }
        }
        if !out.aborted && !out.parallel_finalize && out.committed == all {
            if let Some(v) = final_view(&mut rep) {
                views.push((h, v));
            }
        }
        obs.count("histories", 1);
        obs.count("spill_braid_writes", rep.spill.braid_writes.get());
        obs.count("spill_conv_writes", rep.spill.conv_writes.get());
    }
    // C01: pairwise equality of everything a replica reports.
    for w in views.windows(2) {
        let (ha, a) = &w[0];
        let (hb, b) = &w[1];
        if a.0 != b.0 {
            obs.fail("C01", "replicas-with-same-commands-report-different-heads", json!({"histories": [ha, hb]}));
        }
        if a.1 != b.1 {
            obs.fail("C01", "replicas-with-same-commands-answer-fact-queries-differently", json!({"histories": [ha, hb], "diff": facts_diff(&a.1, &b.1)}));
        }
        if a.2 != b.2 {
            obs.fail("C01", "replicas-with-same-commands-compute-different-hello-heads", json!({"histories": [ha, hb]}));
        }
    }
    let distinct_hist = { let mut h = hist_hashes.clone(); h.sort(); h.dedup(); h.len() };
    let shape_h = model.dag.shape_hash();
    let case_h = mix2(shape_h, hist_hashes.iter().fold(0, |a, b| a ^ b));
    for id in ["C01", "C02", "C03", "C09", "C05"] {
        if let Some(m) = mons.get(id) {
            m.eval();
            let nt = match id {
                "C01" => (merges >= 1 || final_heads >= 2) && distinct_hist >= 2 && views.len() >= 2,
                "C02" => obs.counts.get("braids").copied().unwrap_or(0) >= 1 && obs.counts.get("max_braid_len").copied().unwrap_or(0) >= 2,
                "C03" => merges >= 1 || obs.counts.get("multi_head_commits").copied().unwrap_or(0) >= 1,
                "C09" => obs.counts.get("multi_head_commits").copied().unwrap_or(0) >= 1,
                "C05" => fins >= 2,
                _ => false,
            };
            if nt {
                m.nontrivial(case_h);
            }
            m.seen("shapes", &format!("{shape:?}"));
            if any_pf {
                m.count("cases_with_parallel_finalize", 1);
            }
            if degenerate {
                m.count("cases_with_a_merge_of_comparable_parents", 1);
                if any_pf {
                    m.count("parallel_finalize_cases_with_a_merge_of_comparable_parents", 1);
                }
            }
            m.sample(|| json!({"mode": case["mode"], "case_seed": case["case_seed"], "nodes": model.len(), "merges": merges, "finalize": fins, "final_heads": final_heads, "shape": format!("{shape:?}"), "dag_head": model.dag.nodes.iter().take(6).map(|n| json!({"id": short(&n.id), "par": format!("{:?}", n.par), "prio": format!("{:?}", n.prio), "ops": n.script.ops.len()})).collect::<Vec<_>>()}));
        }
    }
    if degenerate {
        // Merges of comparable parents: only the parallel-finalize oracle is defined for them
        // (the reference's applied-set and fact oracles are not, and the unchanged runtime
        // misapplies commands behind such merges - DESIGN.md 12). Keep C05's own findings.
        obs.findings.retain(|f| f.prop == "C05");
        for f in &mut obs.findings {
            f.sig = format!("comparable-merge-parents:{}", f.sig);
        }
        // The spurious error is a recorded finding of the unchanged tree: report it once per
        // process and count the rest, so that it cannot crowd other signatures out of the
        // bounded violation list or end the workload early.
        static SPURIOUS_REPORTED: std::sync::atomic::AtomicBool = std::sync::atomic::AtomicBool::new(false);
        let mut spurious = 0u64;
        obs.findings.retain(|f| {
            if f.sig.starts_with("comparable-merge-parents:spurious-parallel-finalize") {
                spurious += 1;
                !SPURIOUS_REPORTED.swap(true, std::sync::atomic::Ordering::Relaxed)
            } else {
                true
            }
        });
        obs.count("comparable_merge_spurious_parallel_finalize_errors", spurious);
    }
    mons.take(obs, case);
}
