//! Lazy merges, actions and hello: C04, C07, C19 (and C01 through action + delivery).
use std::collections::BTreeSet;

use graphkit::{audit::*, dag::*, driver::*, r#gen::*, model::*, replica::*};
use vcore::*;

use crate::{all_bits, final_view, Mons};

fn gen_action(rng: &mut Rng, nonce: u64, tag_base: u32) -> (ActionScript, &'static str) {
    let k = rng.weighted(&[1, 4, 3, 2, 1, 1]);
    let mut publish = vec![];
    for i in 0..k {
        let mut ops = vec![];
        for j in 0..rng.urange(0, 2) {
            let n = rng.below(NAMES.len() as u64) as u8;
            if rng.chance(1, 4) {
                ops.push(Op::Del { n, k: gen_key(rng) });
            } else {
                ops.push(Op::Put { n, k: gen_key(rng), v: vec![0xAC, i as u8, j as u8, (nonce & 0xff) as u8] });
            }
        }
        publish.push(PubSpec {
            prio: Some(Prio::Basic(rng.below(3) as u32)),
            script: Script { tag: tag_base + i as u32, quiet: rng.chance(1, 5), ops },
        });
    }
    let mut act = ActionScript { dump: true, observe: vec![], publish, fail_after: None, nonce };
    let kind = match rng.weighted(&[6, 2, 2]) {
        0 => "success",
        1 => {
            act.fail_after = Some(rng.usize(k + 1));
            "action-fails-after-j-publishes"
        }
        _ if k > 0 => {
            let j = rng.usize(k);
            let at = rng.usize(act.publish[j].script.ops.len() + 1);
            act.publish[j].script.ops.insert(at, Op::Fail);
            "published-command-rejected-after-writes"
        }
        _ => "success",
    };
    (act, kind)
}

pub fn case(cs: u64, args: &Args, mons: &mut Mons, case: &Value) {
    let _ = args;
    let mut rng = Rng::new(cs);
    let mut cfg = GenCfg::small(&mut rng);
    // favour multi-head outcomes
    cfg.shape = *rng.pick(&[Shape::Random, Shape::Fan, Shape::Fan, Shape::Diamonds, Shape::DeepLca, Shape::Ladder]);
    cfg.width = rng.urange(2, 40);
    if cfg.shape == Shape::Fan {
        cfg.n = cfg.n.max(cfg.width * 2);
    }
    let mut model = DagGen::new(cfg, &mut rng).build();
    let base_all = all_bits(&model);
    let init = model.node(0).id;
    let none = Bits::new(model.len());
    let mut obs = Obs::default();

    // Replica A and A2 hold the same commands via different histories.
    let mut a = MemReplica::new_mem(&init);
    let mut a2 = MemReplica::new_mem(&init);
    for r in [&mut a, &mut a2] {
        let h = HistCfg::random(&mut rng);
        let steps = history(&model, &|_| true, &h, &mut rng);
        let out = run_history(r, &mut model, &steps, &none, &RunCfg { check_every_commit: false, check_blocks: false }, &mut obs);
        if out.aborted || out.committed != base_all {
            mons.take(obs, case);
            return;
        }
    }
    let heads_before = a.heads().unwrap();
    let nheads = heads_before.len();
    let facts_before = a.facts().unwrap();
    let hello_before = a.hello().unwrap();
    let walk_before: BTreeSet<Id> = a.walk().unwrap().keys().copied().collect();

    // C19 on the pre-action state: B holds a random down-set.
    c19_pairs(&mut a, &mut model, &base_all, &mut rng, &mut obs);
    // equal head sets => equal hello heads
    if a2.hello().ok() != Some(hello_before) {
        obs.fail("C19", "equal-head-sets-different-hello-heads", json!({"heads": nheads}));
    }

    let (act, kind) = gen_action(&mut rng, cs, 0x4000_0000);
    a.take_log();
    let res = a.action(&act);
    let log = a.take_log();
    let dump = log.iter().find_map(|e| if let Event::ActionDump(d) = e { Some(d.clone()) } else { None });
    let published: Vec<Published> = log.iter().filter_map(|e| if let Event::Published(p) = e { Some(p.clone()) } else { None }).collect();
    let (bl, _) = blocks(&log);
    let consumed_braid = log.iter().any(|e| matches!(e, Event::SinkConsume(eff) if eff.place == Place::Braid));
    obs.count("actions", 1);
    obs.count(&format!("actions_{kind}"), 1);
    obs.max("max_heads_collapsed", nheads as u64);

    // C04: what the action saw is what queries saw; the collapse emits nothing.
    if let Some(d) = &dump {
        if *d != facts_before {
            obs.fail("C04", "action-sees-different-facts-than-queries", json!({"heads": nheads, "diff": facts_diff(d, &facts_before)}));
        }
    } else {
        obs.fail("C04", "action-never-ran", json!({"res": format!("{res:?}")}));
    }
    if consumed_braid {
        obs.fail("C04", "collapse-emitted-effects", json!({"heads": nheads}));
    }
    if bl.len() != 1 {
        obs.fail("C04", "action-used-more-than-one-sink-transaction", json!({"blocks": bl.len(), "heads": nheads}));
    }
    let expect_ok = kind == "success";
    match (&res, expect_ok) {
        (Ok(()), true) => {
            // C07 success: one head, descends from every previous head; facts = reference.
            let w = a.walk().unwrap();
            match adopt(&mut model, &w) {
                Err(e) => obs.fail("C07", "graph-after-action-not-explained", json!({"why": e})),
                Ok(newv) => {
                    let all = all_bits(&model);
                    let heads_after = a.heads().unwrap();
                    if heads_after.len() != 1 {
                        obs.fail("C07", "action-left-more-than-one-head", json!({"heads": heads_after.len()}));
                    } else {
                        let hv = model.idx(&heads_after[0].0).unwrap();
                        for (hid, _) in &heads_before {
                            let pv = model.idx(hid).unwrap();
                            if !model.anc_eq(pv, hv) {
                                obs.fail("C07", "new-head-does-not-descend-from-previous-head", json!({"prev": short(hid)}));
                            }
                        }
                    }
                    // command set = old + collapse merges + published
                    let pubs: BTreeSet<Id> = published.iter().map(|p| p.id).collect();
                    for &v in &newv {
                        let n = model.node(v);
                        if !matches!(n.par, Par::Merge(..)) && !pubs.contains(&n.id) {
                            obs.fail("C07", "unexplained-command-after-action", json!({"id": short(&n.id)}));
                        }
                    }
                    if !pubs.iter().all(|p| w.contains_key(p)) || published.len() != act.publish.len() {
                        obs.fail("C07", "published-command-missing-after-successful-action", json!({"published": published.len(), "want": act.publish.len()}));
                    }
                    check_committed(&mut a, &mut model, &all, &json!({"after": "action"}), true, &mut obs);
                    // effects committed in publish order
                    if let Some(b) = bl.first() {
                        let got: Vec<Id> = b.consumed.iter().map(|e| e.id).collect();
                        let want: Vec<Id> = published.iter().map(|p| p.id).collect();
                        if got != want || b.end != BlockEnd::Commit {
                            obs.fail("C07", "effects-of-successful-action-not-committed-in-order", json!({"got": got.len(), "want": want.len(), "end": format!("{:?}", b.end)}));
                        }
                    }
                    // C04: hello head advertised before == merge the collapse wrote.
                    if nheads > 1 {
                        match w.get(&hello_before.0) {
                            Some(c) if c.prio == Prio::Merge && c.max_cut == hello_before.1 => {
                                if a.locate(&hello_before.0, hello_before.1).ok().flatten().is_none() {
                                    obs.fail("C04", "hello-head-not-locatable-after-collapse", json!({"heads": nheads}));
                                }
                                // and it is the parent of the first published command (or the head)
                            }
                            other => obs.fail("C04", "hello-head-is-not-the-collapse-merge", json!({"heads": nheads, "found": format!("{other:?}")})),
                        }
                    }
                    // C01 through delivery: A2 receives A's new commands and must converge.
                    let mut order = newv.clone();
                    order.sort();
                    let steps = vec![Step::Add(order), Step::Commit];
                    let out = run_history(&mut a2, &mut model, &steps, &base_all, &RunCfg { check_every_commit: true, check_blocks: true }, &mut obs);
                    if !out.aborted {
                        let (va, vb) = (final_view(&mut a), final_view(&mut a2));
                        if va != vb {
                            obs.fail("C01", "replica-that-acted-and-replica-that-received-differ", json!({"heads_equal": va.as_ref().map(|v| &v.0) == vb.as_ref().map(|v| &v.0), "facts_equal": va.as_ref().map(|v| &v.1) == vb.as_ref().map(|v| &v.1), "hello_equal": va.as_ref().map(|v| v.2) == vb.as_ref().map(|v| v.2)}));
                        }
                        obs.count("converged_after_action_delivery", 1);
                    }
                    // C19 on the post-action state.
                    c19_pairs(&mut a, &mut model, &all, &mut rng, &mut obs);
                }
            }
        }
        (Err(_), false) => {
            // C07 failure: nothing changed, nothing committed.
            let heads_after = a.heads().unwrap();
            let facts_after = a.facts().unwrap();
            let walk_after: BTreeSet<Id> = a.walk().unwrap().keys().copied().collect();
            if heads_after != heads_before {
                obs.fail("C07", "failed-action-changed-heads", json!({"kind": kind, "before": heads_before.len(), "after": heads_after.len()}));
            }
            if facts_after != facts_before {
                obs.fail("C07", "failed-action-changed-facts", json!({"kind": kind, "diff": facts_diff(&facts_after, &facts_before)}));
            }
            if walk_after != walk_before {
                obs.fail("C07", "failed-action-changed-graph", json!({"kind": kind}));
            }
            if a.hello().ok() != Some(hello_before) {
                obs.fail("C07", "failed-action-changed-hello-head", json!({"kind": kind}));
            }
            match bl.first() {
                Some(b) if b.end == BlockEnd::Commit => obs.fail("C07", "failed-action-committed-effects", json!({"kind": kind})),
                Some(b) if b.end == BlockEnd::Rollback => obs.count("failed_actions_rolled_back", 1),
                _ => obs.count("failed_actions_sink_left_open", 1),
            }
            obs.count("failed_actions_checked", 1);
            // The graph must still work afterwards: a successful action on top.
            let (mut act2, _) = gen_action(&mut rng, cs ^ 0x55, 0x5000_0000);
            act2.fail_after = None;
            for p in &mut act2.publish {
                p.script.ops.retain(|o| !matches!(o, Op::Fail));
            }
            if act2.publish.is_empty() {
                act2.publish.push(PubSpec { prio: None, script: Script { tag: 0x5fff_0000, quiet: false, ops: vec![] } });
            }
            if let Err(e) = a.action(&act2) {
                obs.fail("C07", "action-after-failed-action-fails", json!({"err": e.to_string()}));
            } else if let Ok(w) = a.walk() {
                if adopt(&mut model, &w).is_ok() {
                    let all = all_bits(&model);
                    check_committed(&mut a, &mut model, &all, &json!({"after": "action after failed action"}), true, &mut obs);
                }
            }
        }
        (Ok(()), false) => obs.fail("C07", "action-that-must-fail-succeeded", json!({"kind": kind})),
        (Err(e), true) if act.publish.is_empty() => {
            // An action that publishes nothing has nothing to commit; the runtime refuses to write
            // an empty segment. The statement allows failure as long as nothing changed.
            obs.count("empty_actions_refused", 1);
            let _ = e;
            if a.heads().unwrap() != heads_before || a.facts().unwrap() != facts_before {
                obs.fail("C07", "refused-empty-action-changed-state", json!({"heads": nheads}));
            }
            if bl.first().is_some_and(|b| b.end == BlockEnd::Commit) {
                obs.fail("C07", "refused-empty-action-committed-effects", json!({}));
            }
        }
        (Err(e), true) => obs.fail("C07", "valid-action-failed", json!({"err": e.to_string(), "heads": nheads})),
    }

    let h = mix2(model.dag.shape_hash(), (nheads as u64) << 32 | act.publish.len() as u64 ^ hash_of(&kind));
    for id in ["C04", "C07", "C19", "C01"] {
        if let Some(m) = mons.get(id) {
            m.eval();
            let nt = match id {
                "C04" => nheads >= 2,
                "C07" => nheads >= 2 || (!expect_ok && !published.is_empty()) || act.publish.len() >= 2,
                "C19" => true,
                "C01" => expect_ok && nheads >= 2,
                _ => false,
            };
            if nt {
                m.nontrivial(h);
            }
            m.sample(|| json!({"mode": "lazy", "case_seed": cs, "heads_before": nheads, "action": kind, "publishes": act.publish.len(), "fail_after": act.fail_after, "commands": model.len()}));
        }
    }
    mons.take(obs, case);
}

/// C19: for random down-sets D held by a second replica, hello decisions never suppress a needed sync.
fn c19_pairs(a: &mut MemReplica, model: &mut Model, a_set: &Bits, rng: &mut Rng, obs: &mut Obs) {
    let init = model.node(0).id;
    // A merge command carries no payload and its id is derived from its parents, so a replica
    // holding both parents "has" it (its own virtual hello head is that very command). Only
    // non-merge commands count as commands the peer could be missing.
    let non_merge = |model: &Model, s: &Bits| -> Bits {
        let mut b = Bits::new(model.len());
        for v in s.iter() {
            if !matches!(model.node(v).par, Par::Merge(..)) {
                b.set(v);
            }
        }
        b
    };
    let ha = match a.hello() {
        Ok(h) => h,
        Err(e) => {
            obs.fail("C19", "hello-head-failed", json!({"err": e.to_string()}));
            return;
        }
    };
    // absent graph always syncs
    let mut empty = MemReplica::new_mem(&init);
    match empty.should_sync(ha) {
        Ok(true) => {}
        other => obs.fail("C19", "replica-without-graph-declines-sync", json!({"got": format!("{other:?}")})),
    }
    for _ in 0..3 {
        // random downward-closed subset of A's set (may be all of it)
        let members: Vec<usize> = a_set.iter().collect();
        let mut d = Bits::new(model.len());
        let k = rng.urange(1, members.len().max(1));
        for _ in 0..k {
            let v = *rng.pick(&members);
            d.or(model.ancestors(v));
        }
        d.set(0);
        let mut b = MemReplica::new_mem(&init);
        let dd = d.clone();
        let steps = history(model, &|v| dd.get(v), &HistCfg { order: Order::RandomTopo, max_batch: 50, p_flush: 0, p_commit: 100, p_dup: 0 }, rng);
        let none = Bits::new(model.len());
        let mut o2 = Obs::default();
        let out = run_history(&mut b, model, &steps, &none, &RunCfg { check_every_commit: false, check_blocks: false }, &mut o2);
        if out.aborted || out.parallel_finalize {
            continue;
        }
        obs.count("hello_pairs", 1);
        // B hears A's hello.
        match b.should_sync(ha) {
            Ok(false) => {
                obs.count("hello_declined", 1);
                if !non_merge(model, a_set).is_subset(&d) {
                    obs.fail("C19", "sync-suppressed-although-peer-has-unknown-commands", json!({"peer_commands": a_set.count(), "local_commands": d.count()}));
                }
            }
            Ok(true) => {
                obs.count("hello_accepted", 1);
            }
            Err(e) => obs.fail("C19", "should_sync_on_hello-failed", json!({"err": e.to_string()})),
        }
        // A hears B's hello.
        if let Ok(hb) = b.hello() {
            match a.should_sync(hb) {
                Ok(false) => {
                    obs.count("hello_declined", 1);
                    if !non_merge(model, &d).is_subset(a_set) {
                        obs.fail("C19", "sync-suppressed-although-peer-has-unknown-commands", json!({"direction": "reverse"}));
                    }
                }
                Ok(true) => obs.count("hello_accepted", 1),
                Err(e) => obs.fail("C19", "should_sync_on_hello-failed", json!({"err": e.to_string()})),
            }
            if d == *a_set && hb != ha {
                obs.fail("C19", "equal-head-sets-different-hello-heads", json!({}));
            }
        }
    }
}
