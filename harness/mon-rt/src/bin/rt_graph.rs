//! Graph-runtime monitors over generated command DAGs and delivery histories.
//! Serves C01-C11, C19, C20 (select with --prop).

use std::collections::BTreeMap;

use graphkit::{audit::*, dag::*, driver::*, r#gen::*, model::*, replica::*};
use vcore::*;

mod modes {
    pub mod hist;
    pub mod large;
    pub mod lazy;
    pub mod lookup;
    pub mod misc;
    pub mod reject;
}

pub struct Mons {
    pub m: BTreeMap<&'static str, Monitor>,
}

pub const PROPS: &[(&str, &str)] = &[
    ("C01", "command DAGs (random growth, ladders, nested diamonds, deep-LCA, fans, chains with branches; adversarial ids: ascending/descending/last-byte-only/clustered; 1-5 distinct priorities; finalize chains) x >=4 delivery histories each (creation/random-topological/depth-first/priority/id orders, batch sizes 1..all, flushes, intermediate commits, duplicates) on fresh replicas; heads, full fact dump and hello head compared pairwise and with the reference; plus replicas that converge through actions and syncs. non-trivial = DAG has >=1 merge or >=2 final heads and >=2 histories differ; distinct by DAG shape hash x history hash"),
    ("C02", "same workload; per sink transaction the AuditPolicy event log is checked: in-braid events unique, ancestors first, never a merge command, applied set = reference region; the `seq` list fact holds every non-quiet command once in causal order; large cases overflow the 256-entry braid buffer and the 3x256-entry convergence blocks into a counting spill. non-trivial = braid with >=2 applied commands; distinct by (heads, applied) hash"),
    ("C03", "same workload; after every commit the committed fact dump equals committed_state(frontier) of the storage-independent reference, and every observed braid evaluates commands in exactly the reference order (priority,id ties, lone-strand start). non-trivial = multi-head commit or merge command braid; distinct by DAG shape x head set"),
    ("C04", "multi-head committed states (2..40 heads, nested earlier merges, deep shared ancestry) reached by ingestion; an action dumps the facts it sees, publishes one command; dump == pre-action fact cache, the sink sees only the action's own effect, hello head == address of the merge the collapse wrote. non-trivial = >=2 heads collapsed; distinct by DAG shape x head count"),
    ("C05", "DAGs with freely placed finalize commands; commit/merge must fail with ParallelFinalize iff the reference finds two incomparable finalize commands in the braided set, and then heads/facts/graph are unchanged. non-trivial = DAG with >=2 finalize commands; distinct by shape hash"),
    ("C06", "write-then-fail and failing-require commands injected at every position class (first/middle/last of batch, first after perspective switch, after flush, as parent of later commands, before/after merges); the transaction is then continued and committed. non-trivial = rejecting command with earlier accepted commands in the same transaction; distinct by (shape, position class)"),
    ("C07", "actions publishing 0-5 commands on single- and multi-head graphs, failing after j publishes or by a rejected publish; failure leaves heads/graph/facts unchanged with sink rolled back; success yields one head descending from every previous head. non-trivial = multi-head start or failure after >=1 publish; distinct by (shape, heads, publishes, fail point)"),
    ("C08", "random interleavings of 2-4 open transactions, actions and commits on one client, against a model of (committed set, commit stamp). non-trivial = >=2 transactions overlapping a commit; distinct by interleaving hash"),
    ("C09", "same workload as C01; after every successful commit/action: heads strictly ascending by id, equal to the frontier of the committed set, graph walk from heads equals delivered set. non-trivial = commit with >=2 heads or after duplicates/flush; distinct by shape x history"),
    ("C10", "first-command shapes on an empty provider (correct init, parented, policy-less, foreign id, empty batch) and init-like commands in later batches. non-trivial = each distinct shape x position"),
    ("C11", "committed graphs from the shared workload plus long graphs (segments 1..400 commands, chains to max_cut 3000, merges with deep LCAs): get_location, get_location_from, is_ancestor for all pairs (<=300 nodes) or sampled pairs vs reference ancestry bitsets; wrong-max_cut addresses. non-trivial = graph with a segment carrying a non-trivial skip list; distinct by shape hash"),
    ("C19", "replica pairs (ahead/behind/diverged/equal, multi-head, post-collapse): should_sync_on_hello false implies advertiser's committed set is a subset; equal head sets give equal hello heads; absent graph => true. non-trivial = pair with differing committed sets; distinct by (shape, cut pair)"),
    ("C20", "random address streams (committed, flushed-uncommitted, unknown, ancestors/descendants of entries) into PeerCache::add_command: <=10 entries, all committed, pairwise non-ancestors, update rule vs model. non-trivial = stream with an eviction or ignore; distinct by stream hash"),
];

impl Mons {
    pub fn new(args: &Args) -> Self {
        let mut m = BTreeMap::new();
        for (id, rule) in PROPS {
            if args.wants(id) && !args.props.is_empty() || args.props.is_empty() {
                if args.wants(id) {
                    m.insert(*id, Monitor::new(id, rule).min(20));
                }
            }
        }
        Mons { m }
    }
    pub fn worker(&self) -> Self {
        Mons { m: self.m.iter().map(|(k, v)| (*k, v.worker())).collect() }
    }
    pub fn absorb(&mut self, o: Mons) {
        for (k, v) in o.m {
            if let Some(m) = self.m.get_mut(k) {
                m.absorb(v);
            }
        }
    }
    pub fn has(&self, id: &str) -> bool {
        self.m.contains_key(id)
    }
    pub fn get(&mut self, id: &str) -> Option<&mut Monitor> {
        self.m.get_mut(id)
    }
    /// Route findings and counters of one case into the monitors.
    pub fn take(&mut self, obs: Obs, case: &Value) {
        for f in obs.findings {
            if let Some(m) = self.m.get_mut(f.prop) {
                m.violation(&f.sig, json!({"case": case, "finding": f.detail}));
            } else {
                // The oracle that fired belongs to a property this run does not enforce, but the
                // anomaly was observed in the workload driven for the active properties (e.g. the
                // committed facts after a rejected command, the heads after an action): it refutes
                // the state they rely on, so every active monitor reports it, tagged with its origin.
                let sig = format!("{}:{}", f.prop, f.sig);
                for m in self.m.values_mut() {
                    m.violation(&sig, json!({"case": case, "finding": f.detail}));
                }
            }
        }
        for (k, v) in obs.counts {
            for m in self.m.values_mut() {
                if k.starts_with("max_") {
                    m.max(&k, v);
                } else {
                    m.count(&k, v);
                }
            }
        }
    }
}

pub fn case_seed(seed: u64, mode: u64, i: u64) -> u64 {
    mix2(seed ^ 0x6772_6170_68, (mode << 40) | i)
}

fn main() {
    let args = Args::parse();
    let mut mons = Mons::new(&args);
    if let Some(r) = args.replay_case() {
        let c = &r["case"]["case"];
        let mode = c["mode"].as_str().unwrap_or("hist").to_string();
        let cs = c["case_seed"].as_u64().expect("case_seed");
        run_case(&mode, cs, &args, &mut mons);
        finish_all(&args, mons.m.into_values().collect());
    }
    let want = |ids: &[&str]| ids.iter().any(|i| mons.has(i));
    // (mode, quick cases, thorough cases)
    let mut plan: Vec<(&str, u64, u64)> = vec![];
    if want(&["C01", "C02", "C03", "C09"]) {
        plan.push(("hist", 1000, 20_000));
        plan.push(("large", 7, 63));
    }
    if want(&["C05"]) {
        plan.push(("pf", 1000, 100_000));
    }
    if want(&["C04", "C07", "C19", "C01"]) {
        plan.push(("lazy", 400, 40_000));
    }
    if want(&["C06"]) {
        plan.push(("reject", 1500, 150_000));
    }
    if want(&["C08"]) {
        plan.push(("iso", 1500, 150_000));
    } else if want(&["C09"]) {
        // the frontier invariant also has to survive interleaved transactions, actions and
        // commits on one client (its oracle runs inside the isolation mode)
        plan.push(("iso", 600, 60_000));
    }
    if want(&["C10"]) {
        plan.push(("init", 700, 30_000));
    }
    if want(&["C11"]) {
        plan.push(("lookup", 120, 2_000));
        plan.push(("lookup_long", 6, 60));
    }
    if want(&["C20"]) {
        plan.push(("peer", 1000, 100_000));
    }
    for (mode, q, t) in plan {
        let n = args.n(q, t);
        let threads = cores().min(n as usize).max(1);
        let parts = par_shards(threads, |shard, total| {
            let mut w = mons.worker();
            let mut i = shard as u64;
            while i < n {
                let mut cs = case_seed(args.seed, mode_tag(mode), i);
                if mode == "large" || mode == "lookup_long" {
                    // the low bits select the kind of large case: cover every kind
                    cs = (cs & !7) | (i & 7);
                }
                run_case(mode, cs, &args, &mut w);
                i += total as u64;
            }
            MonsSend(w)
        });
        for p in parts {
            mons.absorb(p.0);
        }
    }
    // Per-property coverage requirements.
    let mut out = vec![];
    for (id, mut m) in mons.m {
        match id {
            "C02" => {
                m = m
                    .require("spill_braid_writes", "the braid result buffer must overflow into spill storage in the large cases")
                    .require("spill_conv_writes", "the convergence map must overflow into spill storage in the large cases");
            }
            "C05" => m = m.require("parallel_finalize_detected", "parallel finalize must actually occur"),
            _ => {}
        }
        out.push(m);
    }
    finish_all(&args, out);
}

struct MonsSend(Mons);
// Monitors hold only plain data; they are created and filled inside one worker thread and
// moved back when it ends.
unsafe impl Send for MonsSend {}

fn mode_tag(mode: &str) -> u64 {
    match mode {
        "hist" => 1,
        "large" => 2,
        "pf" => 3,
        "lazy" => 4,
        "reject" => 5,
        "iso" => 6,
        "init" => 7,
        "lookup" => 8,
        "lookup_long" => 9,
        "peer" => 10,
        _ => 99,
    }
}

pub fn run_case(mode: &str, cs: u64, args: &Args, mons: &mut Mons) {
    let case = json!({"mode": mode, "case_seed": cs});
    if std::env::var("VERIF_TRACE").is_ok() {
        eprintln!("case {mode} {cs}");
    }
    let r = catch(|| match mode {
        "hist" => modes::hist::case(cs, false, args, mons, &case),
        "pf" => modes::hist::case(cs, true, args, mons, &case),
        "large" => modes::large::case(cs, args, mons, &case),
        "lazy" => modes::lazy::case(cs, args, mons, &case),
        "reject" => modes::reject::case(cs, args, mons, &case),
        "iso" => modes::misc::iso_case(cs, args, mons, &case),
        "init" => modes::misc::init_case(cs, args, mons, &case),
        "lookup" => modes::lookup::case(cs, false, args, mons, &case),
        "lookup_long" => modes::lookup::case(cs, true, args, mons, &case),
        "peer" => modes::misc::peer_case(cs, args, mons, &case),
        _ => panic!("unknown mode {mode}"),
    });
    if let Err(p) = r {
        // A panic inside the runtime (debug assertion, overflow, bug!) while processing a valid
        // workload refutes whichever property the mode serves; harness panics carry our own paths.
        let site = p.site();
        let in_repo = site.starts_with("crates/");
        for (_, m) in mons.m.iter_mut() {
            if in_repo {
                m.violation(&format!("runtime-panic:{site}"), json!({"case": case, "panic": p.what}));
            } else {
                m.inconclusive(&format!("harness panic in mode {mode}: {}", p.what));
            }
        }
    }
}

// Re-exports for the mode modules.
pub use graphkit::model::Bits as BitSet;
pub fn all_bits(model: &Model) -> Bits {
    let mut b = Bits::new(model.len());
    for v in 0..model.len() {
        b.set(v);
    }
    b
}

pub fn final_view<M: aranya_runtime::linear::IoManager>(rep: &mut Replica<M>) -> Option<(Vec<(Id, u64)>, Facts, (Id, u64))> {
    Some((rep.heads().ok()?, rep.facts().ok()?, rep.hello().ok()?))
}

#[allow(unused)]
fn _unused(_: ActionScript, _: Step) {}
