//! C22 compiled policy code computes the language semantics
//! C23 untaken operands and branches are never evaluated
//! C24 policies the compiler accepts do not go wrong  (pure-function part; command part in pol_wrong)
//!
//! Differential execution: generated well-typed modules are printed to a policy document,
//! parsed + compiled by the real toolchain (debug mode on), every function is run in the VM
//! on generated argument vectors and compared with polkit's independent reference evaluator.
use crate::first_line;
use polkit::bombs;
use polkit::{
    eval::{self, Outcome},
    r#gen::{self, GenCfg},
    io::{INJECTED_FFI, to_vm},
    ir::*,
    print,
    run::{self, ErrClass},
};
use vcore::*;

use aranya_policy_vm::{ExitReason, Machine, MachineErrorType, Value};

pub const ARGS_PER_FN: usize = 8;

pub fn cfg_for(mode: &str) -> GenCfg {
    match mode {
        // C24 flavour: deliberately reuse names of closed scopes, inject FFI failures
        "reuse" => GenCfg { reuse_names: true, fail_probe: true, ..GenCfg::default() },
        _ => GenCfg::default(),
    }
}

pub struct Mons {
    pub c22: Monitor,
    pub c23: Monitor,
    pub c24: Monitor,
}

pub fn exit_name(e: &Result<ExitReason, aranya_policy_vm::MachineError>) -> String {
    match e {
        Ok(r) => format!("{r:?}"),
        Err(e) => format!("Err:{}", run::err_name(&e.err_type)),
    }
}

/// Compare one (function, argument vector) execution. Returns false on a harness problem.
#[allow(clippy::too_many_arguments)]
pub fn check_case(
    ms: &mut Mons,
    machine: &Machine,
    m: &Module,
    doc: &str,
    mode: &str,
    mseed: u64,
    fi: usize,
    ai: usize,
    args: &[Val],
) {
    let f = &m.funcs[fi];
    // Input class of a confirmed defect (see known_findings.jsonl): modules that use
    // `substruct` onto a field-less struct get their own signature so that the finding neither
    // hides nor is hidden by anything else.
    // (the substruct-to-empty-struct defect is repaired in /repo: no special input class any more)
    let class: Option<&str> = None;
    let replay = || {
        json!({
            "workload": "random", "mode": mode, "module_seed": mseed, "function": f.name, "fidx": fi, "arg_index": ai,
            "args": format!("{args:?}"), "doc": doc,
        })
    };
    let reference = match eval::run_function(m, fi, args) {
        Ok(r) => r,
        Err(e) => {
            ms.c22.count("harness_reference_errors", 1);
            ms.c22.seen("harness_reference_error_kinds", &format!("{e:?}").chars().take(60).collect::<String>());
            return;
        }
    };
    let Some(vm) = run::run_function(machine, m, &f.name, args, true) else {
        ms.c22.count("vm_step_budget_exhausted", 1);
        return;
    };
    for k in &vm.kinds {
        ms.c24.seen("instruction_kinds", k);
        ms.c22.seen("instruction_kinds", k);
    }
    for (o, t) in &reference.ops {
        ms.c22.seen("op_x_type", &format!("{o}:{t}"));
        ms.c24.seen("op_x_type", &format!("{o}:{t}"));
    }
    ms.c22.count("boundary_operands", reference.boundary_operands);
    ms.c24.count("boundary_operands", reference.boundary_operands);
    ms.c22.max("max_ref_steps", reference.steps);

    // ---------------- C24: how did execution end? ----------------
    ms.c24.eval();
    match &vm.exit {
        Ok(r) => {
            ms.c24.count(&format!("end_{r:?}"), 1);
            if vm.steps >= 8 {
                ms.c24.nontrivial(mix2(hash_of(&f.body), hash_of(&args)));
            }
        }
        Err(e) => match run::classify(&e.err_type) {
            ErrClass::IoOrFfi => ms.c24.count("end_io_or_ffi_error", 1),
            ErrClass::StackExhaustion => ms.c24.count("end_stack_exhaustion", 1),
            ErrClass::Harness => ms.c24.count("harness_errors", 1),
            ErrClass::WentWrong => {
                let at = vm.last_kind;
                let sig = match class {
                    Some(c) => format!("c24:{c}"),
                    None => format!("c24:pure-{mode}:{}@{at}", run::err_name(&e.err_type)),
                };
                crate::violation_capped(&mut ms.c24, 
                    &sig,
                    json!({"case": replay(), "error": e.to_string()}),
                );
            }
        },
    }

    if matches!(&vm.exit, Err(e) if matches!(e.err_type, MachineErrorType::StackOverflow)) {
        // The 100-slot value stack is a resource limit the reference does not model.
        ms.c22.count("vm_stack_exhaustion_skipped", 1);
        return;
    }

    // ---------------- C22: outcome ----------------
    ms.c22.eval();
    if reference.steps >= 5 {
        ms.c22.nontrivial(mix2(hash_of(&f.body), hash_of(&args)));
    }
    let observed = exit_name(&vm.exit);
    let mut c22_ok = true;
    match &reference.outcome {
        Outcome::Value(v) => {
            ms.c22.count("ref_value", 1);
            let want = to_vm(m, v);
            let ok_exit = matches!(vm.exit, Ok(ExitReason::Normal));
            if !ok_exit {
                c22_ok = false;
                crate::violation_capped(&mut ms.c22, 
                    &class.map(|c| format!("c22:{c}")).unwrap_or(format!("c22:expected-value-observed-{observed}")),
                    json!({"case": replay(), "expected": format!("{v:?}"), "observed_exit": format!("{:?}", vm.exit), "stack": format!("{:?}", vm.stack)}),
                );
            } else if vm.stack.len() != 2 || vm.stack[0] != Value::Int(run::SENTINEL) {
                c22_ok = false;
                crate::violation_capped(&mut ms.c22, 
                    &class.map(|c| format!("c22:{c}")).unwrap_or("c22:stack-shape-after-return".into()),
                    json!({"case": replay(), "expected": format!("{v:?}"), "stack": format!("{:?}", vm.stack)}),
                );
            } else if vm.stack[1] != want {
                c22_ok = false;
                crate::violation_capped(&mut ms.c22, 
                    &class.map(|c| format!("c22:{c}")).unwrap_or("c22:wrong-value".into()),
                    json!({"case": replay(), "expected": format!("{want:?}"), "observed": format!("{:?}", vm.stack[1])}),
                );
            }
        }
        Outcome::Panic => {
            ms.c22.count("ref_panic", 1);
            if !matches!(vm.exit, Ok(ExitReason::Panic)) {
                c22_ok = false;
                crate::violation_capped(&mut ms.c22, 
                    &class.map(|c| format!("c22:{c}")).unwrap_or(format!("c22:expected-panic-observed-{observed}")),
                    json!({"case": replay(), "observed_exit": format!("{:?}", vm.exit), "stack": format!("{:?}", vm.stack)}),
                );
            }
        }
        Outcome::FfiFail => {
            ms.c22.count("ref_ffi_fail", 1);
            let ok = matches!(&vm.exit, Err(e) if matches!(&e.err_type, MachineErrorType::Unknown(s) if s.contains(INJECTED_FFI)));
            if !ok {
                c22_ok = false;
                crate::violation_capped(&mut ms.c22, 
                    &class.map(|c| format!("c22:{c}")).unwrap_or(format!("c22:expected-ffi-error-observed-{observed}")),
                    json!({"case": replay(), "observed_exit": format!("{:?}", vm.exit)}),
                );
            }
        }
        Outcome::CheckFail => unreachable!("pure functions cannot end in a check failure"),
    }

    // ---------------- C23: foreign-call trace ----------------
    ms.c23.eval();
    let want: Vec<(usize, usize, Vec<Value>)> = reference
        .trace
        .iter()
        .map(|(mo, p, a)| (*mo, *p, a.iter().map(|x| to_vm(m, x)).collect()))
        .collect();
    let got = vm.io.calls();
    if !want.is_empty() {
        ms.c23.count("random_cases_with_foreign_calls", 1);
        ms.c23.nontrivial(mix2(hash_of(&f.body), hash_of(&args)));
    }
    if want != got {
        crate::violation_capped(&mut ms.c23, 
            &match class {
                Some(c) => format!("c23:{c}"),
                None if c22_ok => "c23:random:trace-differs-result-same".to_string(),
                None => "c23:random:trace-differs-result-differs".to_string(),
            },
            json!({"case": replay(), "expected_trace": format!("{want:?}"), "observed_trace": format!("{got:?}")}),
        );
    }
}

pub fn run_module(ms: &mut Mons, mode: &str, mseed: u64, only: Option<(usize, usize)>) -> usize {
    let cfg = cfg_for(mode);
    let mut mr = Rng::new(mseed);
    let m = r#gen::gen_module(&mut mr, &cfg);
    let doc = print::document(&m);
    for mon in [&mut ms.c22, &mut ms.c23, &mut ms.c24] {
        mon.count("modules_generated", 1);
    }
    let machine = match run::compile_doc(&doc) {
        Ok(mc) => mc,
        Err(r) => {
            let (k, msg) = match &r {
                run::Rejected::Parse(s) => ("modules_rejected_parse", s),
                run::Rejected::Compile(s) => ("modules_rejected_compile", s),
                run::Rejected::Load(s) => ("modules_rejected_load", s),
            };
            for mon in [&mut ms.c22, &mut ms.c23, &mut ms.c24] {
                mon.count(k, 1);
                mon.seen("rejection_reasons", &first_line(msg));
            }
            if std::env::var("POLSEM_DUMP_REJECTS").is_ok() {
                eprintln!("--- REJECTED ({k}) seed {mseed}\n{msg}\n{doc}");
            }
            return 0;
        }
    };
    for mon in [&mut ms.c22, &mut ms.c23, &mut ms.c24] {
        mon.count("modules_accepted", 1);
    }
    let mut nf = 0;
    for fi in 0..m.funcs.len() {
        if let Some((of, _)) = only && of != fi {
            continue;
        }
        nf += 1;
        let mut ar = Rng::new(mix2(mseed, 0xA765 + fi as u64));
        let argv = r#gen::gen_args(&mut ar, &m, &m.funcs[fi], ARGS_PER_FN);
        for (ai, a) in argv.iter().enumerate() {
            if let Some((_, oa)) = only && oa != ai {
                continue;
            }
            check_case(ms, &machine, &m, &doc, mode, mseed, fi, ai, a);
        }
        if fi == 0 && ms.c22.samples.len() < 2 {
            let src = print::source(&m);
            ms.c22.sample(|| json!({"module_seed": mseed, "source_excerpt": src.chars().take(1200).collect::<String>()}));
        }
    }
    nf
}

// ---------------------------------------------------------------------------------------------
// C23 bombs
// ---------------------------------------------------------------------------------------------

pub fn run_bomb(ms: &mut Mons, bseed: u64) {
    let mut r = Rng::new(bseed);
    let b = bombs::gen_bomb(&mut r);
    let doc = print::document(&b.module);
    let m23 = &mut ms.c23;
    m23.count("bombs_generated", 1);
    let machine = match run::compile_doc(&doc) {
        Ok(mc) => mc,
        Err(r) => {
            m23.count("bombs_rejected", 1);
            m23.seen("rejection_reasons", &first_line(&format!("{r:?}")));
            if std::env::var("POLSEM_DUMP_REJECTS").is_ok() {
                eprintln!("--- BOMB REJECTED seed {bseed}\n{r:?}\n{doc}");
            }
            return;
        }
    };
    m23.count("bombs_accepted", 1);
    let replay = || json!({"workload": "bomb", "bomb_seed": bseed, "doc": doc, "args": format!("{:?}", b.args)});
    // by-construction expectation must agree with the reference evaluator (checks the harness)
    match eval::run_function(&b.module, 0, &b.args) {
        Ok(rr) => {
            let t: Vec<(usize, i64)> = rr
                .trace
                .iter()
                .map(|(_, p, a)| (*p, if let Val::Int(i) = a[0] { i } else { -1 }))
                .collect();
            if rr.outcome != Outcome::Value(Val::Int(b.expected)) || t != b.taken {
                m23.count("harness_bomb_reference_disagrees", 1);
                if std::env::var("POLSEM_DUMP_REJECTS").is_ok() {
                    eprintln!("--- BOMB REF DISAGREES seed {bseed}: {:?} vs {} ; {t:?} vs {:?}\n{doc}", rr.outcome, b.expected, b.taken);
                }
                return;
            }
        }
        Err(e) => {
            m23.count("harness_bomb_reference_errors", 1);
            m23.seen("harness_reference_error_kinds", &format!("{e:?}"));
            return;
        }
    }
    let Some(vm) = run::run_function(&machine, &b.module, "fn0", &b.args, false) else {
        m23.count("vm_step_budget_exhausted", 1);
        return;
    };
    if matches!(&vm.exit, Err(e) if matches!(e.err_type, MachineErrorType::StackOverflow)) {
        m23.count("vm_stack_exhaustion_skipped", 1);
        return;
    }
    m23.eval();
    m23.nontrivial(hash_of(&b.module.funcs[0].body));
    for s in &b.shapes {
        m23.seen("bomb_positions", s);
    }
    m23.count("untaken_positions_planted", b.bomb_shape.len() as u64);
    m23.count("taken_probes_planted", b.taken.len() as u64);
    let got: Vec<(usize, i64)> = vm
        .io
        .calls()
        .iter()
        .map(|(_, p, a)| (*p, if let Value::Int(i) = a[0] { i } else { -1 }))
        .collect();
    // (1) no bomb probe fired
    for (_, id) in &got {
        if let Some(shape) = b.bomb_shape.get(id) {
            crate::violation_capped(m23, 
                &format!("c23:untaken-evaluated:{shape}"),
                json!({"case": replay(), "bomb_id": id, "observed_trace": format!("{got:?}"), "expected_trace": format!("{:?}", b.taken)}),
            );
            return;
        }
    }
    // (2) the result is unaffected
    let ok_val = matches!(vm.exit, Ok(ExitReason::Normal))
        && vm.stack.len() == 2
        && vm.stack[1] == Value::Int(b.expected);
    if !ok_val {
        crate::violation_capped(m23, 
            &format!("c23:result-affected:{}", exit_name(&vm.exit)),
            json!({"case": replay(), "expected": b.expected, "observed_exit": format!("{:?}", vm.exit), "stack": format!("{:?}", vm.stack), "observed_trace": format!("{got:?}"), "expected_trace": format!("{:?}", b.taken)}),
        );
        return;
    }
    // (3) taken operands evaluated exactly once, in order
    if got != b.taken {
        crate::violation_capped(m23, 
            "c23:taken-not-exactly-once-in-order",
            json!({"case": replay(), "observed_trace": format!("{got:?}"), "expected_trace": format!("{:?}", b.taken)}),
        );
    }
    if ms.c23.samples.len() < 2 {
        let src = print::source(&b.module);
        ms.c23.sample(|| json!({"bomb_seed": bseed, "expected": b.expected, "taken": format!("{:?}", b.taken), "source": src.chars().take(1500).collect::<String>()}));
    }
}

pub fn new_mons() -> Mons {
    let mut ms = new_mons_inner();
    for m in [&mut ms.c22, &mut ms.c23, &mut ms.c24] {
        m.max_violations = 64;
    }
    ms
}

fn new_mons_inner() -> Mons {
    Mons {
        c22: Monitor::new(
            "C22",
            "random well-typed modules (enums, struct families, globals, 3-8 pure functions calling earlier ones; depth<=6, <=40 nodes; every second module reuses names of closed scopes and may call an always-failing foreign function) printed to a policy document, accepted by the real parser+compiler (debug on); each function x 8 argument vectors (i64 boundary sweep, empty/long strings, all enum variants, nested optionals/results) run in the VM and in the reference evaluator. non-trivial = reference needed >= 5 evaluation steps; distinct by hash(function body, arguments)",
        )
        .min(2000)
        .require("ref_value", "the value branch of the oracle must be exercised")
        .require("ref_panic", "the panic branch of the oracle must be exercised")
        .require("boundary_operands", "i64 boundary operands must reach arithmetic/comparison operators"),
        c23: Monitor::new(
            "C23",
            "bomb programs: by-construction known control flow with todo()/failing check/probe::hit/probe::fail/return planted in every untaken position (rhs of &&, ||, or; untaken if/else-if/else arms and conditions; non-matching match arms; check else) and numbered probes in taken positions; plus the foreign-call trace of every C22 random case. non-trivial = accepted bomb program (distinct by body hash) or random case with >=1 foreign call",
        )
        .min(500)
        .require("bombs_accepted", "bomb programs must compile")
        .require("untaken_positions_planted", "bombs must be planted")
        .require("taken_probes_planted", "taken probes must be planted"),
        c24: Monitor::new(
            "C24",
            "every VM execution of accepted generated code (C22 random modules, a name-reusing variant with injected FFI failures) classified by how it ended; non-trivial = >= 8 VM steps, distinct by hash(function body, arguments)",
        )
        .min(2000)
        .require("end_Normal", "normal ends must be observed")
        .require("end_Panic", "panic ends must be observed"),
    }
}

pub fn absorb(into: &mut Mons, o: Mons) {
    crate::merge(&mut into.c22, o.c22);
    crate::merge(&mut into.c23, o.c23);
    crate::merge(&mut into.c24, o.c24);
}

