//! Single-stepped execution of command policies and actions with an ONLINE observer of the
//! instruction stream (what C30 needs) and the end classification C24 needs.
use aranya_policy_vm::{
    ExitReason, FactKey, FactValue, HashableValue, Instruction, Label, LabelType, Machine,
    MachineError, MachineStatus, Meta, Stack as _, Struct, Value,
};
use polkit::{
    io::{Inject, IoEvent, MonitorIO, action_ctx, ident_of, policy_ctx, to_vm},
    ir::{Module, Val},
    run::{STEP_BUDGET, kind_of},
};

/// What the online checker saw while the command ran.
#[derive(Default, Debug)]
pub struct Observed {
    /// a `Meta::Finish(true)` marker was executed
    pub finish_entered: bool,
    /// a `Recall` instruction was executed
    pub recalled: bool,
    /// Create/Update/Delete/Emit executed while NOT in a finish context: (kind, pc)
    pub outside_finish: Vec<(&'static str, usize)>,
    /// for every executed Emit: was a Recall executed before it?
    pub emit_after_recall: Vec<bool>,
    /// counts of finish-only instructions executed
    pub creates: u64,
    pub updates: u64,
    pub deletes: u64,
    pub emits: u64,
    pub publishes: u64,
}

pub struct CmdRun {
    /// None = step budget exhausted
    pub exit: Option<Result<ExitReason, MachineError>>,
    pub io: MonitorIO,
    pub steps: u64,
    pub kinds: Vec<&'static str>,
    pub last_kind: &'static str,
    pub obs: Observed,
}

pub type Store = Vec<(usize, Vec<Val>, Vec<Val>)>;

pub fn load_store(io: &mut MonitorIO, m: &Module, store: &Store) {
    for (fi, ks, vs) in store {
        let f = &m.facts[*fi];
        let keys: Vec<FactKey> = f
            .keys
            .iter()
            .zip(ks)
            .map(|((n, _), v)| FactKey::new(ident_of(n), HashableValue::try_from(to_vm(m, v)).expect("hashable key")))
            .collect();
        let vals: Vec<FactValue> =
            f.vals.iter().zip(vs).map(|((n, _), v)| FactValue::new(ident_of(n), to_vm(m, v))).collect();
        io.facts.insert((ident_of(&f.name), keys), vals);
    }
}

fn observe(obs: &mut Observed, i: &Instruction, pc: usize) {
    match i {
        Instruction::Meta(Meta::Finish(true)) => obs.finish_entered = true,
        Instruction::Meta(Meta::Finish(false)) => obs.finish_entered = false,
        Instruction::Recall(_) => {
            obs.recalled = true;
            // a recall block has its own finish block; the policy's finish context (if any) ended
            obs.finish_entered = false;
        }
        Instruction::Create | Instruction::Update | Instruction::Delete | Instruction::Emit => {
            let k = kind_of(i);
            if !obs.finish_entered {
                obs.outside_finish.push((k, pc));
            }
            match i {
                Instruction::Create => obs.creates += 1,
                Instruction::Update => obs.updates += 1,
                Instruction::Delete => obs.deletes += 1,
                _ => {
                    obs.emits += 1;
                    obs.emit_after_recall.push(obs.recalled);
                }
            }
        }
        _ => {}
    }
}

fn drive<M: aranya_policy_vm::MachineIO<aranya_policy_vm::MachineStack>>(
    machine: &Machine,
    rs: &mut aranya_policy_vm::RunState<'_, M>,
    obs: &mut Observed,
    kinds: &mut Vec<&'static str>,
    last: &mut &'static str,
    steps: &mut u64,
) -> Option<Result<ExitReason, MachineError>> {
    loop {
        if *steps >= STEP_BUDGET {
            return None;
        }
        *steps += 1;
        if let Some(i) = machine.progmem.get(rs.pc()) {
            let k = kind_of(i);
            *last = k;
            if !kinds.contains(&k) {
                kinds.push(k);
            }
            observe(obs, i, rs.pc());
        }
        match rs.step() {
            Ok(MachineStatus::Executing) => {}
            Ok(MachineStatus::Exited(ExitReason::Yield)) => {
                // an action published a command: take it off the stack and resume
                obs.publishes += 1;
                if let Err(e) = rs.stack.pop_value() {
                    return Some(Err(MachineError::new(e)));
                }
            }
            Ok(MachineStatus::Exited(r)) => return Some(Ok(r)),
            Err(e) => return Some(Err(e)),
        }
    }
}

/// Run the policy block of command `ci` on `this` (field values in definition order).
pub fn run_command(machine: &Machine, m: &Module, ci: usize, this: &[Val], store: &Store, inject: Inject) -> CmdRun {
    let c = &m.commands[ci];
    let mut io = MonitorIO::new();
    load_store(&mut io, m, store);
    io.inject = inject;
    let mut obs = Observed::default();
    let mut kinds = vec![];
    let mut last = "?";
    let mut steps = 0;
    let exit = {
        let mut rs = machine.create_run_state(&mut io, policy_ctx(&c.name));
        let this_struct = Struct {
            name: ident_of(&c.name),
            fields: c.fields.iter().zip(this).map(|((n, _), v)| (ident_of(n), to_vm(m, v))).collect(),
        };
        match rs.setup_command(Label::new(ident_of(&c.name), LabelType::CommandPolicy), this_struct) {
            Err(e) => Some(Err(e)),
            Ok(()) => {
                let env = Struct { name: ident_of("Envelope"), fields: Default::default() };
                rs.stack.push(Value::Struct(env)).expect("push envelope");
                drive(machine, &mut rs, &mut obs, &mut kinds, &mut last, &mut steps)
            }
        }
    };
    CmdRun { exit, io, steps, kinds, last_kind: last, obs }
}

pub fn run_action(machine: &Machine, m: &Module, ai: usize, args: &[Val], store: &Store, inject: Inject) -> CmdRun {
    let a = &m.actions[ai];
    let mut io = MonitorIO::new();
    load_store(&mut io, m, store);
    io.inject = inject;
    let mut obs = Observed::default();
    let mut kinds = vec![];
    let mut last = "?";
    let mut steps = 0;
    let exit = {
        let mut rs = machine.create_run_state(&mut io, action_ctx(&a.name));
        match rs.setup_action(ident_of(&a.name), args.iter().map(|v| to_vm(m, v))) {
            Err(e) => Some(Err(e)),
            Ok(()) => drive(machine, &mut rs, &mut obs, &mut kinds, &mut last, &mut steps),
        }
    };
    CmdRun { exit, io, steps, kinds, last_kind: last, obs }
}

/// Recalled flags of the effects MonitorIO received, in order.
pub fn effect_flags(io: &MonitorIO) -> Vec<bool> {
    io.log
        .borrow()
        .iter()
        .filter_map(|e| match e {
            IoEvent::Effect { recalled, .. } => Some(*recalled),
            _ => None,
        })
        .collect()
}
