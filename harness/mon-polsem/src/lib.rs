//! Shared helpers of the policy-semantics monitors.
pub use polkit::bombs;

pub fn first_line(s: &str) -> String {
    let l = s.lines().find(|l| !l.trim().is_empty()).unwrap_or("");
    // strip volatile numbers so that the coverage set stays small
    let l: String = l.chars().map(|c| if c.is_ascii_digit() { '#' } else { c }).collect();
    l.chars().take(110).collect()
}
