//! Shared helpers of the policy-semantics monitors.


pub fn first_line(s: &str) -> String {
    let l = s.lines().find(|l| !l.trim().is_empty()).unwrap_or("");
    // strip volatile numbers so that the coverage set stays small
    let l: String = l.chars().map(|c| if c.is_ascii_digit() { '#' } else { c }).collect();
    l.chars().take(110).collect()
}

pub mod pure;
pub mod cmdrun;

/// Signature-aware merge of a worker monitor: at most two witnesses per signature so that a
/// frequent (possibly known) signature cannot crowd out a new one.
pub fn merge(into: &mut vcore::Monitor, mut o: vcore::Monitor) {
    let vs = std::mem::take(&mut o.violations);
    into.absorb(o);
    for v in vs {
        if into.violations.len() < into.max_violations
            && into.violations.iter().filter(|x| x.signature == v.signature).count() < 2
        {
            into.violations.push(v);
        }
    }
}

/// Record a violation keeping at most two witnesses per signature in this monitor.
pub fn violation_capped(m: &mut vcore::Monitor, sig: &str, detail: vcore::Value) {
    m.seen("violation_signatures", sig);
    if m.violations.iter().filter(|v| v.signature == sig).count() >= 2 {
        m.count("violations_raw", 1);
        return;
    }
    m.violation(sig, detail);
}
