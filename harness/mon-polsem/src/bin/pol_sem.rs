//! C22 compiled policy code computes the language semantics
//! C23 untaken operands and branches are never evaluated
//! (also feeds C24 with the pure-function executions; C24's own binary is pol_wrong)
use mon_polsem::pure::*;
use vcore::*;

fn main() {
    let args = Args::parse();
    let mut ms = new_mons();

    if let Some(r) = args.replay_case() {
        let c = if r["case"]["case"].is_object() { &r["case"]["case"] } else { &r["case"] };
        match c["workload"].as_str() {
            Some("random") => {
                let mseed = c["module_seed"].as_u64().expect("module_seed");
                let mode = c["mode"].as_str().unwrap_or("plain").to_string();
                let fi = c["fidx"].as_u64().unwrap() as usize;
                let ai = c["arg_index"].as_u64().unwrap() as usize;
                run_module(&mut ms, &mode, mseed, Some((fi, ai)));
            }
            Some("bomb") => run_bomb(&mut ms, c["bomb_seed"].as_u64().expect("bomb_seed")),
            _ => panic!("unknown replay workload"),
        }
        finish_all(&args, vec![ms.c22, ms.c23, ms.c24]);
    }

    let want22 = args.props.is_empty() || args.wants("C22");
    let want23 = args.props.is_empty() || args.wants("C23");
    let want24 = args.props.is_empty() || args.wants("C24");
    let threads = cores();

    // Random workload: primary for C22; a smaller slice also feeds C23 / C24 when they run alone.
    let n_funcs = if want22 { args.n(24_000, 400_000) } else { args.n(4000, 60_000) };
    let n_bombs = if want23 { args.n(40_000, 800_000) } else { 0 };
    let seed = args.seed;
    let time_cap = args.get_u64("time_cap_s", if args.tier == Tier::Quick { 240 } else { 3000 });
    let start = std::time::Instant::now();

    let parts = par_shards(threads, |shard, nshards| {
        let mut ms = new_mons();
        // every second module deliberately reuses names of closed scopes (and may call the
        // failing probe): scope-leak defects only show when a name is defined twice
        {
            let my = (n_funcs as usize).div_ceil(nshards);
            let mut done = 0usize;
            let mut i = 0u64;
            while done < my && i < (my as u64) * 4 + 16 {
                if start.elapsed().as_secs() > time_cap {
                    ms.c22.count("time_cap_hit", 1);
                    break;
                }
                let mseed = mix2(mix2(seed, 22), mix2(shard as u64, i));
                done += run_module(&mut ms, if i % 2 == 0 { "plain" } else { "reuse" }, mseed, None);
                i += 1;
            }
        }
        let my = (n_bombs as usize).div_ceil(nshards);
        for i in 0..my as u64 {
            if start.elapsed().as_secs() > time_cap {
                ms.c23.count("time_cap_hit", 1);
                break;
            }
            run_bomb(&mut ms, mix2(mix2(seed, 23), mix2(shard as u64, i)));
        }
        ms
    });
    for p in parts {
        absorb(&mut ms, p);
    }

    // acceptance rate; a collapse is INCONCLUSIVE, never a violation
    for mon in [&mut ms.c22, &mut ms.c23, &mut ms.c24] {
        let g = mon.counters.get("modules_generated").copied().unwrap_or(0);
        let a = mon.counters.get("modules_accepted").copied().unwrap_or(0);
        if g > 0 {
            mon.counters.insert("acceptance_permille".into(), a * 1000 / g);
            if a * 2 < g {
                mon.inconclusive(&format!("generator acceptance collapsed: {a}/{g} modules accepted"));
            }
        }
        let h = mon.counters.get("harness_reference_errors").copied().unwrap_or(0);
        if h * 50 > mon.evaluations.max(1) {
            mon.inconclusive(&format!("reference evaluator failed on {h} cases (> 2 %)"));
        }
    }
    {
        let g = ms.c23.counters.get("bombs_generated").copied().unwrap_or(0);
        let a = ms.c23.counters.get("bombs_accepted").copied().unwrap_or(0);
        if g > 0 && a * 2 < g {
            ms.c23.inconclusive(&format!("bomb acceptance collapsed: {a}/{g}"));
        }
        let d = ms.c23.counters.get("harness_bomb_reference_disagrees").copied().unwrap_or(0)
            + ms.c23.counters.get("harness_bomb_reference_errors").copied().unwrap_or(0);
        if d > 0 {
            ms.c23.inconclusive(&format!("{d} bomb programs where by-construction expectation and reference evaluator disagree (harness defect)"));
        }
    }
    let _ = (want22, want23, want24);
    finish_all(&args, vec![ms.c22, ms.c23, ms.c24]);
}
