//! C30 facts and effects change only inside finish blocks.
//!
//! Generated command policies are compiled by the real toolchain and executed by
//! single-stepping `RunState`; an online checker watches the executed instruction stream
//! (`Meta::Finish(true)` opens a finish context, `Recall` switches to the recall block) and
//! `MonitorIO` records every fact operation and effect with its `recalled` flag.
use mon_polsem::{cmdrun::*, first_line};
use polkit::{
    cmdgen::{self, CmdCfg},
    io::Inject,
    ir::*,
    print, run,
};
use vcore::*;

use aranya_policy_vm::ExitReason;

const INPUTS_PER_CMD: u64 = 6;

fn inputs(rng: &mut Rng, m: &Module, ci: usize) -> (Vec<Val>, Store) {
    let this: Vec<Val> = m.commands[ci].fields.iter().map(|(_, t)| cmdgen::small_val(rng, m, t)).collect();
    let store = cmdgen::gen_store(rng, m);
    (this, store)
}

fn check_run(mon: &mut Monitor, r: &CmdRun, what: &str, replay: &dyn Fn() -> Value, policy_hash: u64) {
    let Some(exit) = &r.exit else {
        mon.count("vm_step_budget_exhausted", 1);
        return;
    };
    mon.eval();
    for k in &r.kinds {
        mon.seen("instruction_kinds", k);
    }
    let fact_ops = r.io.fact_ops();
    let flags = effect_flags(&r.io);
    mon.count("fact_ops_seen", fact_ops as u64);
    mon.count("effects_seen", flags.len() as u64);
    mon.count("effects_recalled_true", flags.iter().filter(|f| **f).count() as u64);
    mon.count("effects_recalled_false", flags.iter().filter(|f| !**f).count() as u64);
    if r.obs.finish_entered {
        mon.count("finish_entered", 1);
    }
    if r.obs.recalled {
        mon.count("recall_executed", 1);
    }
    match exit {
        Ok(e) => mon.count(&format!("exit_{e:?}"), 1),
        Err(e) => {
            mon.count("exit_machine_error", 1);
            mon.seen("machine_errors", run::err_name(&e.err_type));
        }
    }
    if fact_ops > 0 || !flags.is_empty() || matches!(exit, Ok(ExitReason::Panic | ExitReason::Check)) {
        mon.nontrivial(policy_hash);
    }

    // (1) finish-only instructions execute only inside a finish context
    if let Some((k, pc)) = r.obs.outside_finish.first() {
        mon_polsem::violation_capped(mon, 
            &format!("c30:{what}:{k}-outside-finish"),
            json!({"case": replay(), "instruction": k, "pc": pc, "exit": format!("{exit:?}")}),
        );
    }
    // (2) panic, or check without recall => no fact operations, no effects
    let silent_required = match exit {
        Ok(ExitReason::Panic) => Some("panic"),
        Ok(ExitReason::Check) if !r.obs.recalled => Some("check-without-recall"),
        _ => None,
    };
    if let Some(why) = silent_required
        && (fact_ops > 0 || !flags.is_empty())
    {
        mon_polsem::violation_capped(mon, 
            &format!("c30:{what}:{why}-with-side-effects"),
            json!({"case": replay(), "fact_ops": fact_ops, "effects": format!("{:?}", r.io.effects())}),
        );
    }
    // (3) effects emitted while handling a recall are marked recalled, all others are not
    if flags != r.obs.emit_after_recall {
        // an Emit that failed validation delivers no effect: compare only when counts agree,
        // otherwise compare the delivered prefix
        let n = flags.len().min(r.obs.emit_after_recall.len());
        if flags.len() > r.obs.emit_after_recall.len() || flags[..n] != r.obs.emit_after_recall[..n] {
            mon_polsem::violation_capped(mon, 
                &format!("c30:{what}:effect-recalled-flag-wrong"),
                json!({"case": replay(), "flags_seen": format!("{flags:?}"), "emit_after_recall": format!("{:?}", r.obs.emit_after_recall)}),
            );
        }
    }
}

fn run_generated(mon: &mut Monitor, mseed: u64, only: Option<(usize, u64)>) {
    let mut mr = Rng::new(mseed);
    let ccfg = CmdCfg { reuse_names: mseed & 1 == 1 };
    let m = cmdgen::gen_command_module(&mut mr, &ccfg);
    let doc = print::document(&m);
    mon.count("modules_generated", 1);
    let machine = match run::compile_doc(&doc) {
        Ok(mc) => mc,
        Err(r) => {
            mon.count("modules_rejected", 1);
            mon.seen("rejection_reasons", &first_line(&format!("{r:?}")));
            if std::env::var("POLSEM_DUMP_REJECTS").is_ok() {
                eprintln!("--- REJECTED seed {mseed}\n{r:?}\n{doc}");
            }
            return;
        }
    };
    mon.count("modules_accepted", 1);
    for ci in 0..m.commands.len() {
        if let Some((oc, _)) = only && oc != ci {
            continue;
        }
        let ph = hash_of(&m.commands[ci]);
        for k in 0..INPUTS_PER_CMD {
            if let Some((_, ok)) = only && ok != k {
                continue;
            }
            let mut ir = Rng::new(mix2(mseed, 0xC0DE + (ci as u64) * 64 + k));
            let (this, store) = inputs(&mut ir, &m, ci);
            let inject = if k == INPUTS_PER_CMD - 1 { Inject { fail_write_at: Some(ir.usize(3)), fail_query_at: None } } else { Inject::default() };
            let r = run_command(&machine, &m, ci, &this, &store, inject);
            let replay = || {
                json!({"workload": "generated", "module_seed": mseed, "command": ci, "input": k,
                       "this": format!("{this:?}"), "store": format!("{store:?}"), "doc": doc})
            };
            check_run(mon, &r, "generated", &replay, mix2(ph, mix2(hash_of(&this), hash_of(&store))));
        }
        if mon.samples.len() < 2 {
            let src = print::source(&m);
            mon.sample(|| json!({"module_seed": mseed, "source_excerpt": src.chars().take(1800).collect::<String>()}));
        }
    }
}

/// Near-miss programs: finish-only statements outside finish must be rejected by the compiler.
/// Reported as counters (mechanism monitor); if one is accepted it is also executed so the
/// property's own checker decides.
fn run_near_misses(mon: &mut Monitor, seed: u64) {
    let mut r = Rng::new(mix2(seed, 0x3155));
    for (label, m) in cmdgen::near_misses(&mut r) {
        let doc = print::document(&m);
        mon.count("near_miss_programs", 1);
        match run::compile_doc(&doc) {
            Err(run::Rejected::Compile(_)) => mon.count("near_miss_rejected_by_compiler", 1),
            Err(e) => {
                // a parse error would mean the near miss is malformed (harness defect)
                mon.count("near_miss_malformed", 1);
                mon.seen("near_miss_malformed_reasons", &first_line(&format!("{label}: {e:?}")));
            }
            Ok(machine) => {
                mon.count("near_miss_accepted_by_compiler", 1);
                mon.seen("near_miss_accepted", label);
                for (this, store) in [(vec![Val::Int(1)], vec![]), (vec![Val::Int(0)], vec![(0usize, vec![Val::Int(1)], vec![Val::Int(2)])])] {
                    let r = run_command(&machine, &m, 0, &this, &store, Inject::default());
                    let replay = || json!({"workload": "near-miss", "label": label, "this": format!("{this:?}"), "doc": doc});
                    check_run(mon, &r, &format!("near-miss-{label}"), &replay, hash_of(&label));
                }
                for ai in 0..m.actions.len() {
                    let r = run_action(&machine, &m, ai, &[], &vec![], Inject::default());
                    let replay = || json!({"workload": "near-miss", "label": label, "action": ai, "doc": doc});
                    check_run(mon, &r, &format!("near-miss-{label}"), &replay, hash_of(&label));
                }
            }
        }
    }
}

fn new_mon() -> Monitor {
    let mut m = Monitor::new(
        "C30",
        "generated modules (facts, effects, pure + finish functions, commands with policy blocks made of lets/checks/ifs/matches/function calls ending in finish blocks, recall statements/expressions, nested branching terminals, recall blocks with their own finish) accepted by the real compiler; each command x 6 inputs (small key space so creates collide and deletes hit; one input with an injected I/O write failure), single-stepped with an online finish/recall tracker. non-trivial = run that performed a fact operation or effect or ended in Panic/Check; distinct by hash(command, this, store)",
    )
    .min(300)
    .require("finish_entered", "finish blocks must be reached")
    .require("recall_executed", "recall must be exercised")
    .require("effects_recalled_true", "effects inside recall handling must be observed")
    .require("effects_recalled_false", "effects outside recall handling must be observed")
    .require("exit_Panic", "panic exits must be observed")
    .require("exit_Check", "check exits must be observed")
    .require("fact_ops_seen", "fact operations must be observed")
    .require("near_miss_rejected_by_compiler", "near-miss programs must be exercised");
    m.max_violations = 64;
    m
}

fn main() {
    let args = Args::parse();
    let mut mon = new_mon();
    if let Some(r) = args.replay_case() {
        let c = if r["case"]["case"].is_object() { &r["case"]["case"] } else { &r["case"] };
        match c["workload"].as_str() {
            Some("generated") => run_generated(
                &mut mon,
                c["module_seed"].as_u64().unwrap(),
                Some((c["command"].as_u64().unwrap() as usize, c["input"].as_u64().unwrap())),
            ),
            Some("near-miss") => run_near_misses(&mut mon, args.seed),
            _ => panic!("unknown replay workload"),
        }
        finish_all(&args, vec![mon]);
    }
    let n = args.n(6000, 150_000);
    let seed = args.seed;
    let time_cap = args.get_u64("time_cap_s", if args.tier == Tier::Quick { 240 } else { 3000 });
    let start = std::time::Instant::now();
    let parts = par_shards(cores(), |shard, nshards| {
        let mut w = new_mon();
        let my = (n as usize).div_ceil(nshards) as u64;
        for i in 0..my {
            if start.elapsed().as_secs() > time_cap {
                w.count("time_cap_hit", 1);
                break;
            }
            run_generated(&mut w, mix2(mix2(seed, 30), mix2(shard as u64, i)), None);
        }
        w
    });
    for p in parts {
        mon_polsem::merge(&mut mon, p);
    }
    run_near_misses(&mut mon, seed);
    let g = mon.counters.get("modules_generated").copied().unwrap_or(0);
    let a = mon.counters.get("modules_accepted").copied().unwrap_or(0);
    if g > 0 {
        mon.counters.insert("acceptance_permille".into(), a * 1000 / g);
        if a * 2 < g {
            mon.inconclusive(&format!("generator acceptance collapsed: {a}/{g} modules accepted"));
        }
    }
    if mon.counters.get("near_miss_malformed").copied().unwrap_or(0) > 0 {
        mon.inconclusive("some near-miss programs do not parse (harness defect)");
    }
    finish_all(&args, vec![mon]);
}
